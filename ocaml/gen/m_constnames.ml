
(** val negb : bool -> bool **)

let negb = function
| true -> false
| false -> true

type nat =
| O
| S of nat

(** val fst : ('a1 * 'a2) -> 'a1 **)

let fst = function
| (x, _) -> x

(** val snd : ('a1 * 'a2) -> 'a2 **)

let snd = function
| (_, y) -> y

(** val length : 'a1 list -> nat **)

let rec length = function
| [] -> O
| _ :: l' -> S (length l')

(** val app : 'a1 list -> 'a1 list -> 'a1 list **)

let rec app l m =
  match l with
  | [] -> m
  | a :: l1 -> a :: (app l1 m)

type comparison =
| Eq
| Lt
| Gt

(** val compOpp : comparison -> comparison **)

let compOpp = function
| Eq -> Eq
| Lt -> Gt
| Gt -> Lt

module Coq__1 = struct
 (** val add : nat -> nat -> nat **)
 let rec add n0 m =
   match n0 with
   | O -> m
   | S p -> S (add p m)
end
include Coq__1

(** val sub : nat -> nat -> nat **)

let rec sub n0 m =
  match n0 with
  | O -> n0
  | S k -> (match m with
            | O -> n0
            | S l -> sub k l)

type positive =
| XI of positive
| XO of positive
| XH

type n =
| N0
| Npos of positive

type z =
| Z0
| Zpos of positive
| Zneg of positive

module Pos =
 struct
  (** val succ : positive -> positive **)

  let rec succ = function
  | XI p -> XO (succ p)
  | XO p -> XI p
  | XH -> XO XH

  (** val add : positive -> positive -> positive **)

  let rec add x y =
    match x with
    | XI p ->
      (match y with
       | XI q -> XO (add_carry p q)
       | XO q -> XI (add p q)
       | XH -> XO (succ p))
    | XO p ->
      (match y with
       | XI q -> XI (add p q)
       | XO q -> XO (add p q)
       | XH -> XI p)
    | XH -> (match y with
             | XI q -> XO (succ q)
             | XO q -> XI q
             | XH -> XO XH)

  (** val add_carry : positive -> positive -> positive **)

  and add_carry x y =
    match x with
    | XI p ->
      (match y with
       | XI q -> XI (add_carry p q)
       | XO q -> XO (add_carry p q)
       | XH -> XI (succ p))
    | XO p ->
      (match y with
       | XI q -> XO (add_carry p q)
       | XO q -> XI (add p q)
       | XH -> XO (succ p))
    | XH ->
      (match y with
       | XI q -> XI (succ q)
       | XO q -> XO (succ q)
       | XH -> XI XH)

  (** val pred_double : positive -> positive **)

  let rec pred_double = function
  | XI p -> XI (XO p)
  | XO p -> XI (pred_double p)
  | XH -> XH

  (** val pred_N : positive -> n **)

  let pred_N = function
  | XI p -> Npos (XO p)
  | XO p -> Npos (pred_double p)
  | XH -> N0

  (** val mul : positive -> positive -> positive **)

  let rec mul x y =
    match x with
    | XI p -> add y (XO (mul p y))
    | XO p -> XO (mul p y)
    | XH -> y

  (** val iter : ('a1 -> 'a1) -> 'a1 -> positive -> 'a1 **)

  let rec iter f x = function
  | XI n' -> f (iter f (iter f x n') n')
  | XO n' -> iter f (iter f x n') n'
  | XH -> f x

  (** val div2 : positive -> positive **)

  let div2 = function
  | XI p0 -> p0
  | XO p0 -> p0
  | XH -> XH

  (** val div2_up : positive -> positive **)

  let div2_up = function
  | XI p0 -> succ p0
  | XO p0 -> p0
  | XH -> XH

  (** val size : positive -> positive **)

  let rec size = function
  | XI p0 -> succ (size p0)
  | XO p0 -> succ (size p0)
  | XH -> XH

  (** val compare_cont : comparison -> positive -> positive -> comparison **)

  let rec compare_cont r x y =
    match x with
    | XI p ->
      (match y with
       | XI q -> compare_cont r p q
       | XO q -> compare_cont Gt p q
       | XH -> Gt)
    | XO p ->
      (match y with
       | XI q -> compare_cont Lt p q
       | XO q -> compare_cont r p q
       | XH -> Gt)
    | XH -> (match y with
             | XH -> r
             | _ -> Lt)

  (** val compare : positive -> positive -> comparison **)

  let compare =
    compare_cont Eq

  (** val eqb : positive -> positive -> bool **)

  let rec eqb p q =
    match p with
    | XI p0 -> (match q with
                | XI q0 -> eqb p0 q0
                | _ -> false)
    | XO p0 -> (match q with
                | XO q0 -> eqb p0 q0
                | _ -> false)
    | XH -> (match q with
             | XH -> true
             | _ -> false)

  (** val coq_Nsucc_double : n -> n **)

  let coq_Nsucc_double = function
  | N0 -> Npos XH
  | Npos p -> Npos (XI p)

  (** val coq_Ndouble : n -> n **)

  let coq_Ndouble = function
  | N0 -> N0
  | Npos p -> Npos (XO p)

  (** val coq_lor : positive -> positive -> positive **)

  let rec coq_lor p q =
    match p with
    | XI p0 ->
      (match q with
       | XI q0 -> XI (coq_lor p0 q0)
       | XO q0 -> XI (coq_lor p0 q0)
       | XH -> p)
    | XO p0 ->
      (match q with
       | XI q0 -> XI (coq_lor p0 q0)
       | XO q0 -> XO (coq_lor p0 q0)
       | XH -> XI p0)
    | XH -> (match q with
             | XO q0 -> XI q0
             | _ -> q)

  (** val coq_land : positive -> positive -> n **)

  let rec coq_land p q =
    match p with
    | XI p0 ->
      (match q with
       | XI q0 -> coq_Nsucc_double (coq_land p0 q0)
       | XO q0 -> coq_Ndouble (coq_land p0 q0)
       | XH -> Npos XH)
    | XO p0 ->
      (match q with
       | XI q0 -> coq_Ndouble (coq_land p0 q0)
       | XO q0 -> coq_Ndouble (coq_land p0 q0)
       | XH -> N0)
    | XH -> (match q with
             | XO _ -> N0
             | _ -> Npos XH)

  (** val ldiff : positive -> positive -> n **)

  let rec ldiff p q =
    match p with
    | XI p0 ->
      (match q with
       | XI q0 -> coq_Ndouble (ldiff p0 q0)
       | XO q0 -> coq_Nsucc_double (ldiff p0 q0)
       | XH -> Npos (XO p0))
    | XO p0 ->
      (match q with
       | XI q0 -> coq_Ndouble (ldiff p0 q0)
       | XO q0 -> coq_Ndouble (ldiff p0 q0)
       | XH -> Npos p)
    | XH -> (match q with
             | XO _ -> Npos XH
             | _ -> N0)

  (** val iter_op : ('a1 -> 'a1 -> 'a1) -> positive -> 'a1 -> 'a1 **)

  let rec iter_op op p a =
    match p with
    | XI p0 -> op a (iter_op op p0 (op a a))
    | XO p0 -> iter_op op p0 (op a a)
    | XH -> a

  (** val to_nat : positive -> nat **)

  let to_nat x =
    iter_op Coq__1.add x (S O)

  (** val of_succ_nat : nat -> positive **)

  let rec of_succ_nat = function
  | O -> XH
  | S x -> succ (of_succ_nat x)
 end

module N =
 struct
  (** val succ_pos : n -> positive **)

  let succ_pos = function
  | N0 -> XH
  | Npos p -> Pos.succ p

  (** val coq_lor : n -> n -> n **)

  let coq_lor n0 m =
    match n0 with
    | N0 -> m
    | Npos p -> (match m with
                 | N0 -> n0
                 | Npos q -> Npos (Pos.coq_lor p q))

  (** val ldiff : n -> n -> n **)

  let ldiff n0 m =
    match n0 with
    | N0 -> N0
    | Npos p -> (match m with
                 | N0 -> n0
                 | Npos q -> Pos.ldiff p q)
 end

module Z =
 struct
  (** val double : z -> z **)

  let double = function
  | Z0 -> Z0
  | Zpos p -> Zpos (XO p)
  | Zneg p -> Zneg (XO p)

  (** val succ_double : z -> z **)

  let succ_double = function
  | Z0 -> Zpos XH
  | Zpos p -> Zpos (XI p)
  | Zneg p -> Zneg (Pos.pred_double p)

  (** val pred_double : z -> z **)

  let pred_double = function
  | Z0 -> Zneg XH
  | Zpos p -> Zpos (Pos.pred_double p)
  | Zneg p -> Zneg (XI p)

  (** val pos_sub : positive -> positive -> z **)

  let rec pos_sub x y =
    match x with
    | XI p ->
      (match y with
       | XI q -> double (pos_sub p q)
       | XO q -> succ_double (pos_sub p q)
       | XH -> Zpos (XO p))
    | XO p ->
      (match y with
       | XI q -> pred_double (pos_sub p q)
       | XO q -> double (pos_sub p q)
       | XH -> Zpos (Pos.pred_double p))
    | XH ->
      (match y with
       | XI q -> Zneg (XO q)
       | XO q -> Zneg (Pos.pred_double q)
       | XH -> Z0)

  (** val add : z -> z -> z **)

  let add x y =
    match x with
    | Z0 -> y
    | Zpos x' ->
      (match y with
       | Z0 -> x
       | Zpos y' -> Zpos (Pos.add x' y')
       | Zneg y' -> pos_sub x' y')
    | Zneg x' ->
      (match y with
       | Z0 -> x
       | Zpos y' -> pos_sub y' x'
       | Zneg y' -> Zneg (Pos.add x' y'))

  (** val opp : z -> z **)

  let opp = function
  | Z0 -> Z0
  | Zpos x0 -> Zneg x0
  | Zneg x0 -> Zpos x0

  (** val pred : z -> z **)

  let pred x =
    add x (Zneg XH)

  (** val sub : z -> z -> z **)

  let sub m n0 =
    add m (opp n0)

  (** val mul : z -> z -> z **)

  let mul x y =
    match x with
    | Z0 -> Z0
    | Zpos x' ->
      (match y with
       | Z0 -> Z0
       | Zpos y' -> Zpos (Pos.mul x' y')
       | Zneg y' -> Zneg (Pos.mul x' y'))
    | Zneg x' ->
      (match y with
       | Z0 -> Z0
       | Zpos y' -> Zneg (Pos.mul x' y')
       | Zneg y' -> Zpos (Pos.mul x' y'))

  (** val pow_pos : z -> positive -> z **)

  let pow_pos z0 =
    Pos.iter (mul z0) (Zpos XH)

  (** val pow : z -> z -> z **)

  let pow x = function
  | Z0 -> Zpos XH
  | Zpos p -> pow_pos x p
  | Zneg _ -> Z0

  (** val compare : z -> z -> comparison **)

  let compare x y =
    match x with
    | Z0 -> (match y with
             | Z0 -> Eq
             | Zpos _ -> Lt
             | Zneg _ -> Gt)
    | Zpos x' -> (match y with
                  | Zpos y' -> Pos.compare x' y'
                  | _ -> Gt)
    | Zneg x' ->
      (match y with
       | Zneg y' -> compOpp (Pos.compare x' y')
       | _ -> Lt)

  (** val leb : z -> z -> bool **)

  let leb x y =
    match compare x y with
    | Gt -> false
    | _ -> true

  (** val ltb : z -> z -> bool **)

  let ltb x y =
    match compare x y with
    | Lt -> true
    | _ -> false

  (** val eqb : z -> z -> bool **)

  let eqb x y =
    match x with
    | Z0 -> (match y with
             | Z0 -> true
             | _ -> false)
    | Zpos p -> (match y with
                 | Zpos q -> Pos.eqb p q
                 | _ -> false)
    | Zneg p -> (match y with
                 | Zneg q -> Pos.eqb p q
                 | _ -> false)

  (** val max : z -> z -> z **)

  let max n0 m =
    match compare n0 m with
    | Lt -> m
    | _ -> n0

  (** val abs : z -> z **)

  let abs = function
  | Zneg p -> Zpos p
  | x -> x

  (** val to_nat : z -> nat **)

  let to_nat = function
  | Zpos p -> Pos.to_nat p
  | _ -> O

  (** val of_nat : nat -> z **)

  let of_nat = function
  | O -> Z0
  | S n1 -> Zpos (Pos.of_succ_nat n1)

  (** val of_N : n -> z **)

  let of_N = function
  | N0 -> Z0
  | Npos p -> Zpos p

  (** val pos_div_eucl : positive -> z -> z * z **)

  let rec pos_div_eucl a b =
    match a with
    | XI a' ->
      let (q, r) = pos_div_eucl a' b in
      let r' = add (mul (Zpos (XO XH)) r) (Zpos XH) in
      if ltb r' b
      then ((mul (Zpos (XO XH)) q), r')
      else ((add (mul (Zpos (XO XH)) q) (Zpos XH)), (sub r' b))
    | XO a' ->
      let (q, r) = pos_div_eucl a' b in
      let r' = mul (Zpos (XO XH)) r in
      if ltb r' b
      then ((mul (Zpos (XO XH)) q), r')
      else ((add (mul (Zpos (XO XH)) q) (Zpos XH)), (sub r' b))
    | XH -> if leb (Zpos (XO XH)) b then (Z0, (Zpos XH)) else ((Zpos XH), Z0)

  (** val div_eucl : z -> z -> z * z **)

  let div_eucl a b =
    match a with
    | Z0 -> (Z0, Z0)
    | Zpos a' ->
      (match b with
       | Z0 -> (Z0, a)
       | Zpos _ -> pos_div_eucl a' b
       | Zneg b' ->
         let (q, r) = pos_div_eucl a' (Zpos b') in
         (match r with
          | Z0 -> ((opp q), Z0)
          | _ -> ((opp (add q (Zpos XH))), (add b r))))
    | Zneg a' ->
      (match b with
       | Z0 -> (Z0, a)
       | Zpos _ ->
         let (q, r) = pos_div_eucl a' b in
         (match r with
          | Z0 -> ((opp q), Z0)
          | _ -> ((opp (add q (Zpos XH))), (sub b r)))
       | Zneg b' -> let (q, r) = pos_div_eucl a' (Zpos b') in (q, (opp r)))

  (** val div : z -> z -> z **)

  let div a b =
    let (q, _) = div_eucl a b in q

  (** val modulo : z -> z -> z **)

  let modulo a b =
    let (_, r) = div_eucl a b in r

  (** val div2 : z -> z **)

  let div2 = function
  | Z0 -> Z0
  | Zpos p -> (match p with
               | XH -> Z0
               | _ -> Zpos (Pos.div2 p))
  | Zneg p -> Zneg (Pos.div2_up p)

  (** val log2 : z -> z **)

  let log2 = function
  | Zpos p0 ->
    (match p0 with
     | XI p -> Zpos (Pos.size p)
     | XO p -> Zpos (Pos.size p)
     | XH -> Z0)
  | _ -> Z0

  (** val shiftl : z -> z -> z **)

  let shiftl a = function
  | Z0 -> a
  | Zpos p -> Pos.iter (mul (Zpos (XO XH))) a p
  | Zneg p -> Pos.iter div2 a p

  (** val shiftr : z -> z -> z **)

  let shiftr a n0 =
    shiftl a (opp n0)

  (** val coq_land : z -> z -> z **)

  let coq_land a b =
    match a with
    | Z0 -> Z0
    | Zpos a0 ->
      (match b with
       | Z0 -> Z0
       | Zpos b0 -> of_N (Pos.coq_land a0 b0)
       | Zneg b0 -> of_N (N.ldiff (Npos a0) (Pos.pred_N b0)))
    | Zneg a0 ->
      (match b with
       | Z0 -> Z0
       | Zpos b0 -> of_N (N.ldiff (Npos b0) (Pos.pred_N a0))
       | Zneg b0 ->
         Zneg (N.succ_pos (N.coq_lor (Pos.pred_N a0) (Pos.pred_N b0))))

  (** val ones : z -> z **)

  let ones n0 =
    pred (shiftl (Zpos XH) n0)
 end

(** val nth_error : 'a1 list -> nat -> 'a1 option **)

let rec nth_error l = function
| O -> (match l with
        | [] -> None
        | x :: _ -> Some x)
| S n1 -> (match l with
           | [] -> None
           | _ :: l0 -> nth_error l0 n1)

(** val last : 'a1 list -> 'a1 -> 'a1 **)

let rec last l d =
  match l with
  | [] -> d
  | a :: l0 -> (match l0 with
                | [] -> a
                | _ :: _ -> last l0 d)

(** val removelast : 'a1 list -> 'a1 list **)

let rec removelast = function
| [] -> []
| a :: l0 -> (match l0 with
              | [] -> []
              | _ :: _ -> a :: (removelast l0))

(** val rev : 'a1 list -> 'a1 list **)

let rec rev = function
| [] -> []
| x :: l' -> app (rev l') (x :: [])

(** val map : ('a1 -> 'a2) -> 'a1 list -> 'a2 list **)

let rec map f = function
| [] -> []
| a :: t -> (f a) :: (map f t)

(** val flat_map : ('a1 -> 'a2 list) -> 'a1 list -> 'a2 list **)

let rec flat_map f = function
| [] -> []
| x :: t -> app (f x) (flat_map f t)

(** val fold_left : ('a1 -> 'a2 -> 'a1) -> 'a2 list -> 'a1 -> 'a1 **)

let rec fold_left f l a0 =
  match l with
  | [] -> a0
  | b :: t -> fold_left f t (f a0 b)

(** val forallb : ('a1 -> bool) -> 'a1 list -> bool **)

let rec forallb f = function
| [] -> true
| a :: l0 -> (&&) (f a) (forallb f l0)

(** val filter : ('a1 -> bool) -> 'a1 list -> 'a1 list **)

let rec filter f = function
| [] -> []
| x :: l0 -> if f x then x :: (filter f l0) else filter f l0

(** val firstn : nat -> 'a1 list -> 'a1 list **)

let rec firstn n0 l =
  match n0 with
  | O -> []
  | S n1 -> (match l with
             | [] -> []
             | a :: l0 -> a :: (firstn n1 l0))

(** val skipn : nat -> 'a1 list -> 'a1 list **)

let rec skipn n0 l =
  match n0 with
  | O -> l
  | S n1 -> (match l with
             | [] -> []
             | _ :: l0 -> skipn n1 l0)

(** val ex_keep :
    (((((nat * n) * z) * z list) * z option) * positive) * bool **)

let ex_keep =
  ((((((O, N0), Z0), []), None), XH), true)

(** val wrap : z -> bool -> z -> z **)

let wrap w s v =
  if s
  then Z.sub
         (Z.modulo (Z.add v (Z.pow (Zpos (XO XH)) (Z.sub w (Zpos XH))))
           (Z.pow (Zpos (XO XH)) w))
         (Z.pow (Zpos (XO XH)) (Z.sub w (Zpos XH)))
  else Z.modulo v (Z.pow (Zpos (XO XH)) w)

(** val ch_us : z **)

let ch_us =
  Zpos (XI (XI (XI (XI (XI (XO XH))))))

(** val ch_minus : z **)

let ch_minus =
  Zpos (XI (XO (XI (XI (XO XH)))))

(** val ch_plus : z **)

let ch_plus =
  Zpos (XI (XI (XO (XI (XO XH)))))

(** val ch_0 : z **)

let ch_0 =
  Zpos (XO (XO (XO (XO (XI XH)))))

(** val is_x : z -> bool **)

let is_x c =
  (||) (Z.eqb c (Zpos (XO (XO (XO (XI (XI (XI XH))))))))
    (Z.eqb c (Zpos (XO (XO (XO (XI (XI (XO XH))))))))

(** val is_o : z -> bool **)

let is_o c =
  (||) (Z.eqb c (Zpos (XI (XI (XI (XI (XO (XI XH))))))))
    (Z.eqb c (Zpos (XI (XI (XI (XI (XO (XO XH))))))))

(** val is_b : z -> bool **)

let is_b c =
  (||) (Z.eqb c (Zpos (XO (XI (XO (XO (XO (XI XH))))))))
    (Z.eqb c (Zpos (XO (XI (XO (XO (XO (XO XH))))))))

(** val is_l : z -> bool **)

let is_l c =
  (||) (Z.eqb c (Zpos (XO (XO (XI (XI (XO (XI XH))))))))
    (Z.eqb c (Zpos (XO (XO (XI (XI (XO (XO XH))))))))

(** val is_space : z -> bool **)

let is_space c =
  (||) (Z.eqb c (Zpos (XO (XO (XO (XO (XO XH)))))))
    ((&&) (Z.leb (Zpos (XI (XO (XO XH)))) c)
      (Z.leb c (Zpos (XI (XO (XI XH))))))

(** val digit_val : z -> z **)

let digit_val c =
  if (&&) (Z.leb (Zpos (XO (XO (XO (XO (XI XH)))))) c)
       (Z.leb c (Zpos (XI (XO (XO (XI (XI XH)))))))
  then Z.sub c (Zpos (XO (XO (XO (XO (XI XH))))))
  else if (&&) (Z.leb (Zpos (XI (XO (XO (XO (XO (XI XH))))))) c)
            (Z.leb c (Zpos (XO (XI (XO (XI (XI (XI XH))))))))
       then Z.sub c (Zpos (XI (XI (XI (XO (XI (XO XH)))))))
       else if (&&) (Z.leb (Zpos (XI (XO (XO (XO (XO (XO XH))))))) c)
                 (Z.leb c (Zpos (XO (XI (XO (XI (XI (XO XH))))))))
            then Z.sub c (Zpos (XI (XI (XI (XO (XI XH))))))
            else Zpos (XI (XO (XI (XO (XO XH)))))

(** val drop_space : z list -> z list **)

let rec drop_space s = match s with
| [] -> []
| c :: t -> if is_space c then drop_space t else s

(** val scan : z -> bool -> z -> z -> z list -> ((z * z) * z list) option **)

let rec scan base prev_us acc nd s = match s with
| [] -> if prev_us then None else Some ((acc, nd), [])
| c :: t ->
  if Z.eqb c ch_us
  then if prev_us then None else scan base true acc nd t
  else if Z.ltb (digit_val c) base
       then scan base false (Z.add (Z.mul acc base) (digit_val c))
              (Z.add nd (Zpos XH)) t
       else if prev_us then None else Some ((acc, nd), s)

(** val max_str_digits : z **)

let max_str_digits =
  Zpos (XO (XO (XI (XI (XO (XO (XI (XI (XO (XO (XO (XO XH))))))))))))

(** val is_pow2_base : z -> bool **)

let is_pow2_base b =
  (||)
    ((||)
      ((||) ((||) (Z.eqb b (Zpos (XO XH))) (Z.eqb b (Zpos (XO (XO XH)))))
        (Z.eqb b (Zpos (XO (XO (XO XH))))))
      (Z.eqb b (Zpos (XO (XO (XO (XO XH)))))))
    (Z.eqb b (Zpos (XO (XO (XO (XO (XO XH)))))))

(** val py_int : z -> z list -> z option **)

let py_int base s0 =
  let s1 = drop_space s0 in
  let neg = match s1 with
            | [] -> false
            | c :: _ -> Z.eqb c ch_minus in
  let s2 =
    match s1 with
    | [] -> s1
    | c :: t -> if (||) (Z.eqb c ch_minus) (Z.eqb c ch_plus) then t else s1
  in
  let b =
    if Z.eqb base Z0
    then (match s2 with
          | [] -> Zpos (XO (XI (XO XH)))
          | c0 :: l ->
            (match l with
             | [] -> Zpos (XO (XI (XO XH)))
             | c1 :: _ ->
               if Z.eqb c0 ch_0
               then if is_x c1
                    then Zpos (XO (XO (XO (XO XH))))
                    else if is_o c1
                         then Zpos (XO (XO (XO XH)))
                         else if is_b c1
                              then Zpos (XO XH)
                              else Zpos (XO (XI (XO XH)))
               else Zpos (XO (XI (XO XH)))))
    else base
  in
  let old_octal =
    (&&) (Z.eqb base Z0)
      (match s2 with
       | [] -> false
       | c0 :: l ->
         (match l with
          | [] -> Z.eqb c0 ch_0
          | c1 :: _ ->
            (&&) (Z.eqb c0 ch_0)
              (negb ((||) ((||) (is_x c1) (is_o c1)) (is_b c1)))))
  in
  let s3 =
    match s2 with
    | [] -> s2
    | c0 :: l ->
      (match l with
       | [] -> s2
       | c1 :: t ->
         if (&&) (Z.eqb c0 ch_0)
              ((||)
                ((||)
                  ((&&) (Z.eqb b (Zpos (XO (XO (XO (XO XH)))))) (is_x c1))
                  ((&&) (Z.eqb b (Zpos (XO (XO (XO XH))))) (is_o c1)))
                ((&&) (Z.eqb b (Zpos (XO XH))) (is_b c1)))
         then (match t with
               | [] -> t
               | u :: t' -> if Z.eqb u ch_us then t' else t)
         else s2)
  in
  (match s3 with
   | [] -> None
   | c :: _ ->
     if Z.eqb c ch_us
     then None
     else (match scan b false Z0 Z0 s3 with
           | Some p ->
             let (p0, rest) = p in
             let (v, nd) = p0 in
             if Z.eqb nd Z0
             then None
             else if negb (forallb is_space rest)
                  then None
                  else if (&&) (negb (is_pow2_base b))
                            (Z.ltb max_str_digits nd)
                       then None
                       else if (&&) old_octal (negb (Z.eqb v Z0))
                            then None
                            else Some (if neg then Z.opp v else v)
           | None -> None))

(** val strip_L : z list -> z list **)

let strip_L s =
  if is_l (last s Z0) then removelast s else s

(** val str_to_number : z list -> z option **)

let str_to_number s =
  let neg = match s with
            | [] -> false
            | c :: _ -> Z.eqb c ch_minus in
  let v = match s with
          | [] -> s
          | c :: t -> if Z.eqb c ch_minus then t else s
  in
  let r =
    match v with
    | [] -> py_int Z0 v
    | c0 :: l ->
      (match l with
       | [] -> py_int Z0 v
       | c1 :: rest ->
         if Z.eqb c0 ch_0
         then if is_x c1
              then py_int (Zpos (XO (XO (XO (XO XH)))))
                     (skipn (S (S O)) (strip_L v))
              else if is_o c1
                   then py_int (Zpos (XO (XO (XO XH)))) rest
                   else if is_b c1
                        then py_int (Zpos (XO XH)) rest
                        else py_int (Zpos (XO (XO (XO XH)))) v
         else py_int Z0 v)
  in
  (match r with
   | Some x -> Some (if neg then Z.opp x else x)
   | None -> None)

(** val digit_char : z -> z **)

let digit_char d =
  if Z.ltb d (Zpos (XO (XI (XO XH))))
  then Z.add (Zpos (XO (XO (XO (XO (XI XH)))))) d
  else Z.add (Zpos (XI (XI (XI (XO (XI (XO XH))))))) d

(** val digits_rev : nat -> z -> z -> z list **)

let rec digits_rev fuel b n0 =
  match fuel with
  | O -> []
  | S f ->
    if Z.leb n0 Z0
    then []
    else let (q, r) = Z.div_eucl n0 b in (digit_char r) :: (digits_rev f b q)

(** val digits_rev_pow2 : nat -> z -> z -> z list **)

let rec digits_rev_pow2 fuel k n0 =
  match fuel with
  | O -> []
  | S f ->
    if Z.leb n0 Z0
    then []
    else (digit_char (Z.coq_land n0 (Z.ones k))) :: (digits_rev_pow2 f k
                                                      (Z.shiftr n0 k))

(** val digit_fuel : z -> nat **)

let digit_fuel n0 =
  S (Z.to_nat (Z.log2 n0))

(** val to_digits : z -> z -> z list **)

let to_digits b n0 =
  rev (digits_rev (digit_fuel n0) b n0)

(** val to_digits_pow2 : z -> z -> z list **)

let to_digits_pow2 k n0 =
  rev (digits_rev_pow2 (digit_fuel n0) k n0)

(** val to_base32 : z -> z list **)

let to_base32 n0 =
  if Z.eqb n0 Z0
  then ch_0 :: []
  else app (if Z.ltb n0 Z0 then ch_minus :: [] else [])
         (to_digits_pow2 (Zpos (XI (XO XH))) (Z.abs n0))

(** val bit_length : z -> z **)

let bit_length n0 =
  if Z.eqb n0 Z0 then Z0 else Z.add (Z.log2 (Z.abs n0)) (Zpos XH)

(** val next_size : z -> z -> z **)

let next_size cur need =
  if Z.leb need cur
  then cur
  else if Z.leb need (Zpos (XO XH))
       then Z.max cur (Zpos (XO XH))
       else if Z.leb need (Zpos (XO (XO XH)))
            then Z.max cur (Zpos (XO (XO XH)))
            else Z.max cur (Zpos (XO (XO (XO XH))))

(** val c_array_bytes : z -> z -> z **)

let c_array_bytes cur n0 =
  next_size cur
    (Z.div (Z.add (bit_length n0) (Zpos (XO (XO (XO XH))))) (Zpos (XO (XO (XO
      XH)))))

type emitted =
| EmitC of z * z
| EmitBase32 of z list

(** val emit_num : z -> z list -> emitted option **)

let emit_num cur text =
  match str_to_number text with
  | Some n0 ->
    if Z.leb (bit_length n0) (Zpos (XI (XI (XI (XI (XI XH))))))
    then Some (EmitC ((c_array_bytes cur n0), n0))
    else Some (EmitBase32 (to_base32 n0))
  | None -> None

(** val decode_emitted : emitted -> z option **)

let decode_emitted = function
| EmitC (bytes, v) ->
  Some (wrap (Z.mul (Zpos (XO (XO (XO XH)))) bytes) true v)
| EmitBase32 t -> py_int (Zpos (XO (XO (XO (XO (XO XH)))))) t

(** val zlist_eqb : z list -> z list -> bool **)

let rec zlist_eqb a b =
  match a with
  | [] -> (match b with
           | [] -> true
           | _ :: _ -> false)
  | x :: a' ->
    (match b with
     | [] -> false
     | y :: b' -> (&&) (Z.eqb x y) (zlist_eqb a' b'))

type str = z list

type ptype =
| PInt
| PLong
| PFloat

(** val ptype_eqb : ptype -> ptype -> bool **)

let ptype_eqb a b =
  match a with
  | PInt -> (match b with
             | PInt -> true
             | _ -> false)
  | PLong -> (match b with
              | PLong -> true
              | _ -> false)
  | PFloat -> (match b with
               | PFloat -> true
               | _ -> false)

(** val s_neg : str **)

let s_neg =
  (Zpos (XO (XI (XI (XI (XO (XI XH))))))) :: ((Zpos (XI (XO (XI (XO (XO (XI
    XH))))))) :: ((Zpos (XI (XI (XI (XO (XO (XI XH))))))) :: ((Zpos (XI (XI
    (XI (XI (XI (XO XH))))))) :: [])))

(** val s_large : str **)

let s_large =
  (Zpos (XO (XO (XI (XI (XO (XI XH))))))) :: ((Zpos (XI (XO (XO (XO (XO (XI
    XH))))))) :: ((Zpos (XO (XI (XO (XO (XI (XI XH))))))) :: ((Zpos (XI (XI
    (XI (XO (XO (XI XH))))))) :: ((Zpos (XI (XO (XI (XO (XO (XI
    XH))))))) :: []))))

(** val s_xxx : str **)

let s_xxx =
  (Zpos (XI (XI (XI (XI (XI (XO XH))))))) :: ((Zpos (XO (XO (XO (XI (XI (XI
    XH))))))) :: ((Zpos (XO (XO (XO (XI (XI (XI XH))))))) :: ((Zpos (XO (XO
    (XO (XI (XI (XI XH))))))) :: ((Zpos (XI (XI (XI (XI (XI (XO
    XH))))))) :: []))))

(** val pfx_int : str **)

let pfx_int =
  (Zpos (XI (XI (XI (XI (XI (XO XH))))))) :: ((Zpos (XI (XI (XI (XI (XI (XO
    XH))))))) :: ((Zpos (XO (XO (XO (XO (XI (XI XH))))))) :: ((Zpos (XI (XO
    (XO (XI (XI (XI XH))))))) :: ((Zpos (XO (XO (XO (XI (XI (XI
    XH))))))) :: ((Zpos (XI (XI (XI (XI (XI (XO XH))))))) :: ((Zpos (XI (XO
    (XO (XI (XO (XI XH))))))) :: ((Zpos (XO (XI (XI (XI (XO (XI
    XH))))))) :: ((Zpos (XO (XO (XI (XO (XI (XI XH))))))) :: ((Zpos (XI (XI
    (XI (XI (XI (XO XH))))))) :: [])))))))))

(** val pfx_float : str **)

let pfx_float =
  (Zpos (XI (XI (XI (XI (XI (XO XH))))))) :: ((Zpos (XI (XI (XI (XI (XI (XO
    XH))))))) :: ((Zpos (XO (XO (XO (XO (XI (XI XH))))))) :: ((Zpos (XI (XO
    (XO (XI (XI (XI XH))))))) :: ((Zpos (XO (XO (XO (XI (XI (XI
    XH))))))) :: ((Zpos (XI (XI (XI (XI (XI (XO XH))))))) :: ((Zpos (XO (XI
    (XI (XO (XO (XI XH))))))) :: ((Zpos (XO (XO (XI (XI (XO (XI
    XH))))))) :: ((Zpos (XI (XI (XI (XI (XO (XI XH))))))) :: ((Zpos (XI (XO
    (XO (XO (XO (XI XH))))))) :: ((Zpos (XO (XO (XI (XO (XI (XI
    XH))))))) :: ((Zpos (XI (XI (XI (XI (XI (XO XH))))))) :: [])))))))))))

(** val name_limit : z **)

let name_limit =
  Zpos (XO (XI (XO (XI (XO XH)))))

(** val keep : nat **)

let keep =
  S (S (S (S (S (S (S (S (S (S (S (S (S (S (S (S (S (S O)))))))))))))))))

(** val sanitize_ch : z -> str **)

let sanitize_ch c =
  if (||) (Z.eqb c (Zpos (XO (XI (XI (XI (XO XH)))))))
       (Z.eqb c (Zpos (XI (XI (XO (XI (XO XH)))))))
  then (Zpos (XI (XI (XI (XI (XI (XO XH))))))) :: []
  else if Z.eqb c (Zpos (XI (XO (XI (XI (XO XH)))))) then s_neg else c :: []

(** val sanitize : str -> str **)

let sanitize s =
  flat_map sanitize_ch s

(** val eff_spelling : str -> ptype -> str **)

let eff_spelling v = function
| PLong -> app v ((Zpos (XO (XO (XI (XI (XO (XO XH))))))) :: [])
| _ -> v

(** val prefix_of : ptype -> str **)

let prefix_of = function
| PFloat -> pfx_float
| _ -> pfx_int

(** val lastn : nat -> 'a1 list -> 'a1 list **)

let lastn n0 l =
  skipn (sub (length l) n0) l

(** val dec : z -> str **)

let dec c =
  if Z.eqb c Z0
  then (Zpos (XO (XO (XO (XO (XI XH)))))) :: []
  else app
         (if Z.ltb c Z0 then (Zpos (XI (XO (XI (XI (XO XH)))))) :: [] else [])
         (to_digits (Zpos (XO (XI (XO XH)))) (Z.abs c))

type dict = (str * z) list

(** val dget : str -> dict -> z option **)

let rec dget k = function
| [] -> None
| p :: r -> let (k', v) = p in if zlist_eqb k k' then Some v else dget k r

(** val dmem : str -> dict -> bool **)

let dmem k d =
  match dget k d with
  | Some _ -> true
  | None -> false

(** val dset : str -> z -> dict -> dict **)

let rec dset k v = function
| [] -> (k, v) :: []
| p :: r ->
  let (k', v') = p in
  if zlist_eqb k k' then (k, v) :: r else (k', v') :: (dset k v r)

type fmt = { f_pre : str; f_sep : bool; f_post : str }

(** val fmt_base : fmt -> str **)

let fmt_base f =
  app f.f_pre f.f_post

(** val fmt_at : fmt -> z -> str **)

let fmt_at f c =
  app f.f_pre
    (app
      (if f.f_sep then (Zpos (XI (XI (XI (XI (XI (XO XH))))))) :: [] else [])
      (app (dec c) f.f_post))

type ures =
| UOk of str * dict
| UKeyError
| UFuel

(** val uniq_loop : nat -> fmt -> dict -> ures **)

let rec uniq_loop fuel f d =
  match fuel with
  | O -> UFuel
  | S n0 ->
    (match dget (fmt_base f) d with
     | Some c0 ->
       let c = Z.add c0 (Zpos XH) in
       let d' = dset (fmt_base f) c d in
       let cname = fmt_at f c in
       if dmem cname d'
       then uniq_loop n0 f d'
       else UOk (cname, (dset cname (Zpos XH) d'))
     | None -> UKeyError)

(** val unique_const_cname : fmt -> dict -> ures **)

let unique_const_cname f d =
  let base = fmt_base f in
  if dmem base d
  then uniq_loop (S (length d)) f d
  else UOk (base, (dset base (Zpos XH) d))

(** val large_fmt : ptype -> str -> fmt **)

let large_fmt t value =
  { f_pre = (app (prefix_of t) s_large); f_sep = false; f_post =
    (app ((Zpos (XI (XI (XI (XI (XI (XO XH))))))) :: [])
      (app (firstn keep value) (app s_xxx (lastn keep value)))) }

(** val new_num_const_cname_gen : bool -> str -> ptype -> dict -> ures **)

let new_num_const_cname_gen with_counter v t d =
  let value = sanitize (eff_spelling v t) in
  if Z.ltb name_limit (Z.of_nat (length value))
  then if with_counter
       then unique_const_cname (large_fmt t value) d
       else UOk ((fmt_base (large_fmt t value)), d)
  else UOk ((app (prefix_of t) value), d)

type nkey = str * ptype

(** val nkey_eqb : nkey -> nkey -> bool **)

let nkey_eqb a b =
  (&&) (zlist_eqb (fst a) (fst b)) (ptype_eqb (snd a) (snd b))

type pool = { p_index : (nkey * str) list; p_used : dict }

(** val index_find : nkey -> (nkey * str) list -> str option **)

let rec index_find k = function
| [] -> None
| p :: r ->
  let (k', n0) = p in if nkey_eqb k k' then Some n0 else index_find k r

(** val get_num_const_gen : bool -> nkey -> pool -> (str * pool) option **)

let get_num_const_gen wc k p =
  match index_find k p.p_index with
  | Some n0 -> Some (n0, p)
  | None ->
    (match new_num_const_cname_gen wc (fst k) (snd k) p.p_used with
     | UOk (n0, d') ->
       Some (n0, { p_index = ((k, n0) :: p.p_index); p_used = d' })
     | _ -> None)

type event =
| EReq of nkey
| EUniq of fmt

(** val step_event_gen : bool -> event -> pool -> (str * pool) option **)

let step_event_gen wc e p =
  match e with
  | EReq k -> get_num_const_gen wc k p
  | EUniq f ->
    (match unique_const_cname f p.p_used with
     | UOk (n0, d') -> Some (n0, { p_index = p.p_index; p_used = d' })
     | _ -> None)

(** val run_events_gen :
    bool -> event list -> pool -> (str list * pool) option **)

let rec run_events_gen wc es p =
  match es with
  | [] -> Some ([], p)
  | e :: r ->
    (match step_event_gen wc e p with
     | Some p0 ->
       let (n0, p') = p0 in
       (match run_events_gen wc r p' with
        | Some p1 -> let (ns, p'') = p1 in Some ((n0 :: ns), p'')
        | None -> None)
     | None -> None)

(** val pool0 : pool **)

let pool0 =
  { p_index = []; p_used = [] }

(** val okc : z -> bool **)

let okc c =
  negb
    ((||)
      ((||)
        ((||) (Z.eqb c (Zpos (XI (XI (XI (XI (XI (XO XH))))))))
          (Z.eqb c (Zpos (XI (XI (XI (XO (XO (XI XH)))))))))
        (Z.eqb c (Zpos (XO (XO (XI (XI (XO (XI XH)))))))))
      (Z.eqb c (Zpos (XO (XO (XI (XI (XO (XO XH)))))))))

(** val is_e : z -> bool **)

let is_e c =
  (||) (Z.eqb c (Zpos (XI (XO (XI (XO (XO (XI XH))))))))
    (Z.eqb c (Zpos (XI (XO (XI (XO (XO (XO XH))))))))

(** val sep_ok : bool -> str -> bool **)

let rec sep_ok prev_e = function
| [] -> true
| c :: r ->
  (&&)
    ((&&) (okc c)
      (if Z.eqb c (Zpos (XI (XI (XO (XI (XO XH))))))
       then prev_e
       else if Z.eqb c (Zpos (XO (XI (XI (XI (XO XH))))))
            then negb prev_e
            else true)) (sep_ok (is_e c) r)

(** val spell_ok : str -> bool **)

let spell_ok s =
  sep_ok false s

(** val event_okb : event -> bool **)

let event_okb = function
| EReq k -> spell_ok (fst k)
| EUniq _ -> true

type numconst = { nc_name : str; nc_text : str; nc_type : ptype; nc_code : str }

(** val ptype_rank : ptype -> z **)

let ptype_rank = function
| PInt -> Zpos XH
| PLong -> Zpos (XO XH)
| PFloat -> Z0

(** val lstrip_minus : str -> str **)

let rec lstrip_minus s = match s with
| [] -> []
| c :: r ->
  if Z.eqb c (Zpos (XI (XO (XI (XI (XO XH)))))) then lstrip_minus r else s

(** val str_cmp : str -> str -> comparison **)

let rec str_cmp a b =
  match a with
  | [] -> (match b with
           | [] -> Eq
           | _ :: _ -> Lt)
  | x :: a' ->
    (match b with
     | [] -> Gt
     | y :: b' -> (match Z.compare x y with
                   | Eq -> str_cmp a' b'
                   | x0 -> x0))

(** val lex : comparison -> comparison -> comparison **)

let lex c rest =
  match c with
  | Eq -> rest
  | _ -> c

(** val nc_cmp : numconst -> numconst -> comparison **)

let nc_cmp a b =
  lex (Z.compare (ptype_rank a.nc_type) (ptype_rank b.nc_type))
    (lex
      (Z.compare (Z.of_nat (length (lstrip_minus a.nc_text)))
        (Z.of_nat (length (lstrip_minus b.nc_text))))
      (lex (str_cmp (lstrip_minus a.nc_text) (lstrip_minus b.nc_text))
        (lex (str_cmp a.nc_text b.nc_text) (str_cmp a.nc_code b.nc_code))))

(** val nc_le : numconst -> numconst -> bool **)

let nc_le a b =
  match nc_cmp a b with
  | Gt -> false
  | _ -> true

(** val nc_insert : numconst -> numconst list -> numconst list **)

let rec nc_insert x = function
| [] -> x :: []
| y :: r -> if nc_le y x then y :: (nc_insert x r) else x :: (y :: r)

(** val nc_sort : numconst list -> numconst list **)

let nc_sort l =
  fold_left (fun acc x -> nc_insert x acc) l []

type slot_init =
| IFloat of str
| IInt of emitted
| IBad

(** val is_float : numconst -> bool **)

let is_float c =
  ptype_eqb c.nc_type PFloat

(** val is_small : numconst -> bool **)

let is_small c =
  (&&) (negb (is_float c))
    (match str_to_number c.nc_text with
     | Some n0 -> Z.leb (bit_length n0) (Zpos (XI (XI (XI (XI (XI XH))))))
     | None -> true)

(** val is_large : numconst -> bool **)

let is_large c =
  (&&) (negb (is_float c)) (negb (is_small c))

(** val small_slots : z -> numconst list -> (str * slot_init) list **)

let rec small_slots cur = function
| [] -> []
| c :: r ->
  (match emit_num cur c.nc_text with
   | Some e ->
     (match e with
      | EmitC (b, v) ->
        (c.nc_name, (IInt (EmitC (b, v)))) :: (small_slots b r)
      | EmitBase32 _ -> (c.nc_name, IBad) :: (small_slots cur r))
   | None -> (c.nc_name, IBad) :: (small_slots cur r))

(** val large_slot : numconst -> str * slot_init **)

let large_slot c =
  (c.nc_name,
    (match emit_num (Zpos XH) c.nc_text with
     | Some e ->
       (match e with
        | EmitC (_, _) -> IBad
        | EmitBase32 t -> IInt (EmitBase32 t))
     | None -> IBad))

(** val layout : numconst list -> (str * slot_init) list **)

let layout cs =
  let s = nc_sort cs in
  app (map (fun c -> (c.nc_name, (IFloat c.nc_code))) (filter is_float s))
    (app (small_slots (Zpos XH) (filter is_small s))
      (map large_slot (filter is_large s)))

(** val resolve_from :
    z -> str -> (str * slot_init) list -> z option -> z option **)

let rec resolve_from i name l acc =
  match l with
  | [] -> acc
  | p :: r ->
    let (n0, _) = p in
    resolve_from (Z.add i (Zpos XH)) name r
      (if zlist_eqb name n0 then Some i else acc)

(** val resolve : str -> (str * slot_init) list -> z option **)

let resolve name l =
  resolve_from Z0 name l None

(** val slot_value : slot_init -> z option **)

let slot_value = function
| IInt e -> decode_emitted e
| _ -> None

(** val pool_consts : pool -> (nkey -> str) -> numconst list **)

let pool_consts p code_of =
  map (fun kn -> { nc_name = (snd kn); nc_text = (fst (fst kn)); nc_type =
    (snd (fst kn)); nc_code = (code_of (fst kn)) }) p.p_index

(** val const_value : pool -> (nkey -> str) -> nkey -> z option **)

let const_value p code_of k =
  match index_find k p.p_index with
  | Some n0 ->
    let l = layout (pool_consts p code_of) in
    (match resolve n0 l with
     | Some i ->
       (match nth_error l (Z.to_nat i) with
        | Some p0 -> let (_, s) = p0 in slot_value s
        | None -> None)
     | None -> None)
  | None -> None
