
(** val xorb : bool -> bool -> bool **)

let xorb b1 b2 =
  if b1 then if b2 then false else true else b2

(** val negb : bool -> bool **)

let negb = function
| true -> false
| false -> true

type nat =
| O
| S of nat

(** val fst : ('a1 * 'a2) -> 'a1 **)

let fst = function
| (x, _) -> x

type comparison =
| Eq
| Lt
| Gt

(** val compOpp : comparison -> comparison **)

let compOpp = function
| Eq -> Eq
| Lt -> Gt
| Gt -> Lt

type positive =
| XI of positive
| XO of positive
| XH

type n =
| N0
| Npos of positive

type z =
| Z0
| Zpos of positive
| Zneg of positive

(** val eqb : bool -> bool -> bool **)

let eqb b1 b2 =
  if b1 then b2 else if b2 then false else true

module Pos =
 struct
  (** val succ : positive -> positive **)

  let rec succ = function
  | XI p -> XO (succ p)
  | XO p -> XI p
  | XH -> XO XH

  (** val add : positive -> positive -> positive **)

  let rec add x y =
    match x with
    | XI p ->
      (match y with
       | XI q -> XO (add_carry p q)
       | XO q -> XI (add p q)
       | XH -> XO (succ p))
    | XO p ->
      (match y with
       | XI q -> XI (add p q)
       | XO q -> XO (add p q)
       | XH -> XI p)
    | XH -> (match y with
             | XI q -> XO (succ q)
             | XO q -> XI q
             | XH -> XO XH)

  (** val add_carry : positive -> positive -> positive **)

  and add_carry x y =
    match x with
    | XI p ->
      (match y with
       | XI q -> XI (add_carry p q)
       | XO q -> XO (add_carry p q)
       | XH -> XI (succ p))
    | XO p ->
      (match y with
       | XI q -> XO (add_carry p q)
       | XO q -> XI (add p q)
       | XH -> XO (succ p))
    | XH ->
      (match y with
       | XI q -> XI (succ q)
       | XO q -> XO (succ q)
       | XH -> XI XH)

  (** val pred_double : positive -> positive **)

  let rec pred_double = function
  | XI p -> XI (XO p)
  | XO p -> XI (pred_double p)
  | XH -> XH

  (** val mul : positive -> positive -> positive **)

  let rec mul x y =
    match x with
    | XI p -> add y (XO (mul p y))
    | XO p -> XO (mul p y)
    | XH -> y

  (** val iter : ('a1 -> 'a1) -> 'a1 -> positive -> 'a1 **)

  let rec iter f0 x = function
  | XI n' -> f0 (iter f0 (iter f0 x n') n')
  | XO n' -> iter f0 (iter f0 x n') n'
  | XH -> f0 x

  (** val div2 : positive -> positive **)

  let div2 = function
  | XI p0 -> p0
  | XO p0 -> p0
  | XH -> XH

  (** val div2_up : positive -> positive **)

  let div2_up = function
  | XI p0 -> succ p0
  | XO p0 -> p0
  | XH -> XH

  (** val compare_cont : comparison -> positive -> positive -> comparison **)

  let rec compare_cont r x y =
    match x with
    | XI p ->
      (match y with
       | XI q -> compare_cont r p q
       | XO q -> compare_cont Gt p q
       | XH -> Gt)
    | XO p ->
      (match y with
       | XI q -> compare_cont Lt p q
       | XO q -> compare_cont r p q
       | XH -> Gt)
    | XH -> (match y with
             | XH -> r
             | _ -> Lt)

  (** val compare : positive -> positive -> comparison **)

  let compare =
    compare_cont Eq
 end

module Z =
 struct
  (** val double : z -> z **)

  let double = function
  | Z0 -> Z0
  | Zpos p -> Zpos (XO p)
  | Zneg p -> Zneg (XO p)

  (** val succ_double : z -> z **)

  let succ_double = function
  | Z0 -> Zpos XH
  | Zpos p -> Zpos (XI p)
  | Zneg p -> Zneg (Pos.pred_double p)

  (** val pred_double : z -> z **)

  let pred_double = function
  | Z0 -> Zneg XH
  | Zpos p -> Zpos (Pos.pred_double p)
  | Zneg p -> Zneg (XI p)

  (** val pos_sub : positive -> positive -> z **)

  let rec pos_sub x y =
    match x with
    | XI p ->
      (match y with
       | XI q -> double (pos_sub p q)
       | XO q -> succ_double (pos_sub p q)
       | XH -> Zpos (XO p))
    | XO p ->
      (match y with
       | XI q -> pred_double (pos_sub p q)
       | XO q -> double (pos_sub p q)
       | XH -> Zpos (Pos.pred_double p))
    | XH ->
      (match y with
       | XI q -> Zneg (XO q)
       | XO q -> Zneg (Pos.pred_double q)
       | XH -> Z0)

  (** val add : z -> z -> z **)

  let add x y =
    match x with
    | Z0 -> y
    | Zpos x' ->
      (match y with
       | Z0 -> x
       | Zpos y' -> Zpos (Pos.add x' y')
       | Zneg y' -> pos_sub x' y')
    | Zneg x' ->
      (match y with
       | Z0 -> x
       | Zpos y' -> pos_sub y' x'
       | Zneg y' -> Zneg (Pos.add x' y'))

  (** val opp : z -> z **)

  let opp = function
  | Z0 -> Z0
  | Zpos x0 -> Zneg x0
  | Zneg x0 -> Zpos x0

  (** val sub : z -> z -> z **)

  let sub m n0 =
    add m (opp n0)

  (** val mul : z -> z -> z **)

  let mul x y =
    match x with
    | Z0 -> Z0
    | Zpos x' ->
      (match y with
       | Z0 -> Z0
       | Zpos y' -> Zpos (Pos.mul x' y')
       | Zneg y' -> Zneg (Pos.mul x' y'))
    | Zneg x' ->
      (match y with
       | Z0 -> Z0
       | Zpos y' -> Zneg (Pos.mul x' y')
       | Zneg y' -> Zpos (Pos.mul x' y'))

  (** val pow_pos : z -> positive -> z **)

  let pow_pos z0 =
    Pos.iter (mul z0) (Zpos XH)

  (** val pow : z -> z -> z **)

  let pow x = function
  | Z0 -> Zpos XH
  | Zpos p -> pow_pos x p
  | Zneg _ -> Z0

  (** val compare : z -> z -> comparison **)

  let compare x y =
    match x with
    | Z0 -> (match y with
             | Z0 -> Eq
             | Zpos _ -> Lt
             | Zneg _ -> Gt)
    | Zpos x' -> (match y with
                  | Zpos y' -> Pos.compare x' y'
                  | _ -> Gt)
    | Zneg x' ->
      (match y with
       | Zneg y' -> compOpp (Pos.compare x' y')
       | _ -> Lt)

  (** val leb : z -> z -> bool **)

  let leb x y =
    match compare x y with
    | Gt -> false
    | _ -> true

  (** val ltb : z -> z -> bool **)

  let ltb x y =
    match compare x y with
    | Lt -> true
    | _ -> false

  (** val max : z -> z -> z **)

  let max n0 m =
    match compare n0 m with
    | Lt -> m
    | _ -> n0

  (** val min : z -> z -> z **)

  let min n0 m =
    match compare n0 m with
    | Gt -> m
    | _ -> n0

  (** val pos_div_eucl : positive -> z -> z * z **)

  let rec pos_div_eucl a b =
    match a with
    | XI a' ->
      let (q, r) = pos_div_eucl a' b in
      let r' = add (mul (Zpos (XO XH)) r) (Zpos XH) in
      if ltb r' b
      then ((mul (Zpos (XO XH)) q), r')
      else ((add (mul (Zpos (XO XH)) q) (Zpos XH)), (sub r' b))
    | XO a' ->
      let (q, r) = pos_div_eucl a' b in
      let r' = mul (Zpos (XO XH)) r in
      if ltb r' b
      then ((mul (Zpos (XO XH)) q), r')
      else ((add (mul (Zpos (XO XH)) q) (Zpos XH)), (sub r' b))
    | XH -> if leb (Zpos (XO XH)) b then (Z0, (Zpos XH)) else ((Zpos XH), Z0)

  (** val div_eucl : z -> z -> z * z **)

  let div_eucl a b =
    match a with
    | Z0 -> (Z0, Z0)
    | Zpos a' ->
      (match b with
       | Z0 -> (Z0, a)
       | Zpos _ -> pos_div_eucl a' b
       | Zneg b' ->
         let (q, r) = pos_div_eucl a' (Zpos b') in
         (match r with
          | Z0 -> ((opp q), Z0)
          | _ -> ((opp (add q (Zpos XH))), (add b r))))
    | Zneg a' ->
      (match b with
       | Z0 -> (Z0, a)
       | Zpos _ ->
         let (q, r) = pos_div_eucl a' b in
         (match r with
          | Z0 -> ((opp q), Z0)
          | _ -> ((opp (add q (Zpos XH))), (sub b r)))
       | Zneg b' -> let (q, r) = pos_div_eucl a' (Zpos b') in (q, (opp r)))

  (** val div : z -> z -> z **)

  let div a b =
    let (q, _) = div_eucl a b in q

  (** val modulo : z -> z -> z **)

  let modulo a b =
    let (_, r) = div_eucl a b in r

  (** val even : z -> bool **)

  let even = function
  | Z0 -> true
  | Zpos p -> (match p with
               | XO _ -> true
               | _ -> false)
  | Zneg p -> (match p with
               | XO _ -> true
               | _ -> false)

  (** val div2 : z -> z **)

  let div2 = function
  | Z0 -> Z0
  | Zpos p -> (match p with
               | XH -> Z0
               | _ -> Zpos (Pos.div2 p))
  | Zneg p -> Zneg (Pos.div2_up p)

  (** val shiftl : z -> z -> z **)

  let shiftl a = function
  | Z0 -> a
  | Zpos p -> Pos.iter (mul (Zpos (XO XH))) a p
  | Zneg p -> Pos.iter div2 a p
 end

(** val zeq_bool : z -> z -> bool **)

let zeq_bool x y =
  match Z.compare x y with
  | Eq -> true
  | _ -> false

(** val shift_pos : positive -> positive -> positive **)

let shift_pos n0 z0 =
  Pos.iter (fun x -> XO x) z0 n0

type spec_float =
| S754_zero of bool
| S754_infinity of bool
| S754_nan
| S754_finite of bool * positive * z

(** val emin : z -> z -> z **)

let emin prec emax =
  Z.sub (Z.sub (Zpos (XI XH)) emax) prec

(** val fexp : z -> z -> z -> z **)

let fexp prec emax e =
  Z.max (Z.sub e prec) (emin prec emax)

(** val digits2_pos : positive -> positive **)

let rec digits2_pos = function
| XI p -> Pos.succ (digits2_pos p)
| XO p -> Pos.succ (digits2_pos p)
| XH -> XH

(** val zdigits2 : z -> z **)

let zdigits2 n0 = match n0 with
| Z0 -> n0
| Zpos p -> Zpos (digits2_pos p)
| Zneg p -> Zpos (digits2_pos p)

(** val canonical_mantissa : z -> z -> positive -> z -> bool **)

let canonical_mantissa prec emax m e =
  zeq_bool (fexp prec emax (Z.add (Zpos (digits2_pos m)) e)) e

(** val bounded : z -> z -> positive -> z -> bool **)

let bounded prec emax m e =
  (&&) (canonical_mantissa prec emax m e) (Z.leb e (Z.sub emax prec))

(** val valid_binary : z -> z -> spec_float -> bool **)

let valid_binary prec emax = function
| S754_finite (_, m, e) -> bounded prec emax m e
| _ -> true

(** val iter_pos : ('a1 -> 'a1) -> positive -> 'a1 -> 'a1 **)

let rec iter_pos f0 n0 x =
  match n0 with
  | XI n' -> iter_pos f0 n' (iter_pos f0 n' (f0 x))
  | XO n' -> iter_pos f0 n' (iter_pos f0 n' x)
  | XH -> f0 x

type location =
| Loc_Exact
| Loc_Inexact of comparison

type shr_record = { shr_m : z; shr_r : bool; shr_s : bool }

(** val shr_1 : shr_record -> shr_record **)

let shr_1 mrs =
  let { shr_m = m; shr_r = r; shr_s = s } = mrs in
  let s0 = (||) r s in
  (match m with
   | Z0 -> { shr_m = Z0; shr_r = false; shr_s = s0 }
   | Zpos p0 ->
     (match p0 with
      | XI p -> { shr_m = (Zpos p); shr_r = true; shr_s = s0 }
      | XO p -> { shr_m = (Zpos p); shr_r = false; shr_s = s0 }
      | XH -> { shr_m = Z0; shr_r = true; shr_s = s0 })
   | Zneg p0 ->
     (match p0 with
      | XI p -> { shr_m = (Zneg p); shr_r = true; shr_s = s0 }
      | XO p -> { shr_m = (Zneg p); shr_r = false; shr_s = s0 }
      | XH -> { shr_m = Z0; shr_r = true; shr_s = s0 }))

(** val loc_of_shr_record : shr_record -> location **)

let loc_of_shr_record mrs =
  let { shr_m = _; shr_r = shr_r0; shr_s = shr_s0 } = mrs in
  if shr_r0
  then if shr_s0 then Loc_Inexact Gt else Loc_Inexact Eq
  else if shr_s0 then Loc_Inexact Lt else Loc_Exact

(** val shr_record_of_loc : z -> location -> shr_record **)

let shr_record_of_loc m = function
| Loc_Exact -> { shr_m = m; shr_r = false; shr_s = false }
| Loc_Inexact c ->
  (match c with
   | Eq -> { shr_m = m; shr_r = true; shr_s = false }
   | Lt -> { shr_m = m; shr_r = false; shr_s = true }
   | Gt -> { shr_m = m; shr_r = true; shr_s = true })

(** val shr : shr_record -> z -> z -> shr_record * z **)

let shr mrs e n0 = match n0 with
| Zpos p -> ((iter_pos shr_1 p mrs), (Z.add e n0))
| _ -> (mrs, e)

(** val shr_fexp : z -> z -> z -> z -> location -> shr_record * z **)

let shr_fexp prec emax m e l =
  shr (shr_record_of_loc m l) e
    (Z.sub (fexp prec emax (Z.add (zdigits2 m) e)) e)

(** val round_nearest_even : z -> location -> z **)

let round_nearest_even mx = function
| Loc_Exact -> mx
| Loc_Inexact c ->
  (match c with
   | Eq -> if Z.even mx then mx else Z.add mx (Zpos XH)
   | Lt -> mx
   | Gt -> Z.add mx (Zpos XH))

(** val binary_round_aux :
    z -> z -> bool -> z -> z -> location -> spec_float **)

let binary_round_aux prec emax sx mx ex lx =
  let (mrs', e') = shr_fexp prec emax mx ex lx in
  let (mrs'', e'') =
    shr_fexp prec emax
      (round_nearest_even mrs'.shr_m (loc_of_shr_record mrs')) e' Loc_Exact
  in
  (match mrs''.shr_m with
   | Z0 -> S754_zero sx
   | Zpos m ->
     if Z.leb e'' (Z.sub emax prec)
     then S754_finite (sx, m, e'')
     else S754_infinity sx
   | Zneg _ -> S754_nan)

(** val shl_align : positive -> z -> z -> positive * z **)

let shl_align mx ex ex' =
  match Z.sub ex' ex with
  | Zneg d -> ((shift_pos d mx), ex')
  | _ -> (mx, ex)

(** val binary_round : z -> z -> bool -> positive -> z -> spec_float **)

let binary_round prec emax sx mx ex =
  let (mz, ez) =
    shl_align mx ex (fexp prec emax (Z.add (Zpos (digits2_pos mx)) ex))
  in
  binary_round_aux prec emax sx (Zpos mz) ez Loc_Exact

(** val binary_normalize : z -> z -> z -> z -> bool -> spec_float **)

let binary_normalize prec emax m e szero =
  match m with
  | Z0 -> S754_zero szero
  | Zpos m0 -> binary_round prec emax false m0 e
  | Zneg m0 -> binary_round prec emax true m0 e

(** val sFcompare : spec_float -> spec_float -> comparison option **)

let sFcompare f1 f2 =
  match f1 with
  | S754_zero _ ->
    (match f2 with
     | S754_zero _ -> Some Eq
     | S754_infinity s -> Some (if s then Gt else Lt)
     | S754_nan -> None
     | S754_finite (s, _, _) -> Some (if s then Gt else Lt))
  | S754_infinity s ->
    (match f2 with
     | S754_infinity s0 ->
       Some (if s then if s0 then Eq else Lt else if s0 then Gt else Eq)
     | S754_nan -> None
     | _ -> Some (if s then Lt else Gt))
  | S754_nan -> None
  | S754_finite (s1, m1, e1) ->
    (match f2 with
     | S754_zero _ -> Some (if s1 then Lt else Gt)
     | S754_infinity s -> Some (if s then Gt else Lt)
     | S754_nan -> None
     | S754_finite (s2, m2, e2) ->
       Some
         (if s1
          then if s2
               then (match Z.compare e1 e2 with
                     | Eq -> compOpp (Pos.compare_cont Eq m1 m2)
                     | Lt -> Gt
                     | Gt -> Lt)
               else Lt
          else if s2
               then Gt
               else (match Z.compare e1 e2 with
                     | Eq -> Pos.compare_cont Eq m1 m2
                     | x -> x)))

(** val sFeqb : spec_float -> spec_float -> bool **)

let sFeqb f1 f2 =
  match sFcompare f1 f2 with
  | Some c -> (match c with
               | Eq -> true
               | _ -> false)
  | None -> false

(** val sFltb : spec_float -> spec_float -> bool **)

let sFltb f1 f2 =
  match sFcompare f1 f2 with
  | Some c -> (match c with
               | Lt -> true
               | _ -> false)
  | None -> false

(** val sFleb : spec_float -> spec_float -> bool **)

let sFleb f1 f2 =
  match sFcompare f1 f2 with
  | Some c -> (match c with
               | Gt -> false
               | _ -> true)
  | None -> false

(** val sFmul : z -> z -> spec_float -> spec_float -> spec_float **)

let sFmul prec emax x y =
  match x with
  | S754_zero sx ->
    (match y with
     | S754_zero sy -> S754_zero (xorb sx sy)
     | S754_finite (sy, _, _) -> S754_zero (xorb sx sy)
     | _ -> S754_nan)
  | S754_infinity sx ->
    (match y with
     | S754_infinity sy -> S754_infinity (xorb sx sy)
     | S754_finite (sy, _, _) -> S754_infinity (xorb sx sy)
     | _ -> S754_nan)
  | S754_nan -> S754_nan
  | S754_finite (sx, mx, ex) ->
    (match y with
     | S754_zero sy -> S754_zero (xorb sx sy)
     | S754_infinity sy -> S754_infinity (xorb sx sy)
     | S754_nan -> S754_nan
     | S754_finite (sy, my, ey) ->
       binary_round_aux prec emax (xorb sx sy) (Zpos (Pos.mul mx my))
         (Z.add ex ey) Loc_Exact)

(** val cond_Zopp : bool -> z -> z **)

let cond_Zopp b m =
  if b then Z.opp m else m

(** val sFadd : z -> z -> spec_float -> spec_float -> spec_float **)

let sFadd prec emax x y =
  match x with
  | S754_zero sx ->
    (match y with
     | S754_zero sy -> if eqb sx sy then x else S754_zero false
     | S754_nan -> S754_nan
     | _ -> y)
  | S754_infinity sx ->
    (match y with
     | S754_infinity sy -> if eqb sx sy then x else S754_nan
     | S754_nan -> S754_nan
     | _ -> x)
  | S754_nan -> S754_nan
  | S754_finite (sx, mx, ex) ->
    (match y with
     | S754_zero _ -> x
     | S754_infinity _ -> y
     | S754_nan -> S754_nan
     | S754_finite (sy, my, ey) ->
       let ez = Z.min ex ey in
       binary_normalize prec emax
         (Z.add (cond_Zopp sx (Zpos (fst (shl_align mx ex ez))))
           (cond_Zopp sy (Zpos (fst (shl_align my ey ez))))) ez false)

(** val sFsub : z -> z -> spec_float -> spec_float -> spec_float **)

let sFsub prec emax x y =
  match x with
  | S754_zero sx ->
    (match y with
     | S754_zero sy -> if eqb sx (negb sy) then x else S754_zero false
     | S754_infinity sy -> S754_infinity (negb sy)
     | S754_nan -> S754_nan
     | S754_finite (sy, my, ey) -> S754_finite ((negb sy), my, ey))
  | S754_infinity sx ->
    (match y with
     | S754_infinity sy -> if eqb sx (negb sy) then x else S754_nan
     | S754_nan -> S754_nan
     | _ -> x)
  | S754_nan -> S754_nan
  | S754_finite (sx, mx, ex) ->
    (match y with
     | S754_zero _ -> x
     | S754_infinity sy -> S754_infinity (negb sy)
     | S754_nan -> S754_nan
     | S754_finite (sy, my, ey) ->
       let ez = Z.min ex ey in
       binary_normalize prec emax
         (Z.sub (cond_Zopp sx (Zpos (fst (shl_align mx ex ez))))
           (cond_Zopp sy (Zpos (fst (shl_align my ey ez))))) ez false)

(** val new_location_even : z -> z -> location **)

let new_location_even nb_steps k =
  if zeq_bool k Z0
  then Loc_Exact
  else Loc_Inexact (Z.compare (Z.mul (Zpos (XO XH)) k) nb_steps)

(** val new_location_odd : z -> z -> location **)

let new_location_odd nb_steps k =
  if zeq_bool k Z0
  then Loc_Exact
  else Loc_Inexact
         (match Z.compare (Z.add (Z.mul (Zpos (XO XH)) k) (Zpos XH)) nb_steps with
          | Eq -> Lt
          | x -> x)

(** val new_location : z -> z -> location **)

let new_location nb_steps =
  if Z.even nb_steps
  then new_location_even nb_steps
  else new_location_odd nb_steps

(** val sFdiv_core_binary :
    z -> z -> z -> z -> z -> z -> (z * z) * location **)

let sFdiv_core_binary prec emax m1 e1 m2 e2 =
  let d1 = zdigits2 m1 in
  let d2 = zdigits2 m2 in
  let e' =
    Z.min (fexp prec emax (Z.sub (Z.add d1 e1) (Z.add d2 e2))) (Z.sub e1 e2)
  in
  let s = Z.sub (Z.sub e1 e2) e' in
  let m' = match s with
           | Z0 -> m1
           | Zpos _ -> Z.shiftl m1 s
           | Zneg _ -> Z0 in
  let (q, r) = Z.div_eucl m' m2 in ((q, e'), (new_location m2 r))

(** val sFdiv : z -> z -> spec_float -> spec_float -> spec_float **)

let sFdiv prec emax x y =
  match x with
  | S754_zero sx ->
    (match y with
     | S754_infinity sy -> S754_zero (xorb sx sy)
     | S754_finite (sy, _, _) -> S754_zero (xorb sx sy)
     | _ -> S754_nan)
  | S754_infinity sx ->
    (match y with
     | S754_zero sy -> S754_infinity (xorb sx sy)
     | S754_finite (sy, _, _) -> S754_infinity (xorb sx sy)
     | _ -> S754_nan)
  | S754_nan -> S754_nan
  | S754_finite (sx, mx, ex) ->
    (match y with
     | S754_zero sy -> S754_infinity (xorb sx sy)
     | S754_infinity sy -> S754_zero (xorb sx sy)
     | S754_nan -> S754_nan
     | S754_finite (sy, my, ey) ->
       let (p, lz) = sFdiv_core_binary prec emax (Zpos mx) ex (Zpos my) ey in
       let (mz, ez) = p in binary_round_aux prec emax (xorb sx sy) mz ez lz)

(** val ex_keep :
    (((((nat * n) * z) * z list) * z option) * positive) * bool **)

let ex_keep =
  ((((((O, N0), Z0), []), None), XH), true)

type f = spec_float

(** val dprec : z **)

let dprec =
  Zpos (XI (XO (XI (XO (XI XH)))))

(** val demax : z **)

let demax =
  Zpos (XO (XO (XO (XO (XO (XO (XO (XO (XO (XO XH))))))))))

(** val fadd : f -> f -> f **)

let fadd =
  sFadd dprec demax

(** val fsub : f -> f -> f **)

let fsub =
  sFsub dprec demax

(** val fmul : f -> f -> f **)

let fmul =
  sFmul dprec demax

(** val fdiv : f -> f -> f **)

let fdiv =
  sFdiv dprec demax

(** val feqb : f -> f -> bool **)

let feqb =
  sFeqb

(** val fltb : f -> f -> bool **)

let fltb =
  sFltb

(** val fleb : f -> f -> bool **)

let fleb =
  sFleb

(** val fvalid : f -> bool **)

let fvalid =
  valid_binary dprec demax

(** val fzero : f **)

let fzero =
  S754_zero false

(** val fone : f **)

let fone =
  S754_finite (false, (XO (XO (XO (XO (XO (XO (XO (XO (XO (XO (XO (XO (XO (XO
    (XO (XO (XO (XO (XO (XO (XO (XO (XO (XO (XO (XO (XO (XO (XO (XO (XO (XO
    (XO (XO (XO (XO (XO (XO (XO (XO (XO (XO (XO (XO (XO (XO (XO (XO (XO (XO
    (XO (XO XH)))))))))))))))))))))))))))))))))))))))))))))))))))), (Zneg (XO
    (XO (XI (XO (XI XH)))))))

(** val fhalf : f **)

let fhalf =
  S754_finite (false, (XO (XO (XO (XO (XO (XO (XO (XO (XO (XO (XO (XO (XO (XO
    (XO (XO (XO (XO (XO (XO (XO (XO (XO (XO (XO (XO (XO (XO (XO (XO (XO (XO
    (XO (XO (XO (XO (XO (XO (XO (XO (XO (XO (XO (XO (XO (XO (XO (XO (XO (XO
    (XO (XO XH)))))))))))))))))))))))))))))))))))))))))))))))))))), (Zneg (XI
    (XO (XI (XO (XI XH)))))))

(** val fnonzero : f -> bool **)

let fnonzero x =
  negb (feqb x fzero)

(** val fneg : f -> bool **)

let fneg x =
  fltb x fzero

(** val fgtb : f -> f -> bool **)

let fgtb x y =
  fltb y x

(** val f_of_bool : bool -> f **)

let f_of_bool = function
| true -> fone
| false -> fzero

(** val fsign : f -> bool **)

let fsign = function
| S754_zero s -> s
| S754_infinity s -> s
| S754_nan -> false
| S754_finite (s, _, _) -> s

(** val fcopysign : f -> f -> f **)

let fcopysign x y =
  match x with
  | S754_zero _ -> S754_zero (fsign y)
  | S754_infinity _ -> S754_infinity (fsign y)
  | S754_nan -> S754_nan
  | S754_finite (_, m, e) -> S754_finite ((fsign y), m, e)

(** val fmod_exact : f -> f -> f **)

let fmod_exact x y =
  match x with
  | S754_zero _ ->
    (match y with
     | S754_zero _ -> S754_nan
     | S754_nan -> S754_nan
     | _ -> x)
  | S754_finite (sx, mx, ex) ->
    (match y with
     | S754_infinity _ -> x
     | S754_finite (_, my, ey) ->
       let e = Z.min ex ey in
       let a = Z.mul (Zpos mx) (Z.pow (Zpos (XO XH)) (Z.sub ex e)) in
       let b = Z.mul (Zpos my) (Z.pow (Zpos (XO XH)) (Z.sub ey e)) in
       binary_normalize dprec demax (cond_Zopp sx (Z.modulo a b)) e sx
     | _ -> S754_nan)
  | _ -> S754_nan

(** val floor_exact : f -> f **)

let floor_exact x = match x with
| S754_finite (s, m, e) ->
  if Z.leb Z0 e
  then x
  else binary_normalize dprec demax
         (Z.div (cond_Zopp s (Zpos m)) (Z.pow (Zpos (XO XH)) (Z.opp e))) Z0 s
| _ -> x

type fres =
| FVal of f
| FZeroDiv

(** val mod_float_old : (f -> f -> f) -> f -> f -> f **)

let mod_float_old fmod a b =
  let r = fmod a b in
  fadd r (fmul (f_of_bool ((&&) (fnonzero r) (xorb (fneg r) (fneg b)))) b)

(** val mod_float_new : (f -> f -> f) -> f -> f -> f **)

let mod_float_new fmod a b =
  let r = fmod a b in
  if fnonzero r
  then if xorb (fneg r) (fneg b) then fadd r b else r
  else fcopysign fzero b

(** val mod_float : (f -> f -> f) -> bool -> f -> f -> f **)

let mod_float fmod = function
| true -> mod_float_new fmod
| false -> mod_float_old fmod

(** val mod_node : (f -> f -> f) -> bool -> f -> f -> fres **)

let mod_node fmod fixed a b =
  if feqb b fzero then FZeroDiv else FVal (mod_float fmod fixed a b)

(** val py_float_rem : (f -> f -> f) -> f -> f -> fres **)

let py_float_rem fmod a b =
  if feqb b fzero
  then FZeroDiv
  else let m = fmod a b in
       FVal
       (if fnonzero m
        then if negb (eqb (fneg b) (fneg m)) then fadd m b else m
        else fcopysign fzero b)

(** val floordiv_old : (f -> f) -> f -> f -> f **)

let floordiv_old ffloor a b =
  ffloor (fdiv a b)

(** val py_floor_div_val : (f -> f -> f) -> (f -> f) -> f -> f -> f **)

let py_floor_div_val fmod ffloor a b =
  let m = fmod a b in
  let d = fdiv (fsub a m) b in
  let d0 =
    if (&&) (fnonzero m) (negb (eqb (fneg b) (fneg m)))
    then fsub d fone
    else d
  in
  if fnonzero d0
  then let fl = ffloor d0 in
       if fgtb (fsub d0 fl) fhalf then fadd fl fone else fl
  else fcopysign fzero (fdiv a b)

(** val floordiv_new : (f -> f -> f) -> (f -> f) -> f -> f -> f **)

let floordiv_new =
  py_floor_div_val

(** val floordiv : (f -> f -> f) -> (f -> f) -> bool -> f -> f -> f **)

let floordiv fmod ffloor = function
| true -> floordiv_new fmod ffloor
| false -> floordiv_old ffloor

(** val floordiv_node :
    (f -> f -> f) -> (f -> f) -> bool -> f -> f -> fres **)

let floordiv_node fmod ffloor fixed a b =
  if feqb b fzero then FZeroDiv else FVal (floordiv fmod ffloor fixed a b)

(** val py_float_floor_div : (f -> f -> f) -> (f -> f) -> f -> f -> fres **)

let py_float_floor_div fmod ffloor a b =
  if feqb b fzero then FZeroDiv else FVal (py_floor_div_val fmod ffloor a b)

(** val truediv_node : f -> f -> fres **)

let truediv_node a b =
  if feqb b fzero then FZeroDiv else FVal (fdiv a b)

(** val mod_node_x : bool -> f -> f -> fres **)

let mod_node_x fixed =
  mod_node fmod_exact fixed

(** val py_float_rem_x : f -> f -> fres **)

let py_float_rem_x =
  py_float_rem fmod_exact

(** val floordiv_node_x : bool -> f -> f -> fres **)

let floordiv_node_x fixed =
  floordiv_node fmod_exact floor_exact fixed

(** val py_float_floor_div_x : f -> f -> fres **)

let py_float_floor_div_x =
  py_float_floor_div fmod_exact floor_exact
