
val negb : bool -> bool

type nat =
| O
| S of nat

val fst : ('a1 * 'a2) -> 'a1

val snd : ('a1 * 'a2) -> 'a2

val length : 'a1 list -> nat

val app : 'a1 list -> 'a1 list -> 'a1 list

type comparison =
| Eq
| Lt
| Gt

type positive =
| XI of positive
| XO of positive
| XH

type n =
| N0
| Npos of positive

type z =
| Z0
| Zpos of positive
| Zneg of positive

module Nat :
 sig
  val leb : nat -> nat -> bool
 end

module Pos :
 sig
  val compare_cont : comparison -> positive -> positive -> comparison

  val compare : positive -> positive -> comparison

  val eqb : positive -> positive -> bool
 end

module N :
 sig
  val compare : n -> n -> comparison

  val eqb : n -> n -> bool

  val ltb : n -> n -> bool
 end

module Z :
 sig
  val eqb : z -> z -> bool
 end

val nth_error : 'a1 list -> nat -> 'a1 option

val map : ('a1 -> 'a2) -> 'a1 list -> 'a2 list

val flat_map : ('a1 -> 'a2 list) -> 'a1 list -> 'a2 list

val fold_left : ('a1 -> 'a2 -> 'a1) -> 'a2 list -> 'a1 -> 'a1

val existsb : ('a1 -> bool) -> 'a1 list -> bool

val filter : ('a1 -> bool) -> 'a1 list -> 'a1 list

val combine : 'a1 list -> 'a2 list -> ('a1 * 'a2) list

val ex_keep : (((((nat * n) * z) * z list) * z option) * positive) * bool

type name = n list

val name_leb : name -> name -> bool

val name_eqb : name -> name -> bool

val dict_name : name

val weakref_name : name

type kind =
| KObj
| KC of bool * bool * bool

type member = { m_name : name; m_kind : kind }

type cls = { c_id : n; c_members : member list; c_cinit : bool;
             c_reduce : bool; c_getstate : bool; c_setstate : bool;
             c_auto : bool option }

type hierarchy = cls list

type modenv = { g_cinit : bool; g_reduce : bool }

type flags = { fx_lookup : bool; fx_ptr : bool; fx_pad : bool }

val special : name -> bool

val own_members : cls -> member list

val gather : hierarchy -> member list

val insert_m : member -> member list -> member list

val sort_m : member list -> member list

val all_members : hierarchy -> member list

val all_names : hierarchy -> name list

type reason =
| RCinit
| RNonPy
| RStruct

type decision =
| NoInject
| InjectRaise of reason * name list
| InjectPickle of member list

val is_obj : kind -> bool

val non_py : flags -> kind -> bool

val is_struct : kind -> bool

val head_auto : hierarchy -> bool option

val decide_on : flags -> modenv -> hierarchy -> decision

val reduce_in_scope : flags -> modenv -> hierarchy -> bool

val decide : flags -> modenv -> hierarchy -> decision

val compile_error : flags -> modenv -> hierarchy -> bool

type wstate = { w_members : member list; w_cinit : bool; w_reduce : bool }

type scope_sel = cls -> cls -> cls

val sel_cls : scope_sel

val sel_node : scope_sel

val walk_step : scope_sel -> scope_sel -> cls -> wstate -> cls -> wstate

val walk : scope_sel -> scope_sel -> cls -> hierarchy -> wstate

val decide_core : flags -> bool -> bool -> member list -> decision

val decide_walk :
  scope_sel -> scope_sel -> flags -> modenv -> hierarchy -> decision

val decide_walk_n : nat -> flags -> modenv -> hierarchy -> decision

val installed : hierarchy -> bool

type rmethod =
| RDefault
| RUser
| RRaise of reason * name list
| RPickle of hierarchy

val effective_reduce : flags -> modenv -> hierarchy -> rmethod

type smethod =
| SNone
| SUser
| SRaise
| SSet of hierarchy

val effective_setstate : flags -> modenv -> hierarchy -> smethod

val pad3 : flags -> z list -> z list option

type 'atom pv =
| PNone
| PAtom of 'atom
| PDict of ('atom * 'atom) list

type ('atom, 'cv) sval =
| SObj of 'atom pv
| SC of 'cv
| SDangling

type pytype = { t_hier : hierarchy; t_pydict : bool }

val has_dict : pytype -> bool

type ('atom, 'cv) obj = { o_type : pytype;
                          o_slots : (name * ('atom, 'cv) sval) list;
                          o_dict : ('atom * 'atom) list option }

val get : (name * ('a1, 'a2) sval) list -> name -> ('a1, 'a2) sval option

val set_slot : ('a1, 'a2) obj -> name -> ('a1, 'a2) sval -> ('a1, 'a2) obj

val default_of : 'a2 -> kind -> ('a1, 'a2) sval

val new_obj : 'a2 -> pytype -> ('a1, 'a2) obj

type err =
| EType of reason * name list
| EPickle
| EIndex
| EConv of name
| ENoDict
| EDictUpdate
| EAttr of name
| EUB
| EOther

type 'a res =
| Ok of 'a
| Err of err

val accepted :
  (nat -> name list -> z) -> nat list -> flags -> name list -> z list option

val item_of : (kind -> 'a2 -> 'a1) -> member -> ('a1, 'a2) sval -> 'a1 pv

val read_state :
  (kind -> 'a2 -> 'a1) -> member list -> ('a1, 'a2) obj -> 'a1 pv list res

val not_none : 'a1 pv -> bool

val any_notnone : member list -> 'a1 pv list -> bool

type 'atom rvalue = { rv_owner : hierarchy; rv_type : pytype; rv_chk : 
                      z; rv_arg_state : 'atom pv list option;
                      rv_state : 'atom pv list option }

val reduce_cython :
  (kind -> 'a2 -> 'a1) -> (nat -> name list -> z) -> hierarchy -> ('a1, 'a2)
  obj -> 'a1 rvalue res

val reduce :
  (kind -> 'a2 -> 'a1) -> (nat -> name list -> z) -> flags -> modenv -> ('a1,
  'a2) obj -> 'a1 rvalue res

val conv_in :
  (kind -> 'a1 -> 'a2 option) -> member -> 'a1 pv -> ('a1, 'a2) sval option

val assign :
  (kind -> 'a1 -> 'a2 option) -> member list -> nat -> 'a1 pv list -> ('a1,
  'a2) obj -> ('a1, 'a2) obj res

val truthy : ('a1 -> bool) -> 'a1 pv -> bool

val dict_has : ('a1 * 'a1) list -> ('a1 -> 'a1 -> bool) -> 'a1 -> bool

val dict_update :
  ('a1 -> 'a1 -> bool) -> ('a1 * 'a1) list -> ('a1 * 'a1) list -> ('a1 * 'a1)
  list

val update_dict :
  ('a1 -> bool) -> ('a1 -> 'a1 -> bool) -> ('a1, 'a2) obj -> 'a1 pv list ->
  nat -> ('a1, 'a2) obj res

val set_state :
  (kind -> 'a1 -> 'a2 option) -> ('a1 -> bool) -> ('a1 -> 'a1 -> bool) ->
  hierarchy -> ('a1, 'a2) obj -> 'a1 pv list -> ('a1, 'a2) obj res

val unpickle :
  (kind -> 'a1 -> 'a2 option) -> 'a2 -> ('a1 -> bool) -> (nat -> name list ->
  z) -> ('a1 -> 'a1 -> bool) -> nat list -> flags -> hierarchy -> pytype -> z
  -> 'a1 pv list option -> ('a1, 'a2) obj res

val load :
  (kind -> 'a1 -> 'a2 option) -> 'a2 -> ('a1 -> bool) -> (nat -> name list ->
  z) -> ('a1 -> 'a1 -> bool) -> nat list -> flags -> modenv -> 'a1 rvalue ->
  ('a1, 'a2) obj res

val load_into :
  (kind -> 'a1 -> 'a2 option) -> 'a2 -> ('a1 -> bool) -> (nat -> name list ->
  z) -> ('a1 -> 'a1 -> bool) -> nat list -> flags -> modenv -> hierarchy ->
  pytype -> 'a1 rvalue -> ('a1, 'a2) obj res
