
val negb : bool -> bool

type nat =
| O
| S of nat

val fst : ('a1 * 'a2) -> 'a1

val snd : ('a1 * 'a2) -> 'a2

val length : 'a1 list -> nat

val app : 'a1 list -> 'a1 list -> 'a1 list

type comparison =
| Eq
| Lt
| Gt

val compOpp : comparison -> comparison

val add : nat -> nat -> nat

val sub : nat -> nat -> nat

type positive =
| XI of positive
| XO of positive
| XH

type n =
| N0
| Npos of positive

type z =
| Z0
| Zpos of positive
| Zneg of positive

module Nat :
 sig
  val eqb : nat -> nat -> bool

  val leb : nat -> nat -> bool

  val ltb : nat -> nat -> bool

  val div2 : nat -> nat
 end

module Pos :
 sig
  val succ : positive -> positive

  val add : positive -> positive -> positive

  val add_carry : positive -> positive -> positive

  val pred_double : positive -> positive

  val compare_cont : comparison -> positive -> positive -> comparison

  val compare : positive -> positive -> comparison

  val eqb : positive -> positive -> bool
 end

module Z :
 sig
  val double : z -> z

  val succ_double : z -> z

  val pred_double : z -> z

  val pos_sub : positive -> positive -> z

  val add : z -> z -> z

  val compare : z -> z -> comparison

  val leb : z -> z -> bool

  val ltb : z -> z -> bool

  val eqb : z -> z -> bool
 end

val hd_error : 'a1 list -> 'a1 option

val nth : nat -> 'a1 list -> 'a1 -> 'a1

val nth_error : 'a1 list -> nat -> 'a1 option

val rev : 'a1 list -> 'a1 list

val map : ('a1 -> 'a2) -> 'a1 list -> 'a2 list

val flat_map : ('a1 -> 'a2 list) -> 'a1 list -> 'a2 list

val fold_left : ('a1 -> 'a2 -> 'a1) -> 'a2 list -> 'a1 -> 'a1

val fold_right : ('a2 -> 'a1 -> 'a1) -> 'a1 -> 'a2 list -> 'a1

val existsb : ('a1 -> bool) -> 'a1 list -> bool

val forallb : ('a1 -> bool) -> 'a1 list -> bool

val filter : ('a1 -> bool) -> 'a1 list -> 'a1 list

val find : ('a1 -> bool) -> 'a1 list -> 'a1 option

val combine : 'a1 list -> 'a2 list -> ('a1 * 'a2) list

val firstn : nat -> 'a1 list -> 'a1 list

val skipn : nat -> 'a1 list -> 'a1 list

val ex_keep : (((((nat * n) * z) * z list) * z option) * positive) * bool

type builtin =
| BBytes
| BStr
| BList
| BDict
| BTuple
| BSet

type num =
| NInt of z * z
| NBint
| NFloat of z
| NComplex of z

type cmode =
| MStrided
| MCContig
| MFContig

type ctype =
| TNum of num
| TObject
| TBuiltin of builtin
| TExt of nat
| TMem of num * nat * cmode

val builtin_eqb : builtin -> builtin -> bool

val num_eqb : num -> num -> bool

val cmode_eqb : cmode -> cmode -> bool

val ctype_eqb : ctype -> ctype -> bool

val rank_of : num -> z

val sgn_of : num -> z

val num_lt : num -> num -> bool

type tclass =
| KInt
| KBint
| KFloat
| KComplex
| KObject
| KBuiltin
| KExt
| KMem

val class_of : ctype -> tclass

val ty_lt : (tclass -> bool) -> ctype -> ctype -> bool

val bsearch :
  ('a1 -> 'a1 -> bool) -> nat -> 'a1 -> 'a1 list -> nat -> nat -> nat

val binsert : ('a1 -> 'a1 -> bool) -> 'a1 list -> 'a1 -> 'a1 list

val take_desc : ('a1 -> 'a1 -> bool) -> 'a1 -> 'a1 list -> 'a1 list * 'a1 list

val take_asc : ('a1 -> 'a1 -> bool) -> 'a1 -> 'a1 list -> 'a1 list * 'a1 list

val count_run : ('a1 -> 'a1 -> bool) -> 'a1 list -> 'a1 list * 'a1 list

val pysort : ('a1 -> 'a1 -> bool) -> 'a1 list -> 'a1 list

type pyname =
| PInt
| PBool
| PFloat
| PComplex
| PObject
| PB of builtin
| PExt of nat

val pyname_eqb : pyname -> pyname -> bool

val py_type_name : ctype -> pyname option

type split = { normal : ctype list; buffers : ctype list; has_obj : bool }

val split_go : pyname list -> ctype list -> split -> split

val split_fused : ctype list -> split

type dkind =
| DKInt
| DKUInt
| DKFloat
| DKComplex

type bsrc =
| SNd
| SCyMvNd
| SPlain

type buf = { b_src : bsrc; b_kind : dkind; b_size : z; b_ndim : nat;
             b_cc : bool; b_fc : bool }

type atag =
| AInt
| ABool
| AFloat
| AComplex
| ANone
| ANpFloat64
| ANpComplex128
| ANpInt64
| ABuiltin of builtin
| AInst of nat list
| AOther
| ABuf of buf

val isinstance : atag -> pyname -> bool

val inst_of : atag -> ctype -> bool

val sizeof : num -> z

val kind_match : num -> dkind -> bool

val contig_ok : cmode -> buf -> bool

val coerce_ok : ctype -> buf -> bool

val fast_ok : ctype -> buf -> bool

val has_dtype : buf -> bool

val buffer_checks : bool -> ctype list -> atag -> ctype option

val map_fused : bool -> (tclass -> bool) -> ctype list -> atag -> ctype option

type ftype = { members : ctype list; fpos : nat }

type decl = { ftypes : ftype list; params : nat list }

type dres =
| Spec of ctype list
| NoMatch
| Ambiguous
| BadCall

val all_sigs : ctype list list -> ctype list list

val sig_match : ctype list -> ctype option list -> bool

val dests :
  bool -> (tclass -> bool) -> decl -> atag list -> ctype option list option

val dispatch_cy : bool -> (tclass -> bool) -> decl -> atag list -> dres

type cres =
| COk
| CTypeError
| CValueError

val conv : ctype -> atag -> cres

type outcome =
| Ran of ctype list
| TypeErr
| ValueErr
| BadArgs

val conv_all : ctype list -> nat list -> atag list -> cres

val call_cy : bool -> (tclass -> bool) -> decl -> atag list -> outcome

val exact : atag -> ctype -> bool

val subinst : atag -> ctype -> bool

val is_numeric : ctype -> bool

val trank : ctype -> z

val biggest : ctype list -> ctype option

val doc_choice : ctype list -> atag -> ctype option

val doc_sig : ftype list -> atag list -> ctype list option

val doc_call : decl -> atag list -> outcome

type ires =
| IFound of ctype list
| IKeyError

val getitem :
  ('a1 -> 'a1 -> bool) -> (ctype -> 'a1) -> ctype list list -> 'a1 list ->
  ires

type pkind =
| KPosOnly
| KPosKw
| KKwOnly

val is_kwonly : pkind -> bool

val is_posonly : pkind -> bool

type plan = { pl_ft : nat; pl_idx : nat; pl_name : nat; pl_kind : pkind;
              pl_def : nat option }

type 'v param = { p_name : nat; p_kind : pkind; p_fused : nat option;
                  p_default : 'v option }

type 'v fsig = { s_params : 'v param list; s_star : bool; s_kw : bool }

val has_default : 'a1 param -> bool

val defaults_tuple : 'a1 param list -> 'a1 list

val plans_from : bool -> 'a1 param list -> nat -> nat -> nat list -> plan list

val plans : bool -> 'a1 fsig -> plan list

val lookup : nat -> (nat * 'a1) list -> 'a1 option

type 'v fetched =
| FVal of 'v
| FMissing
| FBadIndex

val run_plan :
  bool -> plan -> 'a1 list -> (nat * 'a1) list -> 'a1 list -> 'a1 fetched

type 'v fres =
| Fetched of 'v list
| FetchMissing
| FetchBadIndex

val fetch_all :
  bool -> plan list -> 'a1 list -> (nat * 'a1) list -> 'a1 list -> 'a1 fres

val positional : 'a1 param -> bool

val npos : 'a1 param list -> nat

val accepts_kw : 'a1 param list -> nat -> bool

val in_kw : nat -> (nat * 'a1) list -> bool

val bind_one : 'a1 list -> (nat * 'a1) list -> nat -> 'a1 param -> 'a1 option

val bind_from :
  'a1 list -> (nat * 'a1) list -> nat -> 'a1 param list -> 'a1 list option

val bind_py : 'a1 fsig -> 'a1 list -> (nat * 'a1) list -> 'a1 list option

val kinds_sorted : 'a1 param list -> bool

val nodupb : nat list -> bool

val wf_sig : 'a1 fsig -> bool

val hazard_free : plan -> 'a1 list -> (nat * 'a1) list -> bool

val select : ctype list list -> ctype option list -> dres

val fparams : 'a1 param list -> nat list

val fused_vals : ('a1 -> atag) -> 'a1 param list -> 'a1 list -> atag list

val ft_pos : plan list -> nat -> nat

val members_of : ctype list list -> plan -> ctype list

val decl_of : ctype list list -> 'a1 fsig -> decl

val call2_cy :
  ('a1 -> atag) -> bool -> bool -> bool -> (tclass -> bool) -> ctype list
  list -> 'a1 fsig -> 'a1 list -> (nat * 'a1) list -> outcome

val doc_call2 :
  ('a1 -> atag) -> ctype list list -> 'a1 fsig -> 'a1 list -> (nat * 'a1)
  list -> outcome

val call_index :
  ('a1 -> atag) -> 'a1 fsig -> ctype list -> 'a1 list -> (nat * 'a1) list ->
  outcome
