
val negb : bool -> bool

type nat =
| O
| S of nat

val option_map : ('a1 -> 'a2) -> 'a1 option -> 'a2 option

type ('a, 'b) sum =
| Inl of 'a
| Inr of 'b

val fst : ('a1 * 'a2) -> 'a1

val snd : ('a1 * 'a2) -> 'a2

val length : 'a1 list -> nat

val app : 'a1 list -> 'a1 list -> 'a1 list

val add : nat -> nat -> nat

val sub : nat -> nat -> nat

type positive =
| XI of positive
| XO of positive
| XH

type n =
| N0
| Npos of positive

type z =
| Z0
| Zpos of positive
| Zneg of positive

val eqb : bool -> bool -> bool

module Nat :
 sig
  val add : nat -> nat -> nat

  val eqb : nat -> nat -> bool

  val leb : nat -> nat -> bool

  val ltb : nat -> nat -> bool

  val min : nat -> nat -> nat
 end

val nth : nat -> 'a1 list -> 'a1 -> 'a1

val map : ('a1 -> 'a2) -> 'a1 list -> 'a2 list

val fold_left : ('a1 -> 'a2 -> 'a1) -> 'a2 list -> 'a1 -> 'a1

val existsb : ('a1 -> bool) -> 'a1 list -> bool

val forallb : ('a1 -> bool) -> 'a1 list -> bool

val filter : ('a1 -> bool) -> 'a1 list -> 'a1 list

val find : ('a1 -> bool) -> 'a1 list -> 'a1 option

val combine : 'a1 list -> 'a2 list -> ('a1 * 'a2) list

val firstn : nat -> 'a1 list -> 'a1 list

val skipn : nat -> 'a1 list -> 'a1 list

val seq : nat -> nat -> nat list

val repeat : 'a1 -> nat -> 'a1 list

val ex_keep : (((((nat * n) * z) * z list) * z option) * positive) * bool

type kkind =
| KInterned
| KEqual
| KSub
| KNonStr

type key = { k_name : nat; k_kind : kkind }

type param = { p_name : nat; p_def : bool }

type sig0 = { s_posonly : param list; s_poskw : param list; s_star : 
              bool; s_kwonly : param list; s_starstar : bool; s_kwused : 
              bool }

type 'v call = { c_pos : 'v list; c_kws : (key * 'v) list }

type path =
| PTuple
| PDict
| PNoArgs
| PMethO

type ekind =
| EArgTuple
| EMultiple
| EUnexpected
| ENonStr
| EKwRequired
| ENoArgs
| ETooMany
| EMissingPos
| EMissingKw
| EImpossible

type 'v arg =
| Given of 'v
| Default
| Unbound

type 'v outcome =
| Bound of (nat * 'v arg) list * 'v list option * (key * 'v) list option
| TypeErr of ekind

type 'v obs =
| OBound of (nat * 'v arg) list * 'v list option * (key * 'v) list option
| OTypeError
| OBroken

val erase : sig0 -> 'a1 outcome -> 'a1 obs

val is_str : key -> bool

val is_exact : key -> bool

val key_is : key -> nat -> bool

val key_eq : key -> nat -> bool

val key_same : key -> key -> bool

val dict_set : key -> 'a1 -> (key * 'a1) list -> (key * 'a1) list

val dict_get : nat -> (key * 'a1) list -> 'a1 option

val dict_del : nat -> (key * 'a1) list -> (key * 'a1) list

val dict_update : (key * 'a1) list -> (key * 'a1) list -> (key * 'a1) list

val upd : nat -> 'a1 -> 'a1 list -> 'a1 list

val find_idx : ('a1 -> bool) -> 'a1 list -> nat option

val find_from : ('a1 -> bool) -> nat -> 'a1 list -> nat option

val fill_pos : nat -> nat -> 'a1 list -> 'a1 option list

val nonstr_in : (key * 'a1) list -> bool

val required : param list -> param list

val optional : param list -> param list

val positional_args : sig0 -> param list

val kw_only_args : sig0 -> param list

val all_args : sig0 -> param list

val declared : sig0 -> param list

val npo : sig0 -> nat

val maxpos : sig0 -> nat

val minpos : sig0 -> nat

val nreq_posonly : sig0 -> nat

val nreq_kw : sig0 -> nat

val argnames : sig0 -> nat list

val accept_kwd_args : sig0 -> bool

type mres =
| MFound of nat
| MNone
| MBad of ekind

val match_scan : key -> nat list -> nat -> mres

val match_kw : key -> nat list -> nat -> mres

type 'v pstate = 'v option list * (key * 'v) list option

val parse_tuple :
  (key * 'a1) list -> nat list -> nat -> nat -> bool -> 'a1 option list ->
  (key * 'a1) list option -> (ekind, 'a1 pstate) sum

val validate_dup : (key * 'a1) list -> nat list -> nat -> bool

val reject_unknown : (key * 'a1) list -> nat list -> nat -> ekind

val dict_extract :
  (key * 'a1) list -> nat -> nat list -> nat -> nat -> nat -> 'a1 option list
  -> 'a1 option list * nat

val parse_dict :
  (key * 'a1) list -> nat list -> nat -> nat -> bool -> 'a1 option list ->
  (ekind, 'a1 pstate) sum

val dict_pop_all :
  nat list -> nat -> nat -> 'a1 option list -> (key * 'a1) list -> 'a1 option
  list * (key * 'a1) list

val parse_dict2dict :
  (key * 'a1) list -> nat list -> nat -> nat -> 'a1 option list ->
  (key * 'a1) list -> (ekind, 'a1 pstate) sum

val parse_keywords :
  path -> (key * 'a1) list -> nat list -> nat -> nat -> bool -> 'a1 option
  list -> (key * 'a1) list option -> (ekind, 'a1 pstate) sum

val reject_keywords : path -> (key * 'a1) list -> ekind

val assoc : nat -> (nat * 'a1) list -> 'a1 option

val to_arg : param -> 'a1 option option -> 'a1 arg

val readout_cy : sig0 -> 'a1 option list -> (nat * 'a1 arg) list

val none_in : 'a1 option list -> nat -> nat -> bool

val posargs_kw : sig0 -> 'a1 list -> 'a1 option list option

val bind_nokw :
  sig0 -> 'a1 list -> 'a1 list option -> (key * 'a1) list option -> 'a1
  outcome

val bind_generic : path -> sig0 -> 'a1 call -> 'a1 outcome

val bind_starcopy : path -> sig0 -> 'a1 call -> 'a1 outcome

val bind_noargs : 'a1 call -> 'a1 outcome

val bind_metho : sig0 -> 'a1 call -> 'a1 outcome

val bind_cy : path -> sig0 -> 'a1 call -> 'a1 outcome

val py_kw :
  (key * 'a1) list -> nat list -> nat -> 'a1 option list -> (key * 'a1) list
  option -> (ekind, 'a1 pstate) sum

val readout_py : param list -> 'a1 option list -> (nat * 'a1 arg) list

val missing_kwonly : nat -> param list -> 'a1 option list -> bool

val bind_py : sig0 -> 'a1 call -> 'a1 outcome

val defaults_trail : param list -> bool

val nodupb : nat list -> bool

val wf_sig : sig0 -> bool

val keys_nodup : (key * 'a1) list -> bool

val wf_call : path -> 'a1 call -> bool

val wf_path : path -> sig0 -> bool

val call_cy : bool -> path -> sig0 -> 'a1 call -> 'a1 outcome

val call_py : sig0 -> 'a1 call -> 'a1 outcome

val wf_entry : bool -> path -> bool
