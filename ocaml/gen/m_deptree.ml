
(** val negb : bool -> bool **)

let negb = function
| true -> false
| false -> true

type nat =
| O
| S of nat

(** val length : 'a1 list -> nat **)

let rec length = function
| [] -> O
| _ :: l' -> S (length l')

(** val app : 'a1 list -> 'a1 list -> 'a1 list **)

let rec app l m =
  match l with
  | [] -> m
  | a :: l1 -> a :: (app l1 m)

type comparison =
| Eq
| Lt
| Gt

(** val compOpp : comparison -> comparison **)

let compOpp = function
| Eq -> Eq
| Lt -> Gt
| Gt -> Lt

type positive =
| XI of positive
| XO of positive
| XH

type n =
| N0
| Npos of positive

type z =
| Z0
| Zpos of positive
| Zneg of positive

module Nat =
 struct
  (** val eqb : nat -> nat -> bool **)

  let rec eqb n0 m =
    match n0 with
    | O -> (match m with
            | O -> true
            | S _ -> false)
    | S n' -> (match m with
               | O -> false
               | S m' -> eqb n' m')

  (** val leb : nat -> nat -> bool **)

  let rec leb n0 m =
    match n0 with
    | O -> true
    | S n' -> (match m with
               | O -> false
               | S m' -> leb n' m')

  (** val ltb : nat -> nat -> bool **)

  let ltb n0 m =
    leb (S n0) m
 end

module Pos =
 struct
  (** val compare_cont : comparison -> positive -> positive -> comparison **)

  let rec compare_cont r x y =
    match x with
    | XI p ->
      (match y with
       | XI q -> compare_cont r p q
       | XO q -> compare_cont Gt p q
       | XH -> Gt)
    | XO p ->
      (match y with
       | XI q -> compare_cont Lt p q
       | XO q -> compare_cont r p q
       | XH -> Gt)
    | XH -> (match y with
             | XH -> r
             | _ -> Lt)

  (** val compare : positive -> positive -> comparison **)

  let compare =
    compare_cont Eq
 end

module Z =
 struct
  (** val compare : z -> z -> comparison **)

  let compare x y =
    match x with
    | Z0 -> (match y with
             | Z0 -> Eq
             | Zpos _ -> Lt
             | Zneg _ -> Gt)
    | Zpos x' -> (match y with
                  | Zpos y' -> Pos.compare x' y'
                  | _ -> Gt)
    | Zneg x' ->
      (match y with
       | Zneg y' -> compOpp (Pos.compare x' y')
       | _ -> Lt)

  (** val ltb : z -> z -> bool **)

  let ltb x y =
    match compare x y with
    | Lt -> true
    | _ -> false

  (** val max : z -> z -> z **)

  let max n0 m =
    match compare n0 m with
    | Lt -> m
    | _ -> n0
 end

(** val fold_left : ('a1 -> 'a2 -> 'a1) -> 'a2 list -> 'a1 -> 'a1 **)

let rec fold_left f l a0 =
  match l with
  | [] -> a0
  | b :: t -> fold_left f t (f a0 b)

(** val filter : ('a1 -> bool) -> 'a1 list -> 'a1 list **)

let rec filter f = function
| [] -> []
| x :: l0 -> if f x then x :: (filter f l0) else filter f l0

(** val ex_keep :
    (((((nat * n) * z) * z list) * z option) * positive) * bool **)

let ex_keep =
  ((((((O, N0), Z0), []), None), XH), true)

type node = nat

type nset = nat list

type cache = (node * nset) list

type stk = (node * nat) list

(** val mem : nat -> nset -> bool **)

let rec mem x = function
| [] -> false
| y :: t -> if Nat.eqb x y then true else mem x t

(** val union : nset -> nset -> nset **)

let union a b =
  app a (filter (fun x -> negb (mem x a)) b)

(** val lookup : node -> (node * 'a1) list -> 'a1 option **)

let rec lookup k = function
| [] -> None
| p :: t -> let (k', v) = p in if Nat.eqb k k' then Some v else lookup k t

type result =
| Ok of nset * node option * cache
| OutOfFuel
| KeyError

(** val choose_loop :
    stk -> node option -> node option -> node option option **)

let choose_loop stack loop = function
| Some sl ->
  (match loop with
   | Some l ->
     (match lookup l stack with
      | Some dl ->
        (match lookup sl stack with
         | Some ds -> if Nat.ltb dl ds then Some loop else Some (Some sl)
         | None -> None)
      | None -> None)
   | None -> Some (Some sl))
| None -> Some loop

(** val children :
    (node -> cache -> result) -> stk -> node list -> nset -> node option ->
    cache -> result **)

let rec children rec0 stack l deps loop seen =
  match l with
  | [] -> Ok (deps, loop, seen)
  | c :: tl ->
    (match rec0 c seen with
     | Ok (sub_deps, sub_loop, seen1) ->
       (match choose_loop stack loop sub_loop with
        | Some loop1 ->
          children rec0 stack tl (union deps sub_deps) loop1 seen1
        | None -> KeyError)
     | x -> x)

(** val opt_is : node option -> node -> bool **)

let opt_is o n0 =
  match o with
  | Some l -> Nat.eqb l n0
  | None -> false

(** val tmh :
    (node -> node list) -> (node -> nset) -> nat -> node -> cache -> stk ->
    result **)

let rec tmh outgoing extract fuel n0 seen stack =
  match fuel with
  | O -> OutOfFuel
  | S f ->
    (match lookup n0 seen with
     | Some d -> Ok (d, None, seen)
     | None ->
       let deps = extract n0 in
       (match lookup n0 stack with
        | Some _ -> Ok (deps, (Some n0), seen)
        | None ->
          let stack1 = (n0, (length stack)) :: stack in
          (match children (fun c s -> tmh outgoing extract f c s stack1)
                   stack1 (outgoing n0) deps None seen with
           | Ok (deps1, loop1, seen1) ->
             let loop2 = if opt_is loop1 n0 then None else loop1 in
             (match loop2 with
              | Some _ -> Ok (deps1, loop2, seen1)
              | None -> Ok (deps1, None, ((n0, deps1) :: seen1)))
           | x -> x)))

(** val transitive_merge :
    (node -> node list) -> (node -> nset) -> nat -> cache -> node -> result **)

let transitive_merge outgoing extract fuel seen q =
  tmh outgoing extract fuel q seen []

type qresult =
| QOk of nset list * cache
| QFail

(** val run_queries :
    (node -> node list) -> (node -> nset) -> nat -> cache -> node list ->
    qresult **)

let rec run_queries outgoing extract fuel seen = function
| [] -> QOk ([], seen)
| q :: tl ->
  (match transitive_merge outgoing extract fuel seen q with
   | Ok (d, _, seen1) ->
     (match run_queries outgoing extract fuel seen1 tl with
      | QOk (ds, seen2) -> QOk ((d :: ds), seen2)
      | QFail -> QFail)
   | _ -> QFail)

(** val fuel_for : node list -> nat **)

let fuel_for nodes =
  S (length nodes)

(** val newest : (nat -> z) -> nset -> z option **)

let newest ts = function
| [] -> None
| d :: t -> Some (fold_left (fun acc x -> Z.max acc (ts x)) t (ts d))

(** val rebuild_decision :
    bool -> z -> (nat -> z) -> nat -> nset -> bool option **)

let rebuild_decision force c_ts ts source deps =
  if Z.ltb c_ts (ts source)
  then Some true
  else (match newest ts deps with
        | Some d -> Some ((||) force (Z.ltb c_ts d))
        | None -> None)

(** val tab_fun : (node * nat list) list -> node -> nat list **)

let tab_fun t n0 =
  match lookup n0 t with
  | Some l -> l
  | None -> []

(** val run_table :
    (node * nat list) list -> (node * nat list) list -> nat -> node list ->
    qresult **)

let run_table out ext fuel qs =
  run_queries (tab_fun out) (tab_fun ext) fuel [] qs

(** val helper_table :
    (node * nat list) list -> (node * nat list) list -> nat -> node -> cache
    -> stk -> result **)

let helper_table out ext fuel n0 seen stack =
  tmh (tab_fun out) (tab_fun ext) fuel n0 seen stack
