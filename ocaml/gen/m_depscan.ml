
type nat =
| O
| S of nat

(** val length : 'a1 list -> nat **)

let rec length = function
| [] -> O
| _ :: l' -> S (length l')

(** val app : 'a1 list -> 'a1 list -> 'a1 list **)

let rec app l m =
  match l with
  | [] -> m
  | a :: l1 -> a :: (app l1 m)

(** val sub : nat -> nat -> nat **)

let rec sub n0 m =
  match n0 with
  | O -> n0
  | S k -> (match m with
            | O -> n0
            | S l -> sub k l)

type positive =
| XI of positive
| XO of positive
| XH

type n =
| N0
| Npos of positive

type z =
| Z0
| Zpos of positive
| Zneg of positive

module Nat =
 struct
  (** val eqb : nat -> nat -> bool **)

  let rec eqb n0 m =
    match n0 with
    | O -> (match m with
            | O -> true
            | S _ -> false)
    | S n' -> (match m with
               | O -> false
               | S m' -> eqb n' m')

  (** val leb : nat -> nat -> bool **)

  let rec leb n0 m =
    match n0 with
    | O -> true
    | S n' -> (match m with
               | O -> false
               | S m' -> leb n' m')

  (** val ltb : nat -> nat -> bool **)

  let ltb n0 m =
    leb (S n0) m
 end

(** val tl : 'a1 list -> 'a1 list **)

let tl = function
| [] -> []
| _ :: m -> m

(** val rev : 'a1 list -> 'a1 list **)

let rec rev = function
| [] -> []
| x :: l' -> app (rev l') (x :: [])

(** val map : ('a1 -> 'a2) -> 'a1 list -> 'a2 list **)

let rec map f = function
| [] -> []
| a :: t -> (f a) :: (map f t)

(** val fold_left : ('a1 -> 'a2 -> 'a1) -> 'a2 list -> 'a1 -> 'a1 **)

let rec fold_left f l a0 =
  match l with
  | [] -> a0
  | b :: t -> fold_left f t (f a0 b)

(** val firstn : nat -> 'a1 list -> 'a1 list **)

let rec firstn n0 l =
  match n0 with
  | O -> []
  | S n1 -> (match l with
             | [] -> []
             | a :: l0 -> a :: (firstn n1 l0))

(** val repeat : 'a1 -> nat -> 'a1 list **)

let rec repeat x = function
| O -> []
| S k -> x :: (repeat x k)

(** val ex_keep :
    (((((nat * n) * z) * z list) * z option) * positive) * bool **)

let ex_keep =
  ((((((O, N0), Z0), []), None), XH), true)

type str = nat list

(** val dOT : nat **)

let dOT =
  O

(** val split_dots : str -> str list **)

let rec split_dots = function
| [] -> [] :: []
| c :: r ->
  if Nat.eqb c dOT
  then [] :: (split_dots r)
  else (match split_dots r with
        | [] -> (c :: []) :: []
        | h :: t -> (c :: h) :: t)

(** val join_dots : str list -> str **)

let rec join_dots = function
| [] -> []
| x :: r -> (match r with
             | [] -> x
             | _ :: _ -> app x (dOT :: (join_dots r)))

(** val ends_with_dot : str -> bool **)

let rec ends_with_dot = function
| [] -> false
| c :: r -> (match r with
             | [] -> Nat.eqb c dOT
             | _ :: _ -> ends_with_dot r)

(** val starts_with_dot : str -> bool **)

let starts_with_dot = function
| [] -> false
| c :: _ -> Nat.eqb c dOT

(** val str_eqb : str -> str -> bool **)

let rec str_eqb a b =
  match a with
  | [] -> (match b with
           | [] -> true
           | _ :: _ -> false)
  | x :: a' ->
    (match b with
     | [] -> false
     | y :: b' -> (&&) (Nat.eqb x y) (str_eqb a' b'))

type stmt =
| SFrom of str * str list
| SCimport of str list
| SExtern of str
| SInclude of str

type sep_rule =
| SepEndsWithDot
| SepOnlyOneDot

(** val sep_of : sep_rule -> str -> str **)

let sep_of r from =
  match r with
  | SepEndsWithDot -> if ends_with_dot from then [] else dOT :: []
  | SepOnlyOneDot -> if str_eqb from (dOT :: []) then [] else dOT :: []

(** val from_candidates : sep_rule -> str -> str list -> str list **)

let from_candidates r from names =
  from :: (map (fun w -> app from (app (sep_of r from) w)) names)

type scanned = { sc_cimports : str list; sc_includes : str list;
                 sc_externs : str list }

(** val scan_stmt : sep_rule -> stmt -> scanned -> scanned **)

let scan_stmt r s acc =
  match s with
  | SFrom (from, names) ->
    { sc_cimports = (app acc.sc_cimports (from_candidates r from names));
      sc_includes = acc.sc_includes; sc_externs = acc.sc_externs }
  | SCimport mods ->
    { sc_cimports = (app acc.sc_cimports mods); sc_includes =
      acc.sc_includes; sc_externs = acc.sc_externs }
  | SExtern f ->
    { sc_cimports = acc.sc_cimports; sc_includes = acc.sc_includes;
      sc_externs = (app acc.sc_externs (f :: [])) }
  | SInclude f ->
    { sc_cimports = acc.sc_cimports; sc_includes =
      (app acc.sc_includes (f :: [])); sc_externs = acc.sc_externs }

(** val scan : sep_rule -> stmt list -> scanned **)

let scan r l =
  fold_left (fun acc s -> scan_stmt r s acc) l { sc_cimports = [];
    sc_includes = []; sc_externs = [] }

(** val package_rev : (str * bool) list -> str list **)

let rec package_rev = function
| [] -> []
| p :: up -> let (name, b) = p in if b then name :: (package_rev up) else []

(** val package_of : (str * bool) list -> str list **)

let package_of dirs =
  rev (package_rev dirs)

(** val strip_levels :
    str list -> str list -> (str list * str list) option **)

let rec strip_levels pkg_rev mp = match mp with
| [] -> Some (pkg_rev, mp)
| s :: mp' ->
  (match s with
   | [] -> (match pkg_rev with
            | [] -> None
            | _ :: p' -> strip_levels p' mp')
   | _ :: _ -> Some (pkg_rev, mp))

(** val drop_trailing_empty : str list -> str list **)

let drop_trailing_empty mp =
  match rev mp with
  | [] -> mp
  | s :: r -> (match s with
               | [] -> rev r
               | _ :: _ -> mp)

(** val find_pxd_cands : bool -> str -> str list -> str list option **)

let find_pxd_cands dots_only_fixed module0 pkg =
  let rel = starts_with_dot module0 in
  let mp0 = split_dots module0 in
  let mp1 = if rel then tl mp0 else mp0 in
  let mp2 = if (&&) rel dots_only_fixed then drop_trailing_empty mp1 else mp1
  in
  (match strip_levels (rev pkg) mp2 with
   | Some p0 ->
     let (p, m) = p0 in
     let relative = join_dots (app (rev p) m) in
     Some (if rel then relative :: [] else relative :: (module0 :: []))
   | None -> None)

(** val render : nat -> str list -> str **)

let render level path =
  app (repeat dOT level) (join_dots path)

(** val import_rule : nat -> str list -> str list -> str list option **)

let import_rule level path pkg =
  match level with
  | O -> Some path
  | S k ->
    if Nat.ltb k (length pkg)
    then Some (app (firstn (sub (length pkg) k) pkg) path)
    else None
