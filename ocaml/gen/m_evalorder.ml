
(** val xorb : bool -> bool -> bool **)

let xorb b1 b2 =
  if b1 then if b2 then false else true else b2

(** val negb : bool -> bool **)

let negb = function
| true -> false
| false -> true

type nat =
| O
| S of nat

(** val option_map : ('a1 -> 'a2) -> 'a1 option -> 'a2 option **)

let option_map f = function
| Some a -> Some (f a)
| None -> None

(** val length : 'a1 list -> nat **)

let rec length = function
| [] -> O
| _ :: l' -> S (length l')

(** val app : 'a1 list -> 'a1 list -> 'a1 list **)

let rec app l m =
  match l with
  | [] -> m
  | a :: l1 -> a :: (app l1 m)

(** val add : nat -> nat -> nat **)

let rec add n0 m =
  match n0 with
  | O -> m
  | S p -> S (add p m)

(** val sub : nat -> nat -> nat **)

let rec sub n0 m =
  match n0 with
  | O -> n0
  | S k -> (match m with
            | O -> n0
            | S l -> sub k l)

type positive =
| XI of positive
| XO of positive
| XH

type n =
| N0
| Npos of positive

type z =
| Z0
| Zpos of positive
| Zneg of positive

(** val eqb : bool -> bool -> bool **)

let eqb b1 b2 =
  if b1 then b2 else if b2 then false else true

module Nat =
 struct
  (** val add : nat -> nat -> nat **)

  let rec add n0 m =
    match n0 with
    | O -> m
    | S p -> S (add p m)

  (** val eqb : nat -> nat -> bool **)

  let rec eqb n0 m =
    match n0 with
    | O -> (match m with
            | O -> true
            | S _ -> false)
    | S n' -> (match m with
               | O -> false
               | S m' -> eqb n' m')

  (** val leb : nat -> nat -> bool **)

  let rec leb n0 m =
    match n0 with
    | O -> true
    | S n' -> (match m with
               | O -> false
               | S m' -> leb n' m')

  (** val ltb : nat -> nat -> bool **)

  let ltb n0 m =
    leb (S n0) m

  (** val even : nat -> bool **)

  let rec even = function
  | O -> true
  | S n1 -> (match n1 with
             | O -> false
             | S n' -> even n')
 end

(** val hd : 'a1 -> 'a1 list -> 'a1 **)

let hd default = function
| [] -> default
| x :: _ -> x

(** val tl : 'a1 list -> 'a1 list **)

let tl = function
| [] -> []
| _ :: m -> m

(** val nth : nat -> 'a1 list -> 'a1 -> 'a1 **)

let rec nth n0 l default =
  match n0 with
  | O -> (match l with
          | [] -> default
          | x :: _ -> x)
  | S m -> (match l with
            | [] -> default
            | _ :: t -> nth m t default)

(** val map : ('a1 -> 'a2) -> 'a1 list -> 'a2 list **)

let rec map f = function
| [] -> []
| a :: t -> (f a) :: (map f t)

(** val flat_map : ('a1 -> 'a2 list) -> 'a1 list -> 'a2 list **)

let rec flat_map f = function
| [] -> []
| x :: t -> app (f x) (flat_map f t)

(** val fold_right : ('a2 -> 'a1 -> 'a1) -> 'a1 -> 'a2 list -> 'a1 **)

let rec fold_right f a0 = function
| [] -> a0
| b :: t -> f b (fold_right f a0 t)

(** val existsb : ('a1 -> bool) -> 'a1 list -> bool **)

let rec existsb f = function
| [] -> false
| a :: l0 -> (||) (f a) (existsb f l0)

(** val forallb : ('a1 -> bool) -> 'a1 list -> bool **)

let rec forallb f = function
| [] -> true
| a :: l0 -> (&&) (f a) (forallb f l0)

(** val filter : ('a1 -> bool) -> 'a1 list -> 'a1 list **)

let rec filter f = function
| [] -> []
| x :: l0 -> if f x then x :: (filter f l0) else filter f l0

(** val combine : 'a1 list -> 'a2 list -> ('a1 * 'a2) list **)

let rec combine l l' =
  match l with
  | [] -> []
  | x :: tl0 ->
    (match l' with
     | [] -> []
     | y :: tl' -> (x, y) :: (combine tl0 tl'))

(** val seq : nat -> nat -> nat list **)

let rec seq start = function
| O -> []
| S len0 -> start :: (seq (S start) len0)

(** val ex_keep :
    (((((nat * n) * z) * z list) * z option) * positive) * bool **)

let ex_keep =
  ((((((O, N0), Z0), []), None), XH), true)

(** val index_of : nat -> nat list -> nat option **)

let rec index_of d = function
| [] -> None
| x :: r ->
  if Nat.eqb x d then Some O else option_map (fun x0 -> S x0) (index_of d r)

(** val memb : nat -> nat list -> bool **)

let rec memb x = function
| [] -> false
| y :: r -> (||) (Nat.eqb y x) (memb x r)

(** val nodupb : nat list -> bool **)

let rec nodupb = function
| [] -> true
| x :: r -> (&&) (negb (memb x r)) (nodupb r)

(** val inorder_prefix : nat -> nat -> nat list -> nat **)

let rec inorder_prefix ndecl d = function
| [] -> O
| x :: r ->
  if (&&) (Nat.eqb x d) (Nat.ltb d ndecl)
  then S (inorder_prefix ndecl (S d) r)
  else O

(** val insert : nat -> nat list -> nat list **)

let rec insert x l = match l with
| [] -> x :: []
| y :: r -> if Nat.leb x y then x :: l else y :: (insert x r)

(** val isort : nat list -> nat list **)

let rec isort = function
| [] -> []
| x :: r -> insert x (isort r)

(** val before_first : nat -> nat list -> nat list **)

let rec before_first first = function
| [] -> []
| x :: r -> if Nat.eqb x first then [] else x :: (before_first first r)

type cmres =
| CMErr
| CMGap
| CMOk of nat list * nat list

(** val ooo_scan :
    nat -> nat list -> nat -> nat -> bool -> nat list option **)

let rec ooo_scan npos names fuel d missing =
  match fuel with
  | O -> Some []
  | S f ->
    (match index_of d names with
     | Some i ->
       if missing
       then None
       else option_map (fun x -> (add npos i) :: x)
              (ooo_scan npos names f (S d) false)
     | None -> ooo_scan npos names f (S d) true)

(** val ccmap :
    bool -> bool -> nat -> nat -> nat list -> (nat -> bool) -> cmres **)

let ccmap cc_sort cc_keep npos ndecl names simple =
  if Nat.ltb ndecl npos
  then CMErr
  else if (||) (existsb (fun x -> Nat.ltb x npos) names) (negb (nodupb names))
       then CMErr
       else if existsb (fun x -> Nat.leb ndecl x) names
            then CMErr
            else let pre = inorder_prefix ndecl npos names in
                 let k = add npos pre in
                 if Nat.leb (length names) pre
                 then CMOk ([], (seq O k))
                 else (match ooo_scan npos names (sub ndecl k) k false with
                       | Some oo ->
                         let args = app (seq O k) oo in
                         let temps0 = filter (fun p -> negb (simple p)) oo in
                         (match temps0 with
                          | [] -> CMOk ([], args)
                          | first :: _ ->
                            let before = before_first first args in
                            let new_temps =
                              filter (fun p -> negb (simple p)) before
                            in
                            let args' =
                              match new_temps with
                              | [] -> args
                              | _ :: _ -> if cc_keep then args else before
                            in
                            CMOk
                            ((app new_temps
                               (if cc_sort then isort temps0 else temps0)),
                            args'))
                       | None -> CMGap)

(** val slot_pos : nat -> nat list -> nat -> nat option **)

let slot_pos npos names d =
  if Nat.ltb d npos
  then Some d
  else option_map (Nat.add npos) (index_of d names)

(** val ref_slots : nat -> nat list -> nat -> nat -> nat list **)

let rec ref_slots npos names fuel d =
  match fuel with
  | O -> []
  | S f ->
    (match slot_pos npos names d with
     | Some p -> p :: (ref_slots npos names f (S d))
     | None -> [])

type op =
| OLog of nat
| OSeq of nat
| OIn of bool
| OGetItem
| OSetItem
| ODelItem
| OGetSlice
| OGetAttr of nat
| OSetAttr of nat
| ODelAttr of nat

type val0 =
| VNone
| VBool of bool
| VLeaf of nat * nat
| VItem of nat * val0
| VOp of op * val0 list

type event =
| EvLeaf of nat
| EvOp of op * val0 list
| EvBool of val0
| EvIter of val0

type sem = { leafsem : (nat -> nat -> val0 * event list);
             opsem : (op -> val0 list -> val0 * event list);
             truthsem : (val0 -> bool * event list);
             unpacksem : (nat -> val0 -> val0 list * event list) }

type expr =
| ELeaf of nat * nat
| EName of nat
| ENone
| EOp of op * expr list
| ENot of expr
| EAnd of expr * expr
| EOr of expr * expr
| ECond of expr * expr * expr
| ECmp of expr * op list * expr list
| EMCall of nat * op * expr * expr list
| EMinMax of op * expr list
| ECCall of op * nat * nat * expr * nat * nat list * expr list

type starget =
| TName of nat
| TStore of op * expr list

type target =
| TS of starget
| TTup of starget list

type stmt =
| SAssign of target list * expr
| SAug of expr * op * expr
| SDel of op * expr list

type res = { rv : val0; rk : bool option; rev : event list; rlf : nat list }

type mode =
| MVal
| MBool

(** val truth_of : sem -> val0 -> bool option -> bool * event list **)

let truth_of s v = function
| Some b -> (b, [])
| None -> s.truthsem v

(** val flat_ev : res list -> event list **)

let flat_ev l =
  flat_map (fun r -> r.rev) l

(** val flat_lf : res list -> nat list **)

let flat_lf l =
  flat_map (fun r -> r.rlf) l

(** val eval : sem -> (nat -> val0) -> mode -> expr -> res **)

let rec eval s vars m e =
  let evals0 =
    let rec evals0 = function
    | [] -> []
    | x :: xs -> (eval s vars MVal x) :: (evals0 xs)
    in evals0
  in
  let chain =
    let rec chain va ops es =
      match ops with
      | [] ->
        (match m with
         | MVal -> { rv = VNone; rk = None; rev = []; rlf = [] }
         | MBool ->
           let (t, ev) = s.truthsem VNone in
           { rv = (VBool t); rk = (Some t); rev = ev; rlf = [] })
      | o :: ops' ->
        (match es with
         | [] ->
           (match m with
            | MVal -> { rv = VNone; rk = None; rev = []; rlf = [] }
            | MBool ->
              let (t, ev) = s.truthsem VNone in
              { rv = (VBool t); rk = (Some t); rev = ev; rlf = [] })
         | b :: es' ->
           let rb = eval s vars MVal b in
           let (r, ev1) = s.opsem o (va :: (rb.rv :: [])) in
           (match ops' with
            | [] ->
              (match m with
               | MVal ->
                 { rv = r; rk = None; rev = (app rb.rev ev1); rlf = rb.rlf }
               | MBool ->
                 let (t, ev2) = s.truthsem r in
                 { rv = (VBool t); rk = (Some t); rev =
                 (app rb.rev (app ev1 ev2)); rlf = rb.rlf })
            | _ :: _ ->
              (match es' with
               | [] ->
                 (match m with
                  | MVal ->
                    { rv = r; rk = None; rev = (app rb.rev ev1); rlf =
                      rb.rlf }
                  | MBool ->
                    let (t, ev2) = s.truthsem r in
                    { rv = (VBool t); rk = (Some t); rev =
                    (app rb.rev (app ev1 ev2)); rlf = rb.rlf })
               | _ :: _ ->
                 let (t, ev2) = s.truthsem r in
                 if t
                 then let rc = chain rb.rv ops' es' in
                      { rv = rc.rv; rk = rc.rk; rev =
                      (app rb.rev (app ev1 (app ev2 rc.rev))); rlf =
                      (app rb.rlf rc.rlf) }
                 else { rv = (match m with
                              | MVal -> r
                              | MBool -> VBool false); rk =
                        (match m with
                         | MVal -> None
                         | MBool -> Some false); rev =
                        (app rb.rev (app ev1 ev2)); rlf = rb.rlf })))
    in chain
  in
  let tobool = fun r ->
    match m with
    | MVal -> r
    | MBool ->
      let (t, ev) = truth_of s r.rv r.rk in
      { rv = (VBool t); rk = (Some t); rev = (app r.rev ev); rlf = r.rlf }
  in
  (match e with
   | ELeaf (kind, k) ->
     let (v, ev) = s.leafsem kind k in
     tobool { rv = v; rk = None; rev = ev; rlf = (k :: []) }
   | EName x -> tobool { rv = (vars x); rk = None; rev = []; rlf = [] }
   | ENone -> tobool { rv = VNone; rk = None; rev = []; rlf = [] }
   | EOp (o, es) ->
     let rs = evals0 es in
     let (v, ev) = s.opsem o (map (fun r -> r.rv) rs) in
     tobool { rv = v; rk = None; rev = (app (flat_ev rs) ev); rlf =
       (flat_lf rs) }
   | ENot a ->
     let ra = eval s vars MBool a in
     let t = match ra.rk with
             | Some t -> negb t
             | None -> false in
     { rv = (VBool t); rk = (Some t); rev = ra.rev; rlf = ra.rlf }
   | EAnd (a, b) ->
     let ra = eval s vars m a in
     let (t, ev) = truth_of s ra.rv ra.rk in
     if t
     then let rb = eval s vars m b in
          { rv = rb.rv; rk = rb.rk; rev = (app ra.rev (app ev rb.rev)); rlf =
          (app ra.rlf rb.rlf) }
     else { rv = ra.rv; rk = (Some false); rev = (app ra.rev ev); rlf =
            ra.rlf }
   | EOr (a, b) ->
     let ra = eval s vars m a in
     let (t, ev) = truth_of s ra.rv ra.rk in
     if t
     then { rv = ra.rv; rk = (Some true); rev = (app ra.rev ev); rlf =
            ra.rlf }
     else let rb = eval s vars m b in
          { rv = rb.rv; rk = rb.rk; rev = (app ra.rev (app ev rb.rev)); rlf =
          (app ra.rlf rb.rlf) }
   | ECond (c, a, b) ->
     let rc = eval s vars MBool c in
     let t = match rc.rk with
             | Some t -> t
             | None -> false in
     let rx = if t then eval s vars MVal a else eval s vars MVal b in
     tobool { rv = rx.rv; rk = None; rev = (app rc.rev rx.rev); rlf =
       (app rc.rlf rx.rlf) }
   | ECmp (a, ops, rest) ->
     let ra = eval s vars MVal a in
     let rc = chain ra.rv ops rest in
     { rv = rc.rv; rk = rc.rk; rev = (app ra.rev rc.rev); rlf =
     (app ra.rlf rc.rlf) }
   | EMCall (mname, o, obj, args) ->
     let ro = eval s vars MVal obj in
     let (f, ev1) = s.opsem (OGetAttr mname) (ro.rv :: []) in
     let rs = evals0 args in
     let (v, ev2) = s.opsem o (f :: (map (fun r -> r.rv) rs)) in
     tobool { rv = v; rk = None; rev =
       (app ro.rev (app ev1 (app (flat_ev rs) ev2))); rlf =
       (app ro.rlf (flat_lf rs)) }
   | EMinMax (o, args) ->
     let rs = evals0 args in
     let scan =
       let rec scan best = function
       | [] -> (best, [])
       | v :: vs' ->
         let (r, ev1) = s.opsem o (v :: (best :: [])) in
         let (t, ev2) = s.truthsem r in
         let (w, ev3) = scan (if t then v else best) vs' in
         (w, (app ev1 (app ev2 ev3)))
       in scan
     in
     (match map (fun r -> r.rv) rs with
      | [] -> tobool { rv = VNone; rk = None; rev = []; rlf = [] }
      | v0 :: vs ->
        let (w, ev) = scan v0 vs in
        tobool { rv = w; rk = None; rev = (app (flat_ev rs) ev); rlf =
          (flat_lf rs) })
   | ECCall (o, _, ndecl, recv, npos, names, es) ->
     let rr = eval s vars MVal recv in
     let rs = evals0 es in
     let (v, ev) =
       s.opsem o
         (rr.rv :: (map (fun p -> nth p (map (fun r -> r.rv) rs) VNone)
                     (ref_slots npos names ndecl O)))
     in
     tobool { rv = v; rk = None; rev = (app rr.rev (app (flat_ev rs) ev));
       rlf = (app rr.rlf (flat_lf rs)) })

(** val evals : sem -> (nat -> val0) -> expr list -> res list **)

let rec evals s vars = function
| [] -> []
| x :: xs -> (eval s vars MVal x) :: (evals s vars xs)

type sres = { svars : (nat -> val0); sev : event list; slf : nat list }

(** val upd : (nat -> val0) -> nat -> val0 -> nat -> val0 **)

let upd f x v y =
  if Nat.eqb y x then v else f y

(** val ref_store1 : sem -> sres -> starget -> val0 -> sres **)

let ref_store1 s st t v =
  match t with
  | TName x -> { svars = (upd st.svars x v); sev = st.sev; slf = st.slf }
  | TStore (o, es) ->
    let rs = evals s st.svars es in
    let (_, ev) = s.opsem o (app (map (fun r -> r.rv) rs) (v :: [])) in
    { svars = st.svars; sev = (app st.sev (app (flat_ev rs) ev)); slf =
    (app st.slf (flat_lf rs)) }

(** val ref_store_items : sem -> sres -> starget list -> val0 list -> sres **)

let rec ref_store_items s st ts vs =
  match ts with
  | [] -> st
  | t :: ts' ->
    ref_store_items s (ref_store1 s st t (hd VNone vs)) ts' (tl vs)

(** val ref_store : sem -> sres -> target -> val0 -> sres **)

let ref_store s st t v =
  match t with
  | TS t1 -> ref_store1 s st t1 v
  | TTup ts ->
    let (vs, ev) = s.unpacksem (length ts) v in
    ref_store_items s { svars = st.svars; sev = (app st.sev ev); slf =
      st.slf } ts vs

(** val ref_stores : sem -> sres -> target list -> val0 -> sres **)

let rec ref_stores s st ts v =
  match ts with
  | [] -> st
  | t :: ts' -> ref_stores s (ref_store s st t v) ts' v

(** val ref_stmt : sem -> (nat -> val0) -> stmt -> sres **)

let ref_stmt s vars = function
| SAssign (ts, rhs) ->
  let r = eval s vars MVal rhs in
  ref_stores s { svars = vars; sev = r.rev; slf = r.rlf } ts r.rv
| SAug (lhs, iop, rhs) ->
  (match lhs with
   | EName x ->
     let r = eval s vars MVal rhs in
     let (w, ev) = s.opsem iop ((vars x) :: (r.rv :: [])) in
     { svars = (upd vars x w); sev = (app r.rev ev); slf = r.rlf }
   | EOp (o0, es) ->
     (match o0 with
      | OGetItem ->
        (match es with
         | [] -> { svars = vars; sev = []; slf = [] }
         | b :: l ->
           (match l with
            | [] -> { svars = vars; sev = []; slf = [] }
            | i :: l0 ->
              (match l0 with
               | [] ->
                 let rb = eval s vars MVal b in
                 let ri = eval s vars MVal i in
                 let (cur, ev1) = s.opsem OGetItem (rb.rv :: (ri.rv :: [])) in
                 let r = eval s vars MVal rhs in
                 let (w, ev2) = s.opsem iop (cur :: (r.rv :: [])) in
                 let (_, ev3) =
                   s.opsem OSetItem (rb.rv :: (ri.rv :: (w :: [])))
                 in
                 { svars = vars; sev =
                 (app rb.rev (app ri.rev (app ev1 (app r.rev (app ev2 ev3)))));
                 slf = (app rb.rlf (app ri.rlf r.rlf)) }
               | _ :: _ -> { svars = vars; sev = []; slf = [] })))
      | OGetAttr a ->
        (match es with
         | [] -> { svars = vars; sev = []; slf = [] }
         | o :: l ->
           (match l with
            | [] ->
              let ro = eval s vars MVal o in
              let (cur, ev1) = s.opsem (OGetAttr a) (ro.rv :: []) in
              let r = eval s vars MVal rhs in
              let (w, ev2) = s.opsem iop (cur :: (r.rv :: [])) in
              let (_, ev3) = s.opsem (OSetAttr a) (ro.rv :: (w :: [])) in
              { svars = vars; sev =
              (app ro.rev (app ev1 (app r.rev (app ev2 ev3)))); slf =
              (app ro.rlf r.rlf) }
            | _ :: _ -> { svars = vars; sev = []; slf = [] }))
      | _ -> { svars = vars; sev = []; slf = [] })
   | _ -> { svars = vars; sev = []; slf = [] })
| SDel (o, es) ->
  let rs = evals s vars es in
  let (_, ev) = s.opsem o (map (fun r -> r.rv) rs) in
  { svars = vars; sev = (app (flat_ev rs) ev); slf = (flat_lf rs) }

type operand =
| OTemp of nat
| OVar of nat
| ONoneC

type instr =
| ILeaf of nat * nat * nat
| IOp of nat * op * operand list
| IIsTrue of nat * operand
| INot of nat * nat
| IMove of nat * operand
| IStore of nat * operand
| IUnpack of nat * nat * operand
| ILabel of nat
| IGoto of nat
| IJumpIf of nat * bool * nat

type state = { temps : (nat -> val0); mvars : (nat -> val0);
               trace : event list; leaflog : nat list }

type rmode =
| Normal
| Skip of nat

(** val getop : state -> operand -> val0 **)

let getop st = function
| OTemp t -> st.temps t
| OVar x -> st.mvars x
| ONoneC -> VNone

(** val set_temp : state -> nat -> val0 -> event list -> state **)

let set_temp st t v ev =
  { temps = (upd st.temps t v); mvars = st.mvars; trace = (app st.trace ev);
    leaflog = st.leaflog }

(** val set_temps :
    (nat -> val0) -> nat -> val0 list -> nat -> nat -> val0 **)

let rec set_temps f t0 vs = function
| O -> f
| S n' -> set_temps (upd f t0 (hd VNone vs)) (S t0) (tl vs) n'

(** val cbool : val0 -> bool **)

let cbool = function
| VBool b -> b
| _ -> false

(** val step : sem -> instr -> state -> state * rmode **)

let step s i st =
  match i with
  | ILeaf (t, kind, k) ->
    let (v, ev) = s.leafsem kind k in
    ({ temps = (upd st.temps t v); mvars = st.mvars; trace =
    (app st.trace ev); leaflog = (app st.leaflog (k :: [])) }, Normal)
  | IOp (t, o, args) ->
    let (v, ev) = s.opsem o (map (getop st) args) in
    ((set_temp st t v ev), Normal)
  | IIsTrue (t, src) ->
    let (b, ev) = s.truthsem (getop st src) in
    ((set_temp st t (VBool b) ev), Normal)
  | INot (t, src) ->
    ((set_temp st t (VBool (negb (cbool (st.temps src)))) []), Normal)
  | IMove (t, src) -> ((set_temp st t (getop st src) []), Normal)
  | IStore (x, src) ->
    ({ temps = st.temps; mvars = (upd st.mvars x (getop st src)); trace =
      st.trace; leaflog = st.leaflog }, Normal)
  | IUnpack (t0, n0, src) ->
    let (vs, ev) = s.unpacksem n0 (getop st src) in
    ({ temps = (set_temps st.temps t0 vs n0); mvars = st.mvars; trace =
    (app st.trace ev); leaflog = st.leaflog }, Normal)
  | ILabel _ -> (st, Normal)
  | IGoto l -> (st, (Skip l))
  | IJumpIf (src, sense, l) ->
    (st, (if eqb (cbool (st.temps src)) sense then Skip l else Normal))

(** val run : sem -> instr list -> state -> rmode -> state * rmode **)

let rec run s c st m =
  match c with
  | [] -> (st, m)
  | i :: c' ->
    (match m with
     | Normal -> let (st', m') = step s i st in run s c' st' m'
     | Skip l ->
       (match i with
        | ILabel l' ->
          if Nat.eqb l l' then run s c' st Normal else run s c' st m
        | _ -> run s c' st m))

type flags = { fx_minmax : bool; fx_mcall : bool; fx_inplace : bool;
               fx_cascade : bool; fx_ccsimple : bool; fx_cckeep : bool;
               fx_ccrecv : bool; cc_sorted : bool }

type ctx =
| CVal
| CBool
| CThread of mode * nat * nat option * nat option * nat

(** val mode_of : ctx -> mode **)

let mode_of = function
| CVal -> MVal
| CBool -> MBool
| CThread (m, _, _, _, _) -> m

type gres = (instr list * operand) * nat

(** val thread_tail :
    mode -> nat -> nat option -> nat option -> nat -> operand -> nat -> instr
    list * nat **)

let thread_tail m res0 andl orl endl r n0 =
  let deliver = (IMove (res0, r)) :: ((IGoto endl) :: []) in
  (match andl with
   | Some _ ->
     (match m with
      | MVal ->
        let p = (((IIsTrue (n0, r)) :: []), n0) in
        let n1 = S n0 in
        let (tst, t) = p in
        ((app tst
           (match andl with
            | Some al ->
              (match orl with
               | Some ol -> (IJumpIf (t, false, ol)) :: ((IGoto al) :: [])
               | None -> app ((IJumpIf (t, true, al)) :: []) deliver)
            | None ->
              (match orl with
               | Some ol -> app ((IJumpIf (t, false, ol)) :: []) deliver
               | None -> deliver))), n1)
      | MBool ->
        (match r with
         | OTemp t ->
           let p = ([], t) in
           let (tst, t0) = p in
           ((app tst
              (match andl with
               | Some al ->
                 (match orl with
                  | Some ol -> (IJumpIf (t0, false, ol)) :: ((IGoto al) :: [])
                  | None -> app ((IJumpIf (t0, true, al)) :: []) deliver)
               | None ->
                 (match orl with
                  | Some ol -> app ((IJumpIf (t0, false, ol)) :: []) deliver
                  | None -> deliver))), n0)
         | _ ->
           let p = (((IIsTrue (n0, r)) :: []), n0) in
           let n1 = S n0 in
           let (tst, t) = p in
           ((app tst
              (match andl with
               | Some al ->
                 (match orl with
                  | Some ol -> (IJumpIf (t, false, ol)) :: ((IGoto al) :: [])
                  | None -> app ((IJumpIf (t, true, al)) :: []) deliver)
               | None ->
                 (match orl with
                  | Some ol -> app ((IJumpIf (t, false, ol)) :: []) deliver
                  | None -> deliver))), n1)))
   | None ->
     (match orl with
      | Some _ ->
        (match m with
         | MVal ->
           let p = (((IIsTrue (n0, r)) :: []), n0) in
           let n1 = S n0 in
           let (tst, t) = p in
           ((app tst
              (match andl with
               | Some al ->
                 (match orl with
                  | Some ol -> (IJumpIf (t, false, ol)) :: ((IGoto al) :: [])
                  | None -> app ((IJumpIf (t, true, al)) :: []) deliver)
               | None ->
                 (match orl with
                  | Some ol -> app ((IJumpIf (t, false, ol)) :: []) deliver
                  | None -> deliver))), n1)
         | MBool ->
           (match r with
            | OTemp t ->
              let p = ([], t) in
              let (tst, t0) = p in
              ((app tst
                 (match andl with
                  | Some al ->
                    (match orl with
                     | Some ol ->
                       (IJumpIf (t0, false, ol)) :: ((IGoto al) :: [])
                     | None -> app ((IJumpIf (t0, true, al)) :: []) deliver)
                  | None ->
                    (match orl with
                     | Some ol ->
                       app ((IJumpIf (t0, false, ol)) :: []) deliver
                     | None -> deliver))), n0)
            | _ ->
              let p = (((IIsTrue (n0, r)) :: []), n0) in
              let n1 = S n0 in
              let (tst, t) = p in
              ((app tst
                 (match andl with
                  | Some al ->
                    (match orl with
                     | Some ol ->
                       (IJumpIf (t, false, ol)) :: ((IGoto al) :: [])
                     | None -> app ((IJumpIf (t, true, al)) :: []) deliver)
                  | None ->
                    (match orl with
                     | Some ol -> app ((IJumpIf (t, false, ol)) :: []) deliver
                     | None -> deliver))), n1)))
      | None -> (deliver, n0)))

(** val finish : ctx -> gres -> gres **)

let finish c g =
  match c with
  | CVal -> g
  | CBool ->
    let (p, n0) = g in
    let (code, r) = p in
    (((app code ((IIsTrue (n0, r)) :: [])), (OTemp n0)), (S n0))
  | CThread (m, res0, andl, orl, endl) ->
    let (p, n0) = g in
    let (code, r) = p in
    (match m with
     | MVal ->
       let p0 = (code, r) in
       let (code1, r1) = p0 in
       let (tail, n2) = thread_tail m res0 andl orl endl r1 n0 in
       (((app code1 tail), (OTemp res0)), n2)
     | MBool ->
       let p0 = ((app code ((IIsTrue (n0, r)) :: [])), (OTemp n0)) in
       let n1 = S n0 in
       let (code1, r1) = p0 in
       let (tail, n2) = thread_tail m res0 andl orl endl r1 n1 in
       (((app code1 tail), (OTemp res0)), n2))

(** val finish_bool : ctx -> instr list -> nat -> nat -> gres **)

let finish_bool c code t n0 =
  match c with
  | CThread (_, res0, andl, orl, endl) ->
    let (tail, n2) = thread_tail MBool res0 andl orl endl (OTemp t) n0 in
    (((app code tail), (OTemp res0)), n2)
  | _ -> ((code, (OTemp t)), n0)

(** val bsimple : expr -> bool **)

let rec bsimple = function
| EName _ -> true
| ENone -> true
| EOp (o0, es) ->
  (match o0 with
   | OSeq id -> Nat.even id
   | OGetAttr _ ->
     (match es with
      | [] -> false
      | o :: l -> (match l with
                   | [] -> bsimple o
                   | _ :: _ -> false))
   | _ -> false)
| EAnd (_, _) -> true
| EOr (_, _) -> true
| ECond (_, _, _) -> true
| _ -> false

(** val tsimple : expr -> bool **)

let tsimple = function
| EName _ -> true
| ENone -> true
| _ -> false

(** val csimple : flags -> expr -> bool **)

let csimple f e =
  if f.fx_ccsimple then tsimple e else bsimple e

(** val gen_sel :
    (nat -> gres) list -> nat list -> nat -> (instr list * operand list) * nat **)

let rec gen_sel gfs ps n0 =
  match ps with
  | [] -> (([], []), n0)
  | p :: r ->
    let (p0, n1) = nth p gfs (fun n1 -> (([], ONoneC), n1)) n0 in
    let (c1, r1) = p0 in
    let (p1, n2) = gen_sel gfs r n1 in
    let (c2, rs) = p1 in (((app c1 c2), (r1 :: rs)), n2)

(** val lookup : nat -> (nat * operand) list -> operand **)

let rec lookup p = function
| [] -> ONoneC
| p0 :: r -> let (q, o) = p0 in if Nat.eqb q p then o else lookup p r

(** val ccall_code :
    flags -> ctx -> op -> nat -> nat -> (nat -> gres) -> nat -> nat list ->
    (nat -> bool) -> (nat -> gres) list -> nat -> gres **)

let ccall_code f c o nreq ndecl grecv npos names simple gfs n0 =
  match ccmap f.cc_sorted f.fx_cckeep npos ndecl names simple with
  | CMOk (temps0, args) ->
    if Nat.ltb (length args) nreq
    then finish c (([], ONoneC), n0)
    else let inplace = filter (fun p -> negb (memb p temps0)) args in
         if f.fx_ccrecv
         then let (p, n1) = grecv n0 in
              let (c0, r0) = p in
              let (p0, n2) = gen_sel gfs temps0 n1 in
              let (c1, trs) = p0 in
              let (p1, n3) = gen_sel gfs inplace n2 in
              let (c2, irs) = p1 in
              let env = combine (app temps0 inplace) (app trs irs) in
              finish c
                (((app c0
                    (app c1
                      (app c2 ((IOp (n3, o,
                        (r0 :: (map (fun p2 -> lookup p2 env) args)))) :: [])))),
                (OTemp n3)), (S n3))
         else let (p, n1) = gen_sel gfs temps0 n0 in
              let (c1, trs) = p in
              let (p0, n2) = grecv n1 in
              let (c0, r0) = p0 in
              let (p1, n3) = gen_sel gfs inplace n2 in
              let (c2, irs) = p1 in
              let env = combine (app temps0 inplace) (app trs irs) in
              finish c
                (((app c1
                    (app c0
                      (app c2 ((IOp (n3, o,
                        (r0 :: (map (fun p2 -> lookup p2 env) args)))) :: [])))),
                (OTemp n3)), (S n3))
  | _ -> finish c (([], ONoneC), n0)

(** val ccall_rejected :
    flags -> nat -> nat -> nat -> nat list -> (nat -> bool) -> bool **)

let ccall_rejected f nreq ndecl npos names simple =
  match ccmap f.cc_sorted f.fx_cckeep npos ndecl names simple with
  | CMOk (_, args) -> Nat.ltb (length args) nreq
  | _ -> true

(** val gen : flags -> ctx -> expr -> nat -> gres **)

let rec gen f c e n0 =
  let gens0 =
    let rec gens0 es n1 =
      match es with
      | [] -> (([], []), n1)
      | x :: xs ->
        let (p, n2) = gen f CVal x n1 in
        let (c1, r1) = p in
        let (p0, n3) = gens0 xs n2 in
        let (c2, rs) = p0 in (((app c1 c2), (r1 :: rs)), n3)
    in gens0
  in
  let chain =
    let rec chain m r tb endl ra ops es n1 =
      match ops with
      | [] ->
        (match m with
         | MVal -> (((IMove (r, ONoneC)) :: []), n1)
         | MBool ->
           (((IMove (r, ONoneC)) :: ((IIsTrue (tb, ONoneC)) :: [])), n1))
      | o :: ops' ->
        (match es with
         | [] ->
           (match m with
            | MVal -> (((IMove (r, ONoneC)) :: []), n1)
            | MBool ->
              (((IMove (r, ONoneC)) :: ((IIsTrue (tb, ONoneC)) :: [])), n1))
         | b :: es' ->
           let (p, n2) = gen f CVal b n1 in
           let (cb, rb) = p in
           let cmp = app cb ((IOp (r, o, (ra :: (rb :: [])))) :: []) in
           (match ops' with
            | [] ->
              (match m with
               | MVal -> (cmp, n2)
               | MBool -> ((app cmp ((IIsTrue (tb, (OTemp r))) :: [])), n2))
            | _ :: _ ->
              (match es' with
               | [] ->
                 (match m with
                  | MVal -> (cmp, n2)
                  | MBool -> ((app cmp ((IIsTrue (tb, (OTemp r))) :: [])), n2))
               | _ :: _ ->
                 let (cc, n3) = chain m r tb endl rb ops' es' n2 in
                 ((app cmp
                    (app ((IIsTrue (tb, (OTemp r))) :: ((IJumpIf (tb, false,
                      endl)) :: [])) cc)), n3))))
    in chain
  in
  (match e with
   | ELeaf (kind, k) ->
     finish c ((((ILeaf (n0, kind, k)) :: []), (OTemp n0)), (S n0))
   | EName x -> finish c (([], (OVar x)), n0)
   | ENone -> finish c (([], ONoneC), n0)
   | EOp (o, es) ->
     let (p, n1) = gens0 es n0 in
     let (code, rs) = p in
     finish c (((app code ((IOp (n1, o, rs)) :: [])), (OTemp n1)), (S n1))
   | ENot a ->
     let (p, n1) = gen f CBool a n0 in
     let (ca, ra) = p in
     let t = match ra with
             | OTemp t -> t
             | _ -> O in
     finish_bool c (app ca ((INot (n1, t)) :: [])) n1 (S n1)
   | EAnd (a, b) ->
     (match c with
      | CThread (m, res0, andl, orl, endl) ->
        let (p, n1) = gen f (CThread (m, res0, (Some n0), orl, endl)) a (S n0)
        in
        let (ca, _) = p in
        let (p0, n2) = gen f (CThread (m, res0, andl, orl, endl)) b n1 in
        let (cb, _) = p0 in
        (((app ca (app ((ILabel n0) :: []) cb)), (OTemp res0)), n2)
      | _ ->
        let m = mode_of c in
        let endl = S n0 in
        let my = S (S n0) in
        let (p, n1) =
          gen f (CThread (m, n0, (Some my), None, endl)) a (S (S (S n0)))
        in
        let (ca, _) = p in
        let (p0, n2) = gen f (CThread (m, n0, None, None, endl)) b n1 in
        let (cb, _) = p0 in
        (((app ca (app ((ILabel my) :: []) (app cb ((ILabel endl) :: [])))),
        (OTemp n0)), n2))
   | EOr (a, b) ->
     (match c with
      | CThread (m, res0, andl, orl, endl) ->
        let (p, n1) =
          gen f (CThread (m, res0, andl, (Some n0), endl)) a (S n0)
        in
        let (ca, _) = p in
        let (p0, n2) = gen f (CThread (m, res0, andl, orl, endl)) b n1 in
        let (cb, _) = p0 in
        (((app ca (app ((ILabel n0) :: []) cb)), (OTemp res0)), n2)
      | _ ->
        let m = mode_of c in
        let endl = S n0 in
        let my = S (S n0) in
        let (p, n1) =
          gen f (CThread (m, n0, None, (Some my), endl)) a (S (S (S n0)))
        in
        let (ca, _) = p in
        let (p0, n2) = gen f (CThread (m, n0, None, None, endl)) b n1 in
        let (cb, _) = p0 in
        (((app ca (app ((ILabel my) :: []) (app cb ((ILabel endl) :: [])))),
        (OTemp n0)), n2))
   | ECond (cnd, a, b) ->
     let lelse = S n0 in
     let lend = S (S n0) in
     let (p, n1) = gen f CBool cnd (S (S (S n0))) in
     let (cc, rc) = p in
     let t = match rc with
             | OTemp t -> t
             | _ -> O in
     let (p0, n2) = gen f CVal a n1 in
     let (ca, ra) = p0 in
     let (p1, n3) = gen f CVal b n2 in
     let (cb, rb) = p1 in
     finish c
       (((app cc
           (app ((IJumpIf (t, false, lelse)) :: [])
             (app ca
               (app ((IMove (n0, ra)) :: ((IGoto lend) :: ((ILabel
                 lelse) :: [])))
                 (app cb ((IMove (n0, rb)) :: ((ILabel lend) :: []))))))),
       (OTemp n0)), n3)
   | ECmp (a, ops, rest) ->
     let tb = S n0 in
     let endl = S (S n0) in
     let (p, n1) = gen f CVal a (S (S (S n0))) in
     let (ca, ra) = p in
     let m = mode_of c in
     let (cc, n2) = chain m n0 tb endl ra ops rest n1 in
     let code = app ca (app cc ((ILabel endl) :: [])) in
     (match m with
      | MVal -> finish c ((code, (OTemp n0)), n2)
      | MBool -> finish_bool c code tb n2)
   | EMCall (mname, o, obj, args) ->
     let (p, n1) = gen f CVal obj n0 in
     let (co, ro) = p in
     if f.fx_mcall
     then let (p0, n2) = gens0 args (S n1) in
          let (ca, rs) = p0 in
          finish c
            (((app co
                (app ((IOp (n1, (OGetAttr mname), (ro :: []))) :: [])
                  (app ca ((IOp (n2, o, ((OTemp n1) :: rs))) :: [])))),
            (OTemp n2)), (S n2))
     else let (p0, n2) = gens0 args n1 in
          let (ca, rs) = p0 in
          finish c
            (((app co
                (app ca ((IOp (n2, (OGetAttr mname), (ro :: []))) :: ((IOp
                  ((S n2), o, ((OTemp n2) :: rs))) :: [])))), (OTemp (S
            n2))), (S (S n2)))
   | EMinMax (o, args) ->
     let scan =
       let rec scan best tb rs l =
         match rs with
         | [] -> ([], l)
         | r :: rs' ->
           let (cc, l') = scan best tb rs' (S l) in
           ((app ((IOp (tb, o, (r :: ((OTemp best) :: [])))) :: ((IIsTrue
              (tb, (OTemp tb))) :: ((IJumpIf (tb, false, l)) :: ((IMove
              (best, r)) :: ((ILabel l) :: []))))) cc), l')
       in scan
     in
     (match args with
      | [] -> finish c (([], ONoneC), n0)
      | a0 :: rest ->
        let tb = S n0 in
        if f.fx_minmax
        then let (p, n1) = gen f CVal a0 (S (S n0)) in
             let (c0, r0) = p in
             let (p0, n2) = gens0 rest n1 in
             let (cr, rs) = p0 in
             let (cs, n3) = scan n0 tb rs n2 in
             finish c (((app c0 (app cr (app ((IMove (n0, r0)) :: []) cs))),
               (OTemp n0)), n3)
        else let (p, n1) = gens0 rest (S (S n0)) in
             let (cr, rs) = p in
             let (p0, n2) = gen f CVal a0 n1 in
             let (c0, r0) = p0 in
             let (cs, n3) = scan n0 tb rs n2 in
             finish c (((app cr (app c0 (app ((IMove (n0, r0)) :: []) cs))),
               (OTemp n0)), n3))
   | ECCall (o, nreq, ndecl, recv, npos, names, es) ->
     let gfs =
       let rec go = function
       | [] -> []
       | x :: xs -> (gen f CVal x) :: (go xs)
       in go es
     in
     ccall_code f c o nreq ndecl (gen f CVal recv) npos names (fun p ->
       csimple f (nth p es ENone)) gfs n0)

(** val gens :
    flags -> expr list -> nat -> (instr list * operand list) * nat **)

let rec gens f es n0 =
  match es with
  | [] -> (([], []), n0)
  | x :: xs ->
    let (p, n1) = gen f CVal x n0 in
    let (c1, r1) = p in
    let (p0, n2) = gens f xs n1 in
    let (c2, rs) = p0 in (((app c1 c2), (r1 :: rs)), n2)

(** val gen_store1 :
    flags -> starget -> operand -> nat -> instr list * nat **)

let gen_store1 f t v n0 =
  match t with
  | TName x -> (((IStore (x, v)) :: []), n0)
  | TStore (o, es) ->
    let (p, n1) = gens f es n0 in
    let (code, rs) = p in
    ((app code ((IOp (n1, o, (app rs (v :: [])))) :: [])), (S n1))

(** val gen_store_items :
    flags -> starget list -> nat -> nat -> instr list * nat **)

let rec gen_store_items f ts t0 n0 =
  match ts with
  | [] -> ([], n0)
  | t :: ts' ->
    let (c1, n1) = gen_store1 f t (OTemp t0) n0 in
    let (c2, n2) = gen_store_items f ts' (S t0) n1 in ((app c1 c2), n2)

(** val gen_store : flags -> target -> operand -> nat -> instr list * nat **)

let gen_store f t v n0 =
  match t with
  | TS t1 -> gen_store1 f t1 v n0
  | TTup ts ->
    let k = length ts in
    let (c, n1) = gen_store_items f ts n0 (add n0 k) in
    (((IUnpack (n0, k, v)) :: c), n1)

(** val gen_stores :
    flags -> target list -> operand -> nat -> instr list * nat **)

let rec gen_stores f ts v n0 =
  match ts with
  | [] -> ([], n0)
  | t :: ts' ->
    let (c1, n1) = gen_store f t v n0 in
    let (c2, n2) = gen_stores f ts' v n1 in ((app c1 c2), n2)

(** val is_tup : target -> bool **)

let is_tup = function
| TS _ -> false
| TTup _ -> true

(** val plain_targets : target list -> starget list **)

let rec plain_targets = function
| [] -> []
| t0 :: r ->
  (match t0 with
   | TS t -> t :: (plain_targets r)
   | TTup _ -> plain_targets r)

(** val tuple_targets : target list -> starget list list **)

let rec tuple_targets = function
| [] -> []
| t :: r ->
  (match t with
   | TS _ -> tuple_targets r
   | TTup l -> l :: (tuple_targets r))

(** val gen_store_same :
    flags -> starget list -> operand -> nat -> instr list * nat **)

let rec gen_store_same f ts v n0 =
  match ts with
  | [] -> ([], n0)
  | t :: ts' ->
    let (c1, n1) = gen_store1 f t v n0 in
    let (c2, n2) = gen_store_same f ts' v n1 in ((app c1 c2), n2)

(** val gen_columns :
    flags -> starget list list -> operand list -> nat -> instr list * nat **)

let rec gen_columns f cols rs n0 =
  match rs with
  | [] -> ([], n0)
  | r :: rs' ->
    let (c1, n1) =
      gen_store_same f
        (flat_map (fun l -> match l with
                            | [] -> []
                            | t :: _ -> t :: []) cols) r n0
    in
    let (c2, n2) = gen_columns f (map tl cols) rs' n1 in ((app c1 c2), n2)

(** val to_temps :
    operand list -> nat -> (instr list * operand list) * nat **)

let rec to_temps rs n0 =
  match rs with
  | [] -> (([], []), n0)
  | r :: rs' ->
    let (p, n1) = to_temps rs' (S n0) in
    let (c, ts) = p in ((((IMove (n0, r)) :: c), ((OTemp n0) :: ts)), n1)

(** val display_items : expr -> (op * expr list) option **)

let display_items = function
| EOp (o, es) -> (match o with
                  | OSeq id -> Some ((OSeq id), es)
                  | _ -> None)
| _ -> None

(** val flattens : target list -> expr -> (op * expr list) option **)

let flattens ts rhs =
  match display_items rhs with
  | Some p ->
    let (o, es) = p in
    if (&&) (existsb is_tup ts)
         (forallb (fun l -> Nat.eqb (length l) (length es))
           (tuple_targets ts))
    then Some (o, es)
    else None
  | None -> None

type rexpr =
| RVar of nat
| RTemp of nat
| RAttr of nat * rexpr
| RSub of rexpr * rexpr

(** val gen_rexpr : rexpr -> nat -> (instr list * operand) * nat **)

let rec gen_rexpr r n0 =
  match r with
  | RVar x -> (([], (OVar x)), n0)
  | RTemp t -> (([], (OTemp t)), n0)
  | RAttr (a, r1) ->
    let (p, n1) = gen_rexpr r1 n0 in
    let (c, o) = p in
    (((app c ((IOp (n1, (OGetAttr a), (o :: []))) :: [])), (OTemp n1)), (S
    n1))
  | RSub (b, i) ->
    let (p, n1) = gen_rexpr b n0 in
    let (c1, o1) = p in
    let (p0, n2) = gen_rexpr i n1 in
    let (c2, o2) = p0 in
    (((app c1 (app c2 ((IOp (n2, OGetItem, (o1 :: (o2 :: [])))) :: []))),
    (OTemp n2)), (S n2))

(** val let_temp : flags -> expr -> nat -> (instr list * rexpr) * nat **)

let let_temp f e n0 =
  let (p, n1) = gen f CVal e n0 in
  let (c, r) = p in
  (match r with
   | OTemp t -> ((c, (RTemp t)), n1)
   | _ -> (((app c ((IMove (n1, r)) :: [])), (RTemp n1)), (S n1)))

(** val sefr : flags -> bool -> expr -> nat -> (instr list * rexpr) * nat **)

let rec sefr f setting e n0 =
  match e with
  | EName x -> (([], (RVar x)), n0)
  | EOp (o0, es) ->
    (match o0 with
     | OGetItem ->
       (match es with
        | [] -> let_temp f e n0
        | b :: l ->
          (match l with
           | [] -> let_temp f e n0
           | i :: l0 ->
             (match l0 with
              | [] ->
                if setting
                then let (p, n1) = sefr f false b n0 in
                     let (c1, rb) = p in
                     let (p0, n2) = let_temp f i n1 in
                     let (c2, ri) = p0 in (((app c1 c2), (RSub (rb, ri))), n2)
                else let_temp f e n0
              | _ :: _ -> let_temp f e n0)))
     | OGetAttr a ->
       (match es with
        | [] -> let_temp f e n0
        | o :: l ->
          (match l with
           | [] ->
             if setting
             then let (p, n1) = sefr f (negb f.fx_inplace) o n0 in
                  let (c1, ro) = p in ((c1, (RAttr (a, ro))), n1)
             else let_temp f e n0
           | _ :: _ -> let_temp f e n0))
     | _ -> let_temp f e n0)
  | _ -> let_temp f e n0

(** val gen_stmt : flags -> stmt -> nat -> instr list * nat **)

let gen_stmt f s n0 =
  match s with
  | SAssign (ts, rhs) ->
    (match if f.fx_cascade then None else flattens ts rhs with
     | Some p ->
       let (o, es) = p in
       let (p0, n1) = gens f es n0 in
       let (c1, rs) = p0 in
       let (p1, n2) = to_temps rs n1 in
       let (c2, tsr) = p1 in
       let plain = plain_targets ts in
       (match plain with
        | [] ->
          let c3 = [] in
          let (c4, n4) = gen_columns f (tuple_targets ts) tsr n2 in
          ((app c1 (app c2 (app c3 c4))), n4)
        | _ :: _ ->
          let (c, n') = gen_store_same f plain (OTemp n2) (S n2) in
          let c3 = (IOp (n2, o, tsr)) :: c in
          let (c4, n4) = gen_columns f (tuple_targets ts) tsr n' in
          ((app c1 (app c2 (app c3 c4))), n4))
     | None ->
       let (p, n1) = gen f CVal rhs n0 in
       let (c1, r) = p in
       let (c2, n2) = gen_stores f ts r n1 in ((app c1 c2), n2))
  | SAug (lhs, iop, rhs) ->
    (match lhs with
     | EName x ->
       let (p, n1) = gen f CVal rhs n0 in
       let (c1, r) = p in
       ((app c1 ((IOp (n1, iop, ((OVar x) :: (r :: [])))) :: ((IStore (x,
          (OTemp n1))) :: []))), (S n1))
     | EOp (o, es) ->
       (match o with
        | OGetItem ->
          (match es with
           | [] -> ([], n0)
           | _ :: l ->
             (match l with
              | [] -> ([], n0)
              | _ :: l0 ->
                (match l0 with
                 | [] ->
                   let (p, n1) = sefr f true lhs n0 in
                   let (c0, lhs') = p in
                   let (p0, n2) = gen_rexpr lhs' n1 in
                   let (c1, cur) = p0 in
                   let (p1, n3) = gen f CVal rhs n2 in
                   let (c2, r) = p1 in
                   (match lhs' with
                    | RAttr (a, o0) ->
                      let (p2, n4) = gen_rexpr o0 (S n3) in
                      let (c3, oo) = p2 in
                      ((app c0
                         (app c1
                           (app c2
                             (app ((IOp (n3, iop, (cur :: (r :: [])))) :: [])
                               (app c3 ((IOp (n4, (OSetAttr a),
                                 (oo :: ((OTemp n3) :: [])))) :: [])))))), (S
                      n4))
                    | RSub (b, i) ->
                      let (p2, n4) = gen_rexpr b (S n3) in
                      let (c3, ob) = p2 in
                      let (p3, n5) = gen_rexpr i n4 in
                      let (c4, oi) = p3 in
                      ((app c0
                         (app c1
                           (app c2
                             (app ((IOp (n3, iop, (cur :: (r :: [])))) :: [])
                               (app c3
                                 (app c4 ((IOp (n5, OSetItem,
                                   (ob :: (oi :: ((OTemp
                                   n3) :: []))))) :: []))))))), (S n5))
                    | _ -> ([], n0))
                 | _ :: _ -> ([], n0))))
        | OGetAttr _ ->
          (match es with
           | [] -> ([], n0)
           | _ :: l ->
             (match l with
              | [] ->
                let (p, n1) = sefr f true lhs n0 in
                let (c0, lhs') = p in
                let (p0, n2) = gen_rexpr lhs' n1 in
                let (c1, cur) = p0 in
                let (p1, n3) = gen f CVal rhs n2 in
                let (c2, r) = p1 in
                (match lhs' with
                 | RAttr (a, o0) ->
                   let (p2, n4) = gen_rexpr o0 (S n3) in
                   let (c3, oo) = p2 in
                   ((app c0
                      (app c1
                        (app c2
                          (app ((IOp (n3, iop, (cur :: (r :: [])))) :: [])
                            (app c3 ((IOp (n4, (OSetAttr a), (oo :: ((OTemp
                              n3) :: [])))) :: [])))))), (S n4))
                 | RSub (b, i) ->
                   let (p2, n4) = gen_rexpr b (S n3) in
                   let (c3, ob) = p2 in
                   let (p3, n5) = gen_rexpr i n4 in
                   let (c4, oi) = p3 in
                   ((app c0
                      (app c1
                        (app c2
                          (app ((IOp (n3, iop, (cur :: (r :: [])))) :: [])
                            (app c3
                              (app c4 ((IOp (n5, OSetItem,
                                (ob :: (oi :: ((OTemp n3) :: []))))) :: []))))))),
                   (S n5))
                 | _ -> ([], n0))
              | _ :: _ -> ([], n0)))
        | _ -> ([], n0))
     | _ -> ([], n0))
  | SDel (o, es) ->
    let (p, n1) = gens f es n0 in
    let (code, rs) = p in ((app code ((IOp (n1, o, rs)) :: [])), (S n1))

(** val rejected : flags -> expr -> bool **)

let rec rejected f e =
  let any =
    let rec any = function
    | [] -> false
    | x :: xs -> (||) (rejected f x) (any xs)
    in any
  in
  (match e with
   | EOp (_, es) -> any es
   | ENot a -> rejected f a
   | EAnd (a, b) -> (||) (rejected f a) (rejected f b)
   | EOr (a, b) -> (||) (rejected f a) (rejected f b)
   | ECond (c, a, b) ->
     (||) ((||) (rejected f c) (rejected f a)) (rejected f b)
   | ECmp (a, _, rest) -> (||) (rejected f a) (any rest)
   | EMCall (_, _, obj, args) -> (||) (rejected f obj) (any args)
   | EMinMax (_, args) -> any args
   | ECCall (_, nreq, ndecl, recv, npos, names, es) ->
     (||) ((||) (rejected f recv) (any es))
       (ccall_rejected f nreq ndecl npos names (fun p ->
         csimple f (nth p es ENone)))
   | _ -> false)

(** val vtruth : val0 -> bool **)

let rec vtruth = function
| VNone -> false
| VBool b -> b
| VLeaf (kind, _) ->
  negb ((||) (Nat.eqb kind (S O)) (Nat.eqb kind (S (S (S (S (S O)))))))
| VItem (i, _) -> negb (Nat.eqb i (S O))
| VOp (o, args) ->
  (match o with
   | OSeq _ -> (match args with
                | [] -> false
                | _ :: _ -> true)
   | OGetSlice -> (match args with
                   | [] -> true
                   | a :: _ -> vtruth a)
   | _ -> fold_right (fun a t -> xorb (vtruth a) t) true args)

(** val is_logging : val0 -> bool **)

let is_logging = function
| VLeaf (kind, _) -> Nat.ltb kind (S (S O))
| VItem (_, v0) ->
  (match v0 with
   | VLeaf (kind, _) ->
     (match kind with
      | O -> true
      | S n0 ->
        (match n0 with
         | O -> true
         | S n1 ->
           (match n1 with
            | O -> true
            | S n2 -> (match n2 with
                       | O -> false
                       | S _ -> true))))
   | _ -> true)
| VOp (o, _) -> (match o with
                 | OSeq _ -> false
                 | _ -> true)
| _ -> false

(** val std_truth : val0 -> bool * event list **)

let std_truth v =
  ((vtruth v), (if is_logging v then (EvBool v) :: [] else []))

(** val std_op : op -> val0 list -> val0 * event list **)

let std_op o args =
  match o with
  | OSeq _ -> ((VOp (o, args)), [])
  | OIn neg ->
    (match args with
     | [] -> (VNone, [])
     | a :: l ->
       (match l with
        | [] -> (VNone, [])
        | b :: l0 ->
          (match l0 with
           | [] ->
             let r = VOp ((OIn false), (b :: (a :: []))) in
             ((VBool (xorb neg (vtruth r))), ((EvOp ((OIn false),
             (b :: (a :: [])))) :: ((EvBool r) :: [])))
           | _ :: _ -> (VNone, []))))
  | _ -> ((VOp (o, args)), ((EvOp (o, args)) :: []))

(** val items_from : val0 -> nat -> nat -> val0 list **)

let rec items_from v i = function
| O -> []
| S n' -> (VItem (i, v)) :: (items_from v (S i) n')

(** val std_unpack : nat -> val0 -> val0 list * event list **)

let std_unpack n0 v = match v with
| VLeaf (kind, _) ->
  (match kind with
   | O -> ((items_from v O n0), ((EvIter v) :: []))
   | S n1 ->
     (match n1 with
      | O -> ((items_from v O n0), ((EvIter v) :: []))
      | S n2 ->
        (match n2 with
         | O -> ((items_from v O n0), [])
         | S _ -> ((items_from v O n0), ((EvIter v) :: [])))))
| VOp (o, args) ->
  (match o with
   | OSeq _ -> (args, [])
   | _ -> ((items_from v O n0), ((EvIter v) :: [])))
| _ -> ((items_from v O n0), ((EvIter v) :: []))

(** val std_sem : sem **)

let std_sem =
  { leafsem = (fun kind k -> ((VLeaf (kind, k)), ((EvLeaf k) :: [])));
    opsem = std_op; truthsem = std_truth; unpacksem = std_unpack }

(** val init_vars : nat -> val0 **)

let init_vars x = match x with
| O -> VLeaf ((add (S (S (S (S O)))) x), O)
| S n0 ->
  (match n0 with
   | O -> VLeaf ((add (S (S (S (S O)))) x), O)
   | S n1 ->
     (match n1 with
      | O -> VLeaf ((add (S (S (S (S O)))) x), O)
      | S n2 ->
        (match n2 with
         | O -> VNone
         | S _ -> VLeaf ((add (S (S (S (S O)))) x), O))))

(** val init_state : state **)

let init_state =
  { temps = (fun _ -> VNone); mvars = init_vars; trace = []; leaflog = [] }

(** val run_stmt : flags -> stmt -> state * rmode **)

let run_stmt f s =
  let (c, _) = gen_stmt f s O in run std_sem c init_state Normal

(** val ref_run : stmt -> sres **)

let ref_run s =
  ref_stmt std_sem init_vars s

(** val mk_flags8 :
    bool -> bool -> bool -> bool -> bool -> bool -> bool -> bool -> flags **)

let mk_flags8 a b c d e f g h =
  { fx_minmax = a; fx_mcall = b; fx_inplace = c; fx_cascade = d;
    fx_ccsimple = e; fx_cckeep = f; fx_ccrecv = g; cc_sorted = h }

(** val mk_flags : bool -> bool -> bool -> bool -> flags **)

let mk_flags a b c d =
  mk_flags8 a b c d true true true true

(** val starget_rejected : flags -> starget -> bool **)

let starget_rejected f = function
| TName _ -> false
| TStore (_, es) -> existsb (rejected f) es

(** val stmt_rejected : flags -> stmt -> bool **)

let stmt_rejected f = function
| SAssign (ts, rhs) ->
  (||) (rejected f rhs)
    (existsb (fun t ->
      match t with
      | TS t1 -> starget_rejected f t1
      | TTup l -> existsb (starget_rejected f) l) ts)
| SAug (lhs, _, rhs) -> (||) (rejected f lhs) (rejected f rhs)
| SDel (_, es) -> existsb (rejected f) es
