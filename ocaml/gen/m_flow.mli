
val negb : bool -> bool

type nat =
| O
| S of nat

val fst : ('a1 * 'a2) -> 'a1

val snd : ('a1 * 'a2) -> 'a2

val length : 'a1 list -> nat

val app : 'a1 list -> 'a1 list -> 'a1 list

val add : nat -> nat -> nat

val mul : nat -> nat -> nat

val sub : nat -> nat -> nat

type positive =
| XI of positive
| XO of positive
| XH

type n =
| N0
| Npos of positive

type z =
| Z0
| Zpos of positive
| Zneg of positive

module Nat :
 sig
  val eqb : nat -> nat -> bool

  val leb : nat -> nat -> bool

  val ltb : nat -> nat -> bool
 end

module Pos :
 sig
  val succ : positive -> positive

  val iter : ('a1 -> 'a1) -> 'a1 -> positive -> 'a1

  val eqb : positive -> positive -> bool

  val coq_Nsucc_double : n -> n

  val coq_Ndouble : n -> n

  val coq_lor : positive -> positive -> positive

  val coq_land : positive -> positive -> n

  val ldiff : positive -> positive -> n

  val shiftl : positive -> n -> positive

  val of_succ_nat : nat -> positive
 end

module N :
 sig
  val eqb : n -> n -> bool

  val coq_lor : n -> n -> n

  val coq_land : n -> n -> n

  val ldiff : n -> n -> n

  val shiftl : n -> n -> n

  val of_nat : nat -> n
 end

val tl : 'a1 list -> 'a1 list

val nth : nat -> 'a1 list -> 'a1 -> 'a1

val rev : 'a1 list -> 'a1 list

val concat : 'a1 list list -> 'a1 list

val map : ('a1 -> 'a2) -> 'a1 list -> 'a2 list

val fold_left : ('a1 -> 'a2 -> 'a1) -> 'a2 list -> 'a1 -> 'a1

val existsb : ('a1 -> bool) -> 'a1 list -> bool

val forallb : ('a1 -> bool) -> 'a1 list -> bool

val filter : ('a1 -> bool) -> 'a1 list -> 'a1 list

val combine : 'a1 list -> 'a2 list -> ('a1 * 'a2) list

val seq : nat -> nat -> nat list

val repeat : 'a1 -> nat -> 'a1 list

val ex_keep : (((((nat * n) * z) * z list) * z option) * positive) * bool

type rblock = { r_parents : nat list; r_gen : n; r_kill : n }

val getN : n list -> nat -> n

val set_nth : nat -> n -> n list -> n list

val or_parents : n list -> nat list -> n

val transfer : rblock -> n -> n

val rd_pass :
  (nat * rblock) list -> n list -> n list -> bool -> (n list * n list) * bool

val rd_loop :
  nat -> (nat * rblock) list -> n list -> n list -> (n list * n list) option

val todo_of : rblock list -> (nat * rblock) list

val init_outs : rblock list -> n list

val init_ins : rblock list -> n list

val rd_fuel : nat -> rblock list -> nat

val reaching_definitions : nat -> rblock list -> (n list * n list) option

type stat =
| SAssign of nat
| SDel of nat
| SRef of nat

val stat_entry : stat -> nat

val is_def : stat -> bool

type block = { b_parents : nat list; b_stats : stat list; b_bounded : nat list }

type cfg = { c_ne : nat; c_closure : bool list; c_static : bool list;
             c_blocks : block list }

val bitN : nat -> n

val number_stats : nat -> stat list -> (stat * nat) list * nat

val number_blocks : nat -> block list -> (stat * nat) list list * nat

val numbered : cfg -> (stat * nat) list list * nat

val mask_of : (stat * nat) list -> nat -> n

val dict_set :
  nat -> nat option -> (nat * nat option) list -> (nat * nat option) list

val gen_dict :
  (stat * nat) list -> (nat * nat option) list -> (nat * nat option) list

val gen_bits : (nat * nat option) list -> n

val kill_bits : (nat -> n) -> (nat * nat option) list -> nat list -> n

val all_uninit : nat -> n

val initialize : cfg -> rblock list

type cls =
| DefNull
| MaybeNull
| Bound

val classify : bool -> bool -> bool -> bool -> cls

val has_uninit : n -> nat -> bool

val has_other : (nat -> n) -> n -> nat -> bool

val stat_step : (nat -> n) -> n -> (stat * nat) -> n

val walk : cfg -> (nat -> n) -> n -> (stat * nat) list -> cls list

type result = { res_masks : n list; res_bits : nat list list;
                res_raw : rblock list; res_in : n list; res_out : n list;
                res_cls : cls list list }

val analyse : cfg -> result option

type nref = nat * nat

type stmt =
| Skip
| Call
| Ref of nat * nat
| Asg of nat * nat
| Del of nat * nat * bool
| Seq of stmt * stmt
| If of nref list * stmt * bool * stmt
| Loop of bool * nref list * nref list * stmt * bool * stmt
| Try of stmt * bool * stmt * handlers
| TryFin of stmt * stmt * stmt
| Break
| Continue
| Return
| Raise
and handlers =
| HNil
| HCons of bool * nat * nat * stmt * handlers

type lstat =
| LRef of nat * nat
| LAsg of nat * nat
| LDel of nat * nat

type excd = { x_entry : nat; x_fin : (nat * (nat * nat) option) option }

type loopd = { l_next : nat; l_loop : nat; l_excs : excd list }

type bst = { nb : nat; sts : (nat * lstat) list;
             eds : ((nat * nat) * nat) list; cur : nat option;
             loops : loopd list; excs : excd list }

val set_cur : nat option -> bst -> bst

val set_loops : loopd list -> bst -> bst

val set_excs : excd list -> bst -> bst

val len : bst -> nat -> nat

val add_edge_k : nat -> nat -> nat -> bst -> bst

val add_edge : nat -> nat -> bst -> bst

val add_edge_o : nat option -> nat -> bst -> bst

val link_cur : nat -> bst -> bst

val newblock : bst -> bst

val nextblock_from : nat option -> bst -> bst

val nextblock : bst -> bst

val append : lstat -> bst -> bst

val exc_edge : bst -> bst

val v_ref : nat -> nat -> bst -> bst

val v_asg : nat -> nat -> bst -> bst

val v_del : nat -> nat -> bool -> bst -> bst

val refs : nref list -> bst -> bst

val asgs : nref list -> bst -> bst

val has_parents : nat -> bst -> bool

val cur_if_parents : nat -> bst -> bst

val push_loop : loopd -> bst -> bst

val pop_loop : bst -> bst

val push_exc : excd -> bst -> bst

val pop_exc : bst -> bst

val push_loop_exc : excd -> bst -> bst

val pop_loop_exc : bst -> bst

val chain_edges : nat -> nat -> excd list -> nat -> bst -> bst

val jump_loop_asis : nat -> nat -> excd list -> nat -> bst -> bst

val first_fin : excd list -> ((nat * (nat * nat) option) * excd list) option

val jump_ret_asis : nat -> nat -> excd list -> bst -> bst

val v_break : bool -> bool -> bst -> bst

val v_return : bool -> bst -> bst

val v_raise : bst -> bst

val visit : bool -> stmt -> bst -> bst

val visit_h : bool -> handlers -> nat -> nat -> bst -> nat * bst

val st_init : nref list -> bst

val build : bool -> nref list -> stmt -> bst

val block_stats : bst -> nat -> lstat list

val edges_at_end : bst -> bool

val entry_of : lstat -> nat

val graph_ok : nat -> bst -> bool

val reach_step : bst -> nat list -> nat list

val reach_iter : nat -> bst -> nat list -> nat list

val closed_b : bst -> nat list -> bool

val reachable : bst -> nat -> bool

val to_stat : lstat -> stat

val cfg_of : nat -> bst -> cfg

val cls_at : nat -> bst -> result -> nat -> nat -> cls option

val wf : bool -> stmt -> bool

val wf_h : bool -> handlers -> bool

val run_cfg : bool -> nat -> nref list -> stmt -> bst * result option
