
(** val negb : bool -> bool **)

let negb = function
| true -> false
| false -> true

type nat =
| O
| S of nat

(** val fst : ('a1 * 'a2) -> 'a1 **)

let fst = function
| (x, _) -> x

(** val snd : ('a1 * 'a2) -> 'a2 **)

let snd = function
| (_, y) -> y

(** val length : 'a1 list -> nat **)

let rec length = function
| [] -> O
| _ :: l' -> S (length l')

(** val app : 'a1 list -> 'a1 list -> 'a1 list **)

let rec app l m =
  match l with
  | [] -> m
  | a :: l1 -> a :: (app l1 m)

type comparison =
| Eq
| Lt
| Gt

(** val compOpp : comparison -> comparison **)

let compOpp = function
| Eq -> Eq
| Lt -> Gt
| Gt -> Lt

module Coq__1 = struct
 (** val add : nat -> nat -> nat **)
 let rec add n0 m =
   match n0 with
   | O -> m
   | S p -> S (add p m)
end
include Coq__1

type positive =
| XI of positive
| XO of positive
| XH

type n =
| N0
| Npos of positive

type z =
| Z0
| Zpos of positive
| Zneg of positive

module Nat =
 struct
  (** val eqb : nat -> nat -> bool **)

  let rec eqb n0 m =
    match n0 with
    | O -> (match m with
            | O -> true
            | S _ -> false)
    | S n' -> (match m with
               | O -> false
               | S m' -> eqb n' m')
 end

module Pos =
 struct
  (** val succ : positive -> positive **)

  let rec succ = function
  | XI p -> XO (succ p)
  | XO p -> XI p
  | XH -> XO XH

  (** val add : positive -> positive -> positive **)

  let rec add x y =
    match x with
    | XI p ->
      (match y with
       | XI q -> XO (add_carry p q)
       | XO q -> XI (add p q)
       | XH -> XO (succ p))
    | XO p ->
      (match y with
       | XI q -> XI (add p q)
       | XO q -> XO (add p q)
       | XH -> XI p)
    | XH -> (match y with
             | XI q -> XO (succ q)
             | XO q -> XI q
             | XH -> XO XH)

  (** val add_carry : positive -> positive -> positive **)

  and add_carry x y =
    match x with
    | XI p ->
      (match y with
       | XI q -> XI (add_carry p q)
       | XO q -> XO (add_carry p q)
       | XH -> XI (succ p))
    | XO p ->
      (match y with
       | XI q -> XO (add_carry p q)
       | XO q -> XI (add p q)
       | XH -> XO (succ p))
    | XH ->
      (match y with
       | XI q -> XI (succ q)
       | XO q -> XO (succ q)
       | XH -> XI XH)

  (** val pred_double : positive -> positive **)

  let rec pred_double = function
  | XI p -> XI (XO p)
  | XO p -> XI (pred_double p)
  | XH -> XH

  (** val pred_N : positive -> n **)

  let pred_N = function
  | XI p -> Npos (XO p)
  | XO p -> Npos (pred_double p)
  | XH -> N0

  (** val mul : positive -> positive -> positive **)

  let rec mul x y =
    match x with
    | XI p -> add y (XO (mul p y))
    | XO p -> XO (mul p y)
    | XH -> y

  (** val iter : ('a1 -> 'a1) -> 'a1 -> positive -> 'a1 **)

  let rec iter f x = function
  | XI n' -> f (iter f (iter f x n') n')
  | XO n' -> iter f (iter f x n') n'
  | XH -> f x

  (** val div2 : positive -> positive **)

  let div2 = function
  | XI p0 -> p0
  | XO p0 -> p0
  | XH -> XH

  (** val div2_up : positive -> positive **)

  let div2_up = function
  | XI p0 -> succ p0
  | XO p0 -> p0
  | XH -> XH

  (** val compare_cont : comparison -> positive -> positive -> comparison **)

  let rec compare_cont r x y =
    match x with
    | XI p ->
      (match y with
       | XI q -> compare_cont r p q
       | XO q -> compare_cont Gt p q
       | XH -> Gt)
    | XO p ->
      (match y with
       | XI q -> compare_cont Lt p q
       | XO q -> compare_cont r p q
       | XH -> Gt)
    | XH -> (match y with
             | XH -> r
             | _ -> Lt)

  (** val compare : positive -> positive -> comparison **)

  let compare =
    compare_cont Eq

  (** val eqb : positive -> positive -> bool **)

  let rec eqb p q =
    match p with
    | XI p0 -> (match q with
                | XI q0 -> eqb p0 q0
                | _ -> false)
    | XO p0 -> (match q with
                | XO q0 -> eqb p0 q0
                | _ -> false)
    | XH -> (match q with
             | XH -> true
             | _ -> false)

  (** val coq_Nsucc_double : n -> n **)

  let coq_Nsucc_double = function
  | N0 -> Npos XH
  | Npos p -> Npos (XI p)

  (** val coq_Ndouble : n -> n **)

  let coq_Ndouble = function
  | N0 -> N0
  | Npos p -> Npos (XO p)

  (** val coq_lor : positive -> positive -> positive **)

  let rec coq_lor p q =
    match p with
    | XI p0 ->
      (match q with
       | XI q0 -> XI (coq_lor p0 q0)
       | XO q0 -> XI (coq_lor p0 q0)
       | XH -> p)
    | XO p0 ->
      (match q with
       | XI q0 -> XI (coq_lor p0 q0)
       | XO q0 -> XO (coq_lor p0 q0)
       | XH -> XI p0)
    | XH -> (match q with
             | XO q0 -> XI q0
             | _ -> q)

  (** val coq_land : positive -> positive -> n **)

  let rec coq_land p q =
    match p with
    | XI p0 ->
      (match q with
       | XI q0 -> coq_Nsucc_double (coq_land p0 q0)
       | XO q0 -> coq_Ndouble (coq_land p0 q0)
       | XH -> Npos XH)
    | XO p0 ->
      (match q with
       | XI q0 -> coq_Ndouble (coq_land p0 q0)
       | XO q0 -> coq_Ndouble (coq_land p0 q0)
       | XH -> N0)
    | XH -> (match q with
             | XO _ -> N0
             | _ -> Npos XH)

  (** val ldiff : positive -> positive -> n **)

  let rec ldiff p q =
    match p with
    | XI p0 ->
      (match q with
       | XI q0 -> coq_Ndouble (ldiff p0 q0)
       | XO q0 -> coq_Nsucc_double (ldiff p0 q0)
       | XH -> Npos (XO p0))
    | XO p0 ->
      (match q with
       | XI q0 -> coq_Ndouble (ldiff p0 q0)
       | XO q0 -> coq_Ndouble (ldiff p0 q0)
       | XH -> Npos p)
    | XH -> (match q with
             | XO _ -> Npos XH
             | _ -> N0)

  (** val coq_lxor : positive -> positive -> n **)

  let rec coq_lxor p q =
    match p with
    | XI p0 ->
      (match q with
       | XI q0 -> coq_Ndouble (coq_lxor p0 q0)
       | XO q0 -> coq_Nsucc_double (coq_lxor p0 q0)
       | XH -> Npos (XO p0))
    | XO p0 ->
      (match q with
       | XI q0 -> coq_Nsucc_double (coq_lxor p0 q0)
       | XO q0 -> coq_Ndouble (coq_lxor p0 q0)
       | XH -> Npos (XI p0))
    | XH ->
      (match q with
       | XI q0 -> Npos (XO q0)
       | XO q0 -> Npos (XI q0)
       | XH -> N0)

  (** val iter_op : ('a1 -> 'a1 -> 'a1) -> positive -> 'a1 -> 'a1 **)

  let rec iter_op op p a =
    match p with
    | XI p0 -> op a (iter_op op p0 (op a a))
    | XO p0 -> iter_op op p0 (op a a)
    | XH -> a

  (** val to_nat : positive -> nat **)

  let to_nat x =
    iter_op Coq__1.add x (S O)
 end

module N =
 struct
  (** val succ_pos : n -> positive **)

  let succ_pos = function
  | N0 -> XH
  | Npos p -> Pos.succ p

  (** val coq_lor : n -> n -> n **)

  let coq_lor n0 m =
    match n0 with
    | N0 -> m
    | Npos p -> (match m with
                 | N0 -> n0
                 | Npos q -> Npos (Pos.coq_lor p q))

  (** val coq_land : n -> n -> n **)

  let coq_land n0 m =
    match n0 with
    | N0 -> N0
    | Npos p -> (match m with
                 | N0 -> N0
                 | Npos q -> Pos.coq_land p q)

  (** val ldiff : n -> n -> n **)

  let ldiff n0 m =
    match n0 with
    | N0 -> N0
    | Npos p -> (match m with
                 | N0 -> n0
                 | Npos q -> Pos.ldiff p q)

  (** val coq_lxor : n -> n -> n **)

  let coq_lxor n0 m =
    match n0 with
    | N0 -> m
    | Npos p -> (match m with
                 | N0 -> n0
                 | Npos q -> Pos.coq_lxor p q)
 end

module Z =
 struct
  (** val double : z -> z **)

  let double = function
  | Z0 -> Z0
  | Zpos p -> Zpos (XO p)
  | Zneg p -> Zneg (XO p)

  (** val succ_double : z -> z **)

  let succ_double = function
  | Z0 -> Zpos XH
  | Zpos p -> Zpos (XI p)
  | Zneg p -> Zneg (Pos.pred_double p)

  (** val pred_double : z -> z **)

  let pred_double = function
  | Z0 -> Zneg XH
  | Zpos p -> Zpos (Pos.pred_double p)
  | Zneg p -> Zneg (XI p)

  (** val pos_sub : positive -> positive -> z **)

  let rec pos_sub x y =
    match x with
    | XI p ->
      (match y with
       | XI q -> double (pos_sub p q)
       | XO q -> succ_double (pos_sub p q)
       | XH -> Zpos (XO p))
    | XO p ->
      (match y with
       | XI q -> pred_double (pos_sub p q)
       | XO q -> double (pos_sub p q)
       | XH -> Zpos (Pos.pred_double p))
    | XH ->
      (match y with
       | XI q -> Zneg (XO q)
       | XO q -> Zneg (Pos.pred_double q)
       | XH -> Z0)

  (** val add : z -> z -> z **)

  let add x y =
    match x with
    | Z0 -> y
    | Zpos x' ->
      (match y with
       | Z0 -> x
       | Zpos y' -> Zpos (Pos.add x' y')
       | Zneg y' -> pos_sub x' y')
    | Zneg x' ->
      (match y with
       | Z0 -> x
       | Zpos y' -> pos_sub y' x'
       | Zneg y' -> Zneg (Pos.add x' y'))

  (** val opp : z -> z **)

  let opp = function
  | Z0 -> Z0
  | Zpos x0 -> Zneg x0
  | Zneg x0 -> Zpos x0

  (** val sub : z -> z -> z **)

  let sub m n0 =
    add m (opp n0)

  (** val mul : z -> z -> z **)

  let mul x y =
    match x with
    | Z0 -> Z0
    | Zpos x' ->
      (match y with
       | Z0 -> Z0
       | Zpos y' -> Zpos (Pos.mul x' y')
       | Zneg y' -> Zneg (Pos.mul x' y'))
    | Zneg x' ->
      (match y with
       | Z0 -> Z0
       | Zpos y' -> Zneg (Pos.mul x' y')
       | Zneg y' -> Zpos (Pos.mul x' y'))

  (** val pow_pos : z -> positive -> z **)

  let pow_pos z0 =
    Pos.iter (mul z0) (Zpos XH)

  (** val pow : z -> z -> z **)

  let pow x = function
  | Z0 -> Zpos XH
  | Zpos p -> pow_pos x p
  | Zneg _ -> Z0

  (** val compare : z -> z -> comparison **)

  let compare x y =
    match x with
    | Z0 -> (match y with
             | Z0 -> Eq
             | Zpos _ -> Lt
             | Zneg _ -> Gt)
    | Zpos x' -> (match y with
                  | Zpos y' -> Pos.compare x' y'
                  | _ -> Gt)
    | Zneg x' ->
      (match y with
       | Zneg y' -> compOpp (Pos.compare x' y')
       | _ -> Lt)

  (** val leb : z -> z -> bool **)

  let leb x y =
    match compare x y with
    | Gt -> false
    | _ -> true

  (** val ltb : z -> z -> bool **)

  let ltb x y =
    match compare x y with
    | Lt -> true
    | _ -> false

  (** val eqb : z -> z -> bool **)

  let eqb x y =
    match x with
    | Z0 -> (match y with
             | Z0 -> true
             | _ -> false)
    | Zpos p -> (match y with
                 | Zpos q -> Pos.eqb p q
                 | _ -> false)
    | Zneg p -> (match y with
                 | Zneg q -> Pos.eqb p q
                 | _ -> false)

  (** val to_nat : z -> nat **)

  let to_nat = function
  | Zpos p -> Pos.to_nat p
  | _ -> O

  (** val of_N : n -> z **)

  let of_N = function
  | N0 -> Z0
  | Npos p -> Zpos p

  (** val pos_div_eucl : positive -> z -> z * z **)

  let rec pos_div_eucl a b =
    match a with
    | XI a' ->
      let (q, r) = pos_div_eucl a' b in
      let r' = add (mul (Zpos (XO XH)) r) (Zpos XH) in
      if ltb r' b
      then ((mul (Zpos (XO XH)) q), r')
      else ((add (mul (Zpos (XO XH)) q) (Zpos XH)), (sub r' b))
    | XO a' ->
      let (q, r) = pos_div_eucl a' b in
      let r' = mul (Zpos (XO XH)) r in
      if ltb r' b
      then ((mul (Zpos (XO XH)) q), r')
      else ((add (mul (Zpos (XO XH)) q) (Zpos XH)), (sub r' b))
    | XH -> if leb (Zpos (XO XH)) b then (Z0, (Zpos XH)) else ((Zpos XH), Z0)

  (** val div_eucl : z -> z -> z * z **)

  let div_eucl a b =
    match a with
    | Z0 -> (Z0, Z0)
    | Zpos a' ->
      (match b with
       | Z0 -> (Z0, a)
       | Zpos _ -> pos_div_eucl a' b
       | Zneg b' ->
         let (q, r) = pos_div_eucl a' (Zpos b') in
         (match r with
          | Z0 -> ((opp q), Z0)
          | _ -> ((opp (add q (Zpos XH))), (add b r))))
    | Zneg a' ->
      (match b with
       | Z0 -> (Z0, a)
       | Zpos _ ->
         let (q, r) = pos_div_eucl a' b in
         (match r with
          | Z0 -> ((opp q), Z0)
          | _ -> ((opp (add q (Zpos XH))), (sub b r)))
       | Zneg b' -> let (q, r) = pos_div_eucl a' (Zpos b') in (q, (opp r)))

  (** val div : z -> z -> z **)

  let div a b =
    let (q, _) = div_eucl a b in q

  (** val modulo : z -> z -> z **)

  let modulo a b =
    let (_, r) = div_eucl a b in r

  (** val div2 : z -> z **)

  let div2 = function
  | Z0 -> Z0
  | Zpos p -> (match p with
               | XH -> Z0
               | _ -> Zpos (Pos.div2 p))
  | Zneg p -> Zneg (Pos.div2_up p)

  (** val shiftl : z -> z -> z **)

  let shiftl a = function
  | Z0 -> a
  | Zpos p -> Pos.iter (mul (Zpos (XO XH))) a p
  | Zneg p -> Pos.iter div2 a p

  (** val shiftr : z -> z -> z **)

  let shiftr a n0 =
    shiftl a (opp n0)

  (** val coq_lor : z -> z -> z **)

  let coq_lor a b =
    match a with
    | Z0 -> b
    | Zpos a0 ->
      (match b with
       | Z0 -> a
       | Zpos b0 -> Zpos (Pos.coq_lor a0 b0)
       | Zneg b0 -> Zneg (N.succ_pos (N.ldiff (Pos.pred_N b0) (Npos a0))))
    | Zneg a0 ->
      (match b with
       | Z0 -> a
       | Zpos b0 -> Zneg (N.succ_pos (N.ldiff (Pos.pred_N a0) (Npos b0)))
       | Zneg b0 ->
         Zneg (N.succ_pos (N.coq_land (Pos.pred_N a0) (Pos.pred_N b0))))

  (** val coq_land : z -> z -> z **)

  let coq_land a b =
    match a with
    | Z0 -> Z0
    | Zpos a0 ->
      (match b with
       | Z0 -> Z0
       | Zpos b0 -> of_N (Pos.coq_land a0 b0)
       | Zneg b0 -> of_N (N.ldiff (Npos a0) (Pos.pred_N b0)))
    | Zneg a0 ->
      (match b with
       | Z0 -> Z0
       | Zpos b0 -> of_N (N.ldiff (Npos b0) (Pos.pred_N a0))
       | Zneg b0 ->
         Zneg (N.succ_pos (N.coq_lor (Pos.pred_N a0) (Pos.pred_N b0))))

  (** val coq_lxor : z -> z -> z **)

  let coq_lxor a b =
    match a with
    | Z0 -> b
    | Zpos a0 ->
      (match b with
       | Z0 -> a
       | Zpos b0 -> of_N (Pos.coq_lxor a0 b0)
       | Zneg b0 -> Zneg (N.succ_pos (N.coq_lxor (Npos a0) (Pos.pred_N b0))))
    | Zneg a0 ->
      (match b with
       | Z0 -> a
       | Zpos b0 -> Zneg (N.succ_pos (N.coq_lxor (Pos.pred_N a0) (Npos b0)))
       | Zneg b0 -> of_N (N.coq_lxor (Pos.pred_N a0) (Pos.pred_N b0)))
 end

(** val map : ('a1 -> 'a2) -> 'a1 list -> 'a2 list **)

let rec map f = function
| [] -> []
| a :: t -> (f a) :: (map f t)

(** val flat_map : ('a1 -> 'a2 list) -> 'a1 list -> 'a2 list **)

let rec flat_map f = function
| [] -> []
| x :: t -> app (f x) (flat_map f t)

(** val fold_left : ('a1 -> 'a2 -> 'a1) -> 'a2 list -> 'a1 -> 'a1 **)

let rec fold_left f l a0 =
  match l with
  | [] -> a0
  | b :: t -> fold_left f t (f a0 b)

(** val existsb : ('a1 -> bool) -> 'a1 list -> bool **)

let rec existsb f = function
| [] -> false
| a :: l0 -> (||) (f a) (existsb f l0)

(** val ex_keep :
    (((((nat * n) * z) * z list) * z option) * positive) * bool **)

let ex_keep =
  ((((((O, N0), Z0), []), None), XH), true)

(** val wrap : z -> bool -> z -> z **)

let wrap w0 s v =
  if s
  then Z.sub
         (Z.modulo (Z.add v (Z.pow (Zpos (XO XH)) (Z.sub w0 (Zpos XH))))
           (Z.pow (Zpos (XO XH)) w0))
         (Z.pow (Zpos (XO XH)) (Z.sub w0 (Zpos XH)))
  else Z.modulo v (Z.pow (Zpos (XO XH)) w0)

(** val b2z : bool -> z **)

let b2z = function
| true -> Zpos XH
| false -> Z0

type var = nat

type iop =
| OAdd
| OMul
| OSub
| OAnd
| OXor
| OOr
| OShl
| OShr
| OFdiv

(** val iop_eqb : iop -> iop -> bool **)

let iop_eqb a b =
  match a with
  | OAdd -> (match b with
             | OAdd -> true
             | _ -> false)
  | OMul -> (match b with
             | OMul -> true
             | _ -> false)
  | OSub -> (match b with
             | OSub -> true
             | _ -> false)
  | OAnd -> (match b with
             | OAnd -> true
             | _ -> false)
  | OXor -> (match b with
             | OXor -> true
             | _ -> false)
  | OOr -> (match b with
            | OOr -> true
            | _ -> false)
  | OShl -> (match b with
             | OShl -> true
             | _ -> false)
  | OShr -> (match b with
             | OShr -> true
             | _ -> false)
  | OFdiv -> (match b with
              | OFdiv -> true
              | _ -> false)

(** val omp_ops : iop list **)

let omp_ops =
  OAdd :: (OMul :: (OSub :: (OAnd :: (OXor :: (OOr :: [])))))

(** val omp_reduction_op : iop -> bool **)

let omp_reduction_op o =
  existsb (iop_eqb o) omp_ops

type bop =
| BAdd
| BSub
| BMul
| BAnd
| BOr
| BXor
| BLt
| BEq

type expr =
| EC of z
| EV of var
| EB of bop * expr * expr

type stmt =
| SSkip
| SSeq of stmt * stmt
| SAssign of var * expr
| SInplace of var * iop * expr
| SIf of expr * stmt * stmt
| SLoop of bool * var * expr * stmt

type region = { r_pre : stmt option; r_tgt : var; r_body : stmt }

type alist = (var * iop option) list

(** val aget : alist -> var -> iop option option **)

let rec aget al x =
  match al with
  | [] -> None
  | p :: r -> let (y, v) = p in if Nat.eqb y x then Some v else aget r x

(** val aset : alist -> var -> iop option -> alist **)

let rec aset al x v =
  match al with
  | [] -> (x, v) :: []
  | p :: r ->
    let (y, u) = p in
    if Nat.eqb y x then (y, v) :: r else (y, u) :: (aset r x v)

(** val aupdate : alist -> alist -> alist **)

let aupdate al new0 =
  fold_left (fun acc p -> aset acc (fst p) (snd p)) new0 al

(** val akeys : alist -> var list **)

let akeys al =
  map fst al

(** val amem : alist -> var -> bool **)

let amem al x =
  match aget al x with
  | Some _ -> true
  | None -> false

type cerr =
| EInconsistent
| EReadReduction
| EOuterPrivate
| EBlockReduction
| EUnsupportedOp

type fixes = { fx_ops : bool; fx_nest : bool; fx_rhs : bool }

(** val no_fixes : fixes **)

let no_fixes =
  { fx_ops = false; fx_nest = false; fx_rhs = false }

(** val all_fixes : fixes **)

let all_fixes =
  { fx_ops = true; fx_nest = true; fx_rhs = true }

(** val mark :
    var -> iop option -> (alist * cerr list) -> alist * cerr list **)

let mark x op = function
| (al, errs) ->
  let errs' =
    match aget al x with
    | Some o ->
      (match o with
       | Some p ->
         (match op with
          | Some n0 -> if iop_eqb p n0 then errs else EInconsistent :: errs
          | None -> errs)
       | None -> errs)
    | None -> errs
  in
  ((aset al x op), errs')

(** val marks : stmt -> (alist * cerr list) -> alist * cerr list **)

let rec marks st acc =
  match st with
  | SSkip -> acc
  | SSeq (a, b) -> marks b (marks a acc)
  | SAssign (x, _) -> mark x None acc
  | SInplace (x, o, _) -> mark x (Some o) acc
  | SIf (_, t, e) -> marks e (marks t acc)
  | SLoop (par, x, _, b) ->
    if par then acc else marks b (mark x None (mark x None acc))

(** val node_marks : stmt -> alist **)

let node_marks st =
  fst (marks st ([], []))

(** val node_errs : stmt -> cerr list **)

let node_errs st =
  snd (marks st ([], []))

(** val nested : stmt -> (var * stmt) list **)

let rec nested = function
| SSeq (a, b) -> app (nested a) (nested b)
| SIf (_, t, e) -> app (nested t) (nested e)
| SLoop (par, x, _, b) ->
  if par then app (nested b) ((x, b) :: []) else nested b
| _ -> []

(** val node_assignments : var -> stmt -> alist **)

let node_assignments tgt body =
  aset (node_marks body) tgt None

(** val merge_errs : alist -> alist -> cerr list **)

let merge_errs acc new0 =
  flat_map (fun p ->
    match snd p with
    | Some o ->
      (match aget acc (fst p) with
       | Some o0 ->
         (match o0 with
          | Some q -> if iop_eqb o q then [] else EInconsistent :: []
          | None -> [])
       | None -> [])
    | None -> []) new0

(** val final_merge : var -> stmt -> alist * cerr list **)

let final_merge tgt body =
  fold_left (fun st nb ->
    let na = node_assignments (fst nb) (snd nb) in
    ((aupdate (fst st) na), (app (snd st) (merge_errs (fst st) na))))
    (nested body) ((node_assignments tgt body), [])

(** val final_assignments : var -> stmt -> alist **)

let final_assignments tgt body =
  fst (final_merge tgt body)

(** val expr_vars : expr -> var list **)

let rec expr_vars = function
| EC _ -> []
| EV x -> x :: []
| EB (_, a, b) -> app (expr_vars a) (expr_vars b)

(** val mem : var -> var list -> bool **)

let mem x l =
  existsb (Nat.eqb x) l

(** val reads_any : var list -> expr -> bool **)

let reads_any red e =
  existsb (fun x -> mem x red) (expr_vars e)

(** val inplace_vars : alist -> var list **)

let inplace_vars al =
  flat_map (fun p -> match snd p with
                     | Some _ -> (fst p) :: []
                     | None -> []) al

(** val reads_bad : bool -> var list -> stmt -> bool **)

let rec reads_bad rhs red = function
| SSkip -> false
| SSeq (a, b) -> (||) (reads_bad rhs red a) (reads_bad rhs red b)
| SAssign (_, e) -> reads_any red e
| SInplace (_, _, e) -> (&&) rhs (reads_any red e)
| SIf (c, t, e) ->
  (||) ((||) (reads_any red c) (reads_bad rhs red t)) (reads_bad rhs red e)
| SLoop (par, _, n0, b) ->
  if par
  then let red' = app red (inplace_vars (node_marks b)) in
       (||) (reads_any red' n0) (reads_bad rhs red' b)
  else (||) (reads_any red n0) (reads_bad rhs red b)

(** val has_unsupported : alist -> bool **)

let has_unsupported al =
  existsb (fun p ->
    match snd p with
    | Some o -> negb (omp_reduction_op o)
    | None -> false) al

type clause =
| CRed of iop
| CFirstLast
| CBlockPriv
| CShared

(** val clause_eqb : clause -> clause -> bool **)

let clause_eqb a b =
  match a with
  | CRed o -> (match b with
               | CRed p -> iop_eqb o p
               | _ -> false)
  | CFirstLast -> (match b with
                   | CFirstLast -> true
                   | _ -> false)
  | CBlockPriv -> (match b with
                   | CBlockPriv -> true
                   | _ -> false)
  | CShared -> (match b with
                | CShared -> true
                | _ -> false)

(** val block_marks : region -> alist **)

let block_marks r =
  match r.r_pre with
  | Some p -> node_marks p
  | None -> []

(** val classify : region -> var -> clause **)

let classify r x =
  match aget (final_assignments r.r_tgt r.r_body) x with
  | Some op ->
    if Nat.eqb x r.r_tgt
    then CFirstLast
    else (match op with
          | Some o -> if omp_reduction_op o then CRed o else CFirstLast
          | None -> CFirstLast)
  | None -> if amem (block_marks r) x then CBlockPriv else CShared

(** val opt_errs : bool -> cerr -> cerr list **)

let opt_errs c e =
  if c then e :: [] else []

(** val region_errors : fixes -> region -> cerr list **)

let region_errors fx r =
  let fa = final_assignments r.r_tgt r.r_body in
  let bm = block_marks r in
  app (match r.r_pre with
       | Some p -> node_errs p
       | None -> [])
    (app (node_errs r.r_body)
      (app (flat_map (fun nb -> node_errs (snd nb)) (nested r.r_body))
        (app (if fx.fx_nest then snd (final_merge r.r_tgt r.r_body) else [])
          (app
            (opt_errs
              (reads_bad fx.fx_rhs (inplace_vars (node_marks r.r_body))
                r.r_body) EReadReduction)
            (app
              (opt_errs
                ((&&) fx.fx_ops
                  ((||) (has_unsupported fa)
                    (existsb (fun nb ->
                      has_unsupported (node_assignments (fst nb) (snd nb)))
                      (nested r.r_body)))) EUnsupportedOp)
              (app (opt_errs (existsb (amem bm) (akeys fa)) EOuterPrivate)
                (opt_errs (negb (Nat.eqb (length (inplace_vars bm)) O))
                  EBlockReduction)))))))

(** val w : z -> bool -> z -> z **)

let w =
  wrap

type env = var -> z

(** val upd : env -> var -> z -> env **)

let upd e x v y =
  if Nat.eqb y x then v else e y

(** val bin : z -> bool -> bop -> z -> z -> z **)

let bin w0 sg b x y =
  match b with
  | BAdd -> w w0 sg (Z.add x y)
  | BSub -> w w0 sg (Z.sub x y)
  | BMul -> w w0 sg (Z.mul x y)
  | BAnd -> w w0 sg (Z.coq_land x y)
  | BOr -> w w0 sg (Z.coq_lor x y)
  | BXor -> w w0 sg (Z.coq_lxor x y)
  | BLt -> b2z (Z.ltb x y)
  | BEq -> b2z (Z.eqb x y)

(** val eval : z -> bool -> env -> expr -> z **)

let rec eval w0 sg e = function
| EC c -> w w0 sg c
| EV x -> e x
| EB (b, a, c) -> bin w0 sg b (eval w0 sg e a) (eval w0 sg e c)

(** val act : z -> bool -> iop -> z -> z -> z **)

let act w0 sg o acc v =
  match o with
  | OAdd -> w w0 sg (Z.add acc v)
  | OMul -> w w0 sg (Z.mul acc v)
  | OSub -> w w0 sg (Z.sub acc v)
  | OAnd -> w w0 sg (Z.coq_land acc v)
  | OXor -> w w0 sg (Z.coq_lxor acc v)
  | OOr -> w w0 sg (Z.coq_lor acc v)
  | OShl -> w w0 sg (Z.shiftl acc v)
  | OShr -> w w0 sg (Z.shiftr acc v)
  | OFdiv -> if Z.eqb v Z0 then acc else w w0 sg (Z.div acc v)

(** val mop : z -> bool -> iop -> z -> z -> z **)

let mop w0 sg o a b =
  match o with
  | OSub -> w w0 sg (Z.add a b)
  | _ -> act w0 sg o a b

(** val ident : z -> bool -> iop -> z **)

let ident w0 sg = function
| OMul -> Zpos XH
| OAnd -> w w0 sg (Zneg XH)
| _ -> Z0

(** val iter0 : nat -> z -> (z -> env -> env) -> env -> env **)

let rec iter0 n0 k f e =
  match n0 with
  | O -> e
  | S m -> iter0 m (Z.add k (Zpos XH)) f (f k e)

(** val exec : z -> bool -> stmt -> env -> env **)

let rec exec w0 sg st e =
  match st with
  | SSkip -> e
  | SSeq (a, b) -> exec w0 sg b (exec w0 sg a e)
  | SAssign (x, a) -> upd e x (eval w0 sg e a)
  | SInplace (x, o, a) -> upd e x (act w0 sg o (e x) (eval w0 sg e a))
  | SIf (c, t, f) ->
    if Z.eqb (eval w0 sg e c) Z0 then exec w0 sg f e else exec w0 sg t e
  | SLoop (_, x, n0, b) ->
    iter0 (Z.to_nat (eval w0 sg e n0)) Z0 (fun k e' ->
      exec w0 sg b (upd e' x (w w0 sg k))) e

(** val exec_iter : z -> bool -> var -> stmt -> z -> env -> env **)

let exec_iter w0 sg tgt body v e =
  exec w0 sg body (upd e tgt (w w0 sg v))

(** val seq_run : z -> bool -> var -> stmt -> z list -> env -> env **)

let seq_run w0 sg tgt body idxs e0 =
  fold_left (fun e v -> exec_iter w0 sg tgt body v e) idxs e0

(** val priv_init : z -> bool -> (var -> clause) -> env -> env **)

let priv_init w0 sg cls e0 x =
  match cls x with
  | CRed o -> ident w0 sg o
  | _ -> e0 x

(** val thr_steps :
    z -> bool -> var -> stmt -> z list -> z -> env -> env option -> env * env
    option **)

let rec thr_steps w0 sg tgt body chunk lastv e acc =
  match chunk with
  | [] -> (e, acc)
  | v :: r ->
    let e' = exec_iter w0 sg tgt body v e in
    thr_steps w0 sg tgt body r lastv e'
      (if Z.eqb v lastv then Some e' else acc)

(** val thr_run :
    z -> bool -> (var -> clause) -> var -> stmt -> z list -> z -> env ->
    env * env option **)

let thr_run w0 sg cls tgt body chunk lastv e0 =
  thr_steps w0 sg tgt body chunk lastv (priv_init w0 sg cls e0) None

(** val first_some : env option list -> env option **)

let rec first_some = function
| [] -> None
| o :: r -> (match o with
             | Some e -> Some e
             | None -> first_some r)

(** val par_exec :
    z -> bool -> (var -> clause) -> var -> stmt -> z list list -> z -> env ->
    env **)

let par_exec w0 sg cls tgt body chunks lastv e0 =
  let runs = map (fun ch -> thr_run w0 sg cls tgt body ch lastv e0) chunks in
  (fun x ->
  match cls x with
  | CRed o -> fold_left (mop w0 sg o) (map (fun r -> fst r x) runs) (e0 x)
  | CFirstLast ->
    (match first_some (map snd runs) with
     | Some e' -> e' x
     | None -> e0 x)
  | _ -> e0 x)

(** val region_seq : z -> bool -> region -> z list -> env -> env **)

let region_seq w0 sg r idxs e0 =
  let e1 = match r.r_pre with
           | Some p -> exec w0 sg p e0
           | None -> e0 in
  seq_run w0 sg r.r_tgt r.r_body idxs e1

(** val region_par : z -> bool -> region -> z list list -> z -> env -> env **)

let region_par w0 sg r chunks lastv e0 =
  let cls = classify r in
  let e1 = match r.r_pre with
           | Some p -> exec w0 sg p e0
           | None -> e0 in
  let res = par_exec w0 sg cls r.r_tgt r.r_body chunks lastv e1 in
  (fun x -> match cls x with
            | CBlockPriv -> e0 x
            | _ -> res x)

(** val var_ok : (var -> clause) -> var list -> var -> bool **)

let var_ok cls d x =
  match cls x with
  | CRed _ -> false
  | CFirstLast -> mem x d
  | _ -> true

(** val expr_ok : (var -> clause) -> var list -> expr -> bool **)

let rec expr_ok cls d = function
| EC _ -> true
| EV x -> var_ok cls d x
| EB (_, a, b) -> (&&) (expr_ok cls d a) (expr_ok cls d b)

(** val wf : (var -> clause) -> var list -> stmt -> var list option **)

let rec wf cls d = function
| SSkip -> Some d
| SSeq (a, b) -> (match wf cls d a with
                  | Some d1 -> wf cls d1 b
                  | None -> None)
| SAssign (x, e) ->
  if (&&) (clause_eqb (cls x) CFirstLast) (expr_ok cls d e)
  then Some (x :: d)
  else None
| SInplace (x, o, e) ->
  if (&&) ((&&) (omp_reduction_op o) (clause_eqb (cls x) (CRed o)))
       (expr_ok cls d e)
  then Some d
  else None
| SIf (c, t, f) ->
  if expr_ok cls d c
  then (match wf cls d t with
        | Some _ -> (match wf cls d f with
                     | Some _ -> Some d
                     | None -> None)
        | None -> None)
  else None
| SLoop (_, x, n0, b) ->
  if (&&) (expr_ok cls d n0) (clause_eqb (cls x) CFirstLast)
  then (match wf cls (x :: d) b with
        | Some _ -> Some d
        | None -> None)
  else None

(** val region_wf : fixes -> region -> var list option **)

let region_wf fx r =
  match region_errors fx r with
  | [] ->
    if clause_eqb (classify r r.r_tgt) CFirstLast
    then wf (classify r) (r.r_tgt :: []) r.r_body
    else None
  | _ :: _ -> None
