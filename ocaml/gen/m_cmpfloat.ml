
(** val negb : bool -> bool **)

let negb = function
| true -> false
| false -> true

type nat =
| O
| S of nat

type ('a, 'b) sum =
| Inl of 'a
| Inr of 'b

(** val length : 'a1 list -> nat **)

let rec length = function
| [] -> O
| _ :: l' -> S (length l')

type comparison =
| Eq
| Lt
| Gt

(** val compOpp : comparison -> comparison **)

let compOpp = function
| Eq -> Eq
| Lt -> Gt
| Gt -> Lt

module Coq__1 = struct
 (** val add : nat -> nat -> nat **)
 let rec add n0 m =
   match n0 with
   | O -> m
   | S p -> S (add p m)
end
include Coq__1

type positive =
| XI of positive
| XO of positive
| XH

type n =
| N0
| Npos of positive

type z =
| Z0
| Zpos of positive
| Zneg of positive

module Pos =
 struct
  (** val succ : positive -> positive **)

  let rec succ = function
  | XI p -> XO (succ p)
  | XO p -> XI p
  | XH -> XO XH

  (** val add : positive -> positive -> positive **)

  let rec add x y =
    match x with
    | XI p ->
      (match y with
       | XI q -> XO (add_carry p q)
       | XO q -> XI (add p q)
       | XH -> XO (succ p))
    | XO p ->
      (match y with
       | XI q -> XI (add p q)
       | XO q -> XO (add p q)
       | XH -> XI p)
    | XH -> (match y with
             | XI q -> XO (succ q)
             | XO q -> XI q
             | XH -> XO XH)

  (** val add_carry : positive -> positive -> positive **)

  and add_carry x y =
    match x with
    | XI p ->
      (match y with
       | XI q -> XI (add_carry p q)
       | XO q -> XO (add_carry p q)
       | XH -> XI (succ p))
    | XO p ->
      (match y with
       | XI q -> XO (add_carry p q)
       | XO q -> XI (add p q)
       | XH -> XO (succ p))
    | XH ->
      (match y with
       | XI q -> XI (succ q)
       | XO q -> XO (succ q)
       | XH -> XI XH)

  (** val pred_double : positive -> positive **)

  let rec pred_double = function
  | XI p -> XI (XO p)
  | XO p -> XI (pred_double p)
  | XH -> XH

  (** val pred_N : positive -> n **)

  let pred_N = function
  | XI p -> Npos (XO p)
  | XO p -> Npos (pred_double p)
  | XH -> N0

  (** val mul : positive -> positive -> positive **)

  let rec mul x y =
    match x with
    | XI p -> add y (XO (mul p y))
    | XO p -> XO (mul p y)
    | XH -> y

  (** val iter : ('a1 -> 'a1) -> 'a1 -> positive -> 'a1 **)

  let rec iter f x = function
  | XI n' -> f (iter f (iter f x n') n')
  | XO n' -> iter f (iter f x n') n'
  | XH -> f x

  (** val div2 : positive -> positive **)

  let div2 = function
  | XI p0 -> p0
  | XO p0 -> p0
  | XH -> XH

  (** val div2_up : positive -> positive **)

  let div2_up = function
  | XI p0 -> succ p0
  | XO p0 -> p0
  | XH -> XH

  (** val size : positive -> positive **)

  let rec size = function
  | XI p0 -> succ (size p0)
  | XO p0 -> succ (size p0)
  | XH -> XH

  (** val compare_cont : comparison -> positive -> positive -> comparison **)

  let rec compare_cont r x y =
    match x with
    | XI p ->
      (match y with
       | XI q -> compare_cont r p q
       | XO q -> compare_cont Gt p q
       | XH -> Gt)
    | XO p ->
      (match y with
       | XI q -> compare_cont Lt p q
       | XO q -> compare_cont r p q
       | XH -> Gt)
    | XH -> (match y with
             | XH -> r
             | _ -> Lt)

  (** val compare : positive -> positive -> comparison **)

  let compare =
    compare_cont Eq

  (** val eqb : positive -> positive -> bool **)

  let rec eqb p q =
    match p with
    | XI p0 -> (match q with
                | XI q0 -> eqb p0 q0
                | _ -> false)
    | XO p0 -> (match q with
                | XO q0 -> eqb p0 q0
                | _ -> false)
    | XH -> (match q with
             | XH -> true
             | _ -> false)

  (** val coq_Nsucc_double : n -> n **)

  let coq_Nsucc_double = function
  | N0 -> Npos XH
  | Npos p -> Npos (XI p)

  (** val coq_Ndouble : n -> n **)

  let coq_Ndouble = function
  | N0 -> N0
  | Npos p -> Npos (XO p)

  (** val coq_lor : positive -> positive -> positive **)

  let rec coq_lor p q =
    match p with
    | XI p0 ->
      (match q with
       | XI q0 -> XI (coq_lor p0 q0)
       | XO q0 -> XI (coq_lor p0 q0)
       | XH -> p)
    | XO p0 ->
      (match q with
       | XI q0 -> XI (coq_lor p0 q0)
       | XO q0 -> XO (coq_lor p0 q0)
       | XH -> XI p0)
    | XH -> (match q with
             | XO q0 -> XI q0
             | _ -> q)

  (** val coq_land : positive -> positive -> n **)

  let rec coq_land p q =
    match p with
    | XI p0 ->
      (match q with
       | XI q0 -> coq_Nsucc_double (coq_land p0 q0)
       | XO q0 -> coq_Ndouble (coq_land p0 q0)
       | XH -> Npos XH)
    | XO p0 ->
      (match q with
       | XI q0 -> coq_Ndouble (coq_land p0 q0)
       | XO q0 -> coq_Ndouble (coq_land p0 q0)
       | XH -> N0)
    | XH -> (match q with
             | XO _ -> N0
             | _ -> Npos XH)

  (** val ldiff : positive -> positive -> n **)

  let rec ldiff p q =
    match p with
    | XI p0 ->
      (match q with
       | XI q0 -> coq_Ndouble (ldiff p0 q0)
       | XO q0 -> coq_Nsucc_double (ldiff p0 q0)
       | XH -> Npos (XO p0))
    | XO p0 ->
      (match q with
       | XI q0 -> coq_Ndouble (ldiff p0 q0)
       | XO q0 -> coq_Ndouble (ldiff p0 q0)
       | XH -> Npos p)
    | XH -> (match q with
             | XO _ -> Npos XH
             | _ -> N0)

  (** val iter_op : ('a1 -> 'a1 -> 'a1) -> positive -> 'a1 -> 'a1 **)

  let rec iter_op op p a =
    match p with
    | XI p0 -> op a (iter_op op p0 (op a a))
    | XO p0 -> iter_op op p0 (op a a)
    | XH -> a

  (** val to_nat : positive -> nat **)

  let to_nat x =
    iter_op Coq__1.add x (S O)

  (** val of_succ_nat : nat -> positive **)

  let rec of_succ_nat = function
  | O -> XH
  | S x -> succ (of_succ_nat x)
 end

module N =
 struct
  (** val succ_pos : n -> positive **)

  let succ_pos = function
  | N0 -> XH
  | Npos p -> Pos.succ p

  (** val coq_lor : n -> n -> n **)

  let coq_lor n0 m =
    match n0 with
    | N0 -> m
    | Npos p -> (match m with
                 | N0 -> n0
                 | Npos q -> Npos (Pos.coq_lor p q))

  (** val coq_land : n -> n -> n **)

  let coq_land n0 m =
    match n0 with
    | N0 -> N0
    | Npos p -> (match m with
                 | N0 -> N0
                 | Npos q -> Pos.coq_land p q)

  (** val ldiff : n -> n -> n **)

  let ldiff n0 m =
    match n0 with
    | N0 -> N0
    | Npos p -> (match m with
                 | N0 -> n0
                 | Npos q -> Pos.ldiff p q)
 end

module Z =
 struct
  (** val double : z -> z **)

  let double = function
  | Z0 -> Z0
  | Zpos p -> Zpos (XO p)
  | Zneg p -> Zneg (XO p)

  (** val succ_double : z -> z **)

  let succ_double = function
  | Z0 -> Zpos XH
  | Zpos p -> Zpos (XI p)
  | Zneg p -> Zneg (Pos.pred_double p)

  (** val pred_double : z -> z **)

  let pred_double = function
  | Z0 -> Zneg XH
  | Zpos p -> Zpos (Pos.pred_double p)
  | Zneg p -> Zneg (XI p)

  (** val pos_sub : positive -> positive -> z **)

  let rec pos_sub x y =
    match x with
    | XI p ->
      (match y with
       | XI q -> double (pos_sub p q)
       | XO q -> succ_double (pos_sub p q)
       | XH -> Zpos (XO p))
    | XO p ->
      (match y with
       | XI q -> pred_double (pos_sub p q)
       | XO q -> double (pos_sub p q)
       | XH -> Zpos (Pos.pred_double p))
    | XH ->
      (match y with
       | XI q -> Zneg (XO q)
       | XO q -> Zneg (Pos.pred_double q)
       | XH -> Z0)

  (** val add : z -> z -> z **)

  let add x y =
    match x with
    | Z0 -> y
    | Zpos x' ->
      (match y with
       | Z0 -> x
       | Zpos y' -> Zpos (Pos.add x' y')
       | Zneg y' -> pos_sub x' y')
    | Zneg x' ->
      (match y with
       | Z0 -> x
       | Zpos y' -> pos_sub y' x'
       | Zneg y' -> Zneg (Pos.add x' y'))

  (** val opp : z -> z **)

  let opp = function
  | Z0 -> Z0
  | Zpos x0 -> Zneg x0
  | Zneg x0 -> Zpos x0

  (** val sub : z -> z -> z **)

  let sub m n0 =
    add m (opp n0)

  (** val mul : z -> z -> z **)

  let mul x y =
    match x with
    | Z0 -> Z0
    | Zpos x' ->
      (match y with
       | Z0 -> Z0
       | Zpos y' -> Zpos (Pos.mul x' y')
       | Zneg y' -> Zneg (Pos.mul x' y'))
    | Zneg x' ->
      (match y with
       | Z0 -> Z0
       | Zpos y' -> Zneg (Pos.mul x' y')
       | Zneg y' -> Zpos (Pos.mul x' y'))

  (** val pow_pos : z -> positive -> z **)

  let pow_pos z0 =
    Pos.iter (mul z0) (Zpos XH)

  (** val pow : z -> z -> z **)

  let pow x = function
  | Z0 -> Zpos XH
  | Zpos p -> pow_pos x p
  | Zneg _ -> Z0

  (** val compare : z -> z -> comparison **)

  let compare x y =
    match x with
    | Z0 -> (match y with
             | Z0 -> Eq
             | Zpos _ -> Lt
             | Zneg _ -> Gt)
    | Zpos x' -> (match y with
                  | Zpos y' -> Pos.compare x' y'
                  | _ -> Gt)
    | Zneg x' ->
      (match y with
       | Zneg y' -> compOpp (Pos.compare x' y')
       | _ -> Lt)

  (** val leb : z -> z -> bool **)

  let leb x y =
    match compare x y with
    | Gt -> false
    | _ -> true

  (** val ltb : z -> z -> bool **)

  let ltb x y =
    match compare x y with
    | Lt -> true
    | _ -> false

  (** val eqb : z -> z -> bool **)

  let eqb x y =
    match x with
    | Z0 -> (match y with
             | Z0 -> true
             | _ -> false)
    | Zpos p -> (match y with
                 | Zpos q -> Pos.eqb p q
                 | _ -> false)
    | Zneg p -> (match y with
                 | Zneg q -> Pos.eqb p q
                 | _ -> false)

  (** val abs : z -> z **)

  let abs = function
  | Zneg p -> Zpos p
  | x -> x

  (** val to_nat : z -> nat **)

  let to_nat = function
  | Zpos p -> Pos.to_nat p
  | _ -> O

  (** val of_nat : nat -> z **)

  let of_nat = function
  | O -> Z0
  | S n1 -> Zpos (Pos.of_succ_nat n1)

  (** val of_N : n -> z **)

  let of_N = function
  | N0 -> Z0
  | Npos p -> Zpos p

  (** val pos_div_eucl : positive -> z -> z * z **)

  let rec pos_div_eucl a b =
    match a with
    | XI a' ->
      let (q, r) = pos_div_eucl a' b in
      let r' = add (mul (Zpos (XO XH)) r) (Zpos XH) in
      if ltb r' b
      then ((mul (Zpos (XO XH)) q), r')
      else ((add (mul (Zpos (XO XH)) q) (Zpos XH)), (sub r' b))
    | XO a' ->
      let (q, r) = pos_div_eucl a' b in
      let r' = mul (Zpos (XO XH)) r in
      if ltb r' b
      then ((mul (Zpos (XO XH)) q), r')
      else ((add (mul (Zpos (XO XH)) q) (Zpos XH)), (sub r' b))
    | XH -> if leb (Zpos (XO XH)) b then (Z0, (Zpos XH)) else ((Zpos XH), Z0)

  (** val div_eucl : z -> z -> z * z **)

  let div_eucl a b =
    match a with
    | Z0 -> (Z0, Z0)
    | Zpos a' ->
      (match b with
       | Z0 -> (Z0, a)
       | Zpos _ -> pos_div_eucl a' b
       | Zneg b' ->
         let (q, r) = pos_div_eucl a' (Zpos b') in
         (match r with
          | Z0 -> ((opp q), Z0)
          | _ -> ((opp (add q (Zpos XH))), (add b r))))
    | Zneg a' ->
      (match b with
       | Z0 -> (Z0, a)
       | Zpos _ ->
         let (q, r) = pos_div_eucl a' b in
         (match r with
          | Z0 -> ((opp q), Z0)
          | _ -> ((opp (add q (Zpos XH))), (sub b r)))
       | Zneg b' -> let (q, r) = pos_div_eucl a' (Zpos b') in (q, (opp r)))

  (** val div : z -> z -> z **)

  let div a b =
    let (q, _) = div_eucl a b in q

  (** val modulo : z -> z -> z **)

  let modulo a b =
    let (_, r) = div_eucl a b in r

  (** val div2 : z -> z **)

  let div2 = function
  | Z0 -> Z0
  | Zpos p -> (match p with
               | XH -> Z0
               | _ -> Zpos (Pos.div2 p))
  | Zneg p -> Zneg (Pos.div2_up p)

  (** val log2 : z -> z **)

  let log2 = function
  | Zpos p0 ->
    (match p0 with
     | XI p -> Zpos (Pos.size p)
     | XO p -> Zpos (Pos.size p)
     | XH -> Z0)
  | _ -> Z0

  (** val shiftl : z -> z -> z **)

  let shiftl a = function
  | Z0 -> a
  | Zpos p -> Pos.iter (mul (Zpos (XO XH))) a p
  | Zneg p -> Pos.iter div2 a p

  (** val coq_lor : z -> z -> z **)

  let coq_lor a b =
    match a with
    | Z0 -> b
    | Zpos a0 ->
      (match b with
       | Z0 -> a
       | Zpos b0 -> Zpos (Pos.coq_lor a0 b0)
       | Zneg b0 -> Zneg (N.succ_pos (N.ldiff (Pos.pred_N b0) (Npos a0))))
    | Zneg a0 ->
      (match b with
       | Z0 -> a
       | Zpos b0 -> Zneg (N.succ_pos (N.ldiff (Pos.pred_N a0) (Npos b0)))
       | Zneg b0 ->
         Zneg (N.succ_pos (N.coq_land (Pos.pred_N a0) (Pos.pred_N b0))))

  (** val coq_land : z -> z -> z **)

  let coq_land a b =
    match a with
    | Z0 -> Z0
    | Zpos a0 ->
      (match b with
       | Z0 -> Z0
       | Zpos b0 -> of_N (Pos.coq_land a0 b0)
       | Zneg b0 -> of_N (N.ldiff (Npos a0) (Pos.pred_N b0)))
    | Zneg a0 ->
      (match b with
       | Z0 -> Z0
       | Zpos b0 -> of_N (N.ldiff (Npos b0) (Pos.pred_N a0))
       | Zneg b0 ->
         Zneg (N.succ_pos (N.coq_lor (Pos.pred_N a0) (Pos.pred_N b0))))
 end

(** val nth : nat -> 'a1 list -> 'a1 -> 'a1 **)

let rec nth n0 l default =
  match n0 with
  | O -> (match l with
          | [] -> default
          | x :: _ -> x)
  | S m -> (match l with
            | [] -> default
            | _ :: t -> nth m t default)

(** val last : 'a1 list -> 'a1 -> 'a1 **)

let rec last l d =
  match l with
  | [] -> d
  | a :: l0 -> (match l0 with
                | [] -> a
                | _ :: _ -> last l0 d)

(** val forallb : ('a1 -> bool) -> 'a1 list -> bool **)

let rec forallb f = function
| [] -> true
| a :: l0 -> (&&) (f a) (forallb f l0)

(** val firstn : nat -> 'a1 list -> 'a1 list **)

let rec firstn n0 l =
  match n0 with
  | O -> []
  | S n1 -> (match l with
             | [] -> []
             | a :: l0 -> a :: (firstn n1 l0))

(** val ex_keep :
    (((((nat * n) * z) * z list) * z option) * positive) * bool **)

let ex_keep =
  ((((((O, N0), Z0), []), None), XH), true)

(** val min_int : z -> bool -> z **)

let min_int w = function
| true -> Z.opp (Z.pow (Zpos (XO XH)) (Z.sub w (Zpos XH)))
| false -> Z0

(** val max_int : z -> bool -> z **)

let max_int w = function
| true -> Z.sub (Z.pow (Zpos (XO XH)) (Z.sub w (Zpos XH))) (Zpos XH)
| false -> Z.sub (Z.pow (Zpos (XO XH)) w) (Zpos XH)

(** val in_rangeb : z -> bool -> z -> bool **)

let in_rangeb w s v =
  (&&) (Z.leb (min_int w s) v) (Z.leb v (max_int w s))

(** val wrap : z -> bool -> z -> z **)

let wrap w s v =
  if s
  then Z.sub
         (Z.modulo (Z.add v (Z.pow (Zpos (XO XH)) (Z.sub w (Zpos XH))))
           (Z.pow (Zpos (XO XH)) w))
         (Z.pow (Zpos (XO XH)) (Z.sub w (Zpos XH)))
  else Z.modulo v (Z.pow (Zpos (XO XH)) w)

type pylong = { pl_neg : bool; pl_digits : z list }

(** val mag : z -> z list -> z **)

let rec mag sh = function
| [] -> Z0
| d :: r -> Z.add d (Z.mul (Z.pow (Zpos (XO XH)) sh) (mag sh r))

(** val value : z -> pylong -> z **)

let value sh x =
  if x.pl_neg then Z.opp (mag sh x.pl_digits) else mag sh x.pl_digits

(** val ndigits : pylong -> z **)

let ndigits x =
  Z.of_nat (length x.pl_digits)

(** val digit : pylong -> nat -> z **)

let digit x i =
  nth i x.pl_digits Z0

(** val digit_okb : z -> z -> bool **)

let digit_okb sh d =
  (&&) (Z.leb Z0 d) (Z.ltb d (Z.pow (Zpos (XO XH)) sh))

(** val wfb : z -> pylong -> bool **)

let wfb sh x =
  (&&)
    ((&&) (forallb (digit_okb sh) x.pl_digits)
      (negb (Z.eqb (last x.pl_digits (Zpos XH)) Z0)))
    (match x.pl_digits with
     | [] -> negb x.pl_neg
     | _ :: _ -> true)

(** val joinl_c : z -> bool -> z -> z list -> z option **)

let rec joinl_c jw js sh = function
| [] -> Some Z0
| d :: r ->
  (match joinl_c jw js sh r with
   | Some a ->
     let shifted = Z.shiftl a sh in
     if (&&) js (negb (in_rangeb jw js shifted))
     then None
     else Some (Z.coq_lor (wrap jw js shifted) (wrap jw js d))
   | None -> None)

(** val join_c : z -> bool -> z -> nat -> pylong -> z option **)

let join_c jw js sh k x =
  joinl_c jw js sh (firstn k x.pl_digits)

(** val digits_of : z -> nat -> z -> z list **)

let rec digits_of sh fuel m =
  match fuel with
  | O -> []
  | S f ->
    if Z.leb m Z0
    then []
    else (Z.modulo m (Z.pow (Zpos (XO XH)) sh)) :: (digits_of sh f
                                                     (Z.div m
                                                       (Z.pow (Zpos (XO XH))
                                                         sh)))

(** val of_Z : z -> z -> pylong **)

let of_Z sh v =
  { pl_neg = (Z.ltb v Z0); pl_digits =
    (digits_of sh (S (Z.to_nat (Z.log2 (Z.abs v)))) (Z.abs v)) }

type cop =
| OpLt
| OpLe
| OpEq
| OpNe
| OpGt
| OpGe

type icfg = { i_sh : z; i_ssz : z; i_llong : z; i_tag312 : bool;
              i_internals : bool }

(** val lp64_312 : icfg **)

let lp64_312 =
  { i_sh = (Zpos (XO (XI (XI (XI XH))))); i_ssz = (Zpos (XO (XO (XO (XO (XO
    (XO XH))))))); i_llong = (Zpos (XO (XO (XO (XO (XO (XO XH)))))));
    i_tag312 = true; i_internals = true }

(** val lp64_311 : icfg **)

let lp64_311 =
  { i_sh = (Zpos (XO (XI (XI (XI XH))))); i_ssz = (Zpos (XO (XO (XO (XO (XO
    (XO XH))))))); i_llong = (Zpos (XO (XO (XO (XO (XO (XO XH)))))));
    i_tag312 = false; i_internals = true }

(** val lp64_noint : icfg **)

let lp64_noint =
  { i_sh = (Zpos (XO (XI (XI (XI XH))))); i_ssz = (Zpos (XO (XO (XO (XO (XO
    (XO XH))))))); i_llong = (Zpos (XO (XO (XO (XO (XO (XO XH)))))));
    i_tag312 = true; i_internals = false }

(** val ilp32_15 : icfg **)

let ilp32_15 =
  { i_sh = (Zpos (XI (XI (XI XH)))); i_ssz = (Zpos (XO (XO (XO (XO (XO
    XH)))))); i_llong = (Zpos (XO (XO (XO (XO (XO (XO XH))))))); i_tag312 =
    false; i_internals = true }

(** val zop : cop -> z -> z -> bool **)

let zop op x y =
  match op with
  | OpLt -> Z.ltb x y
  | OpLe -> Z.leb x y
  | OpEq -> Z.eqb x y
  | OpNe -> negb (Z.eqb x y)
  | OpGt -> Z.ltb y x
  | OpGe -> Z.leb y x

(** val in_eqlege : cop -> bool **)

let in_eqlege = function
| OpLt -> false
| OpNe -> false
| OpGt -> false
| _ -> true

(** val final : cop -> z -> bool **)

let final op cmp =
  match op with
  | OpLt -> Z.ltb cmp Z0
  | OpLe -> Z.ltb cmp Z0
  | OpEq -> false
  | OpNe -> true
  | _ -> negb (Z.ltb cmp Z0)

(** val signbits : pylong -> z **)

let signbits x =
  match x.pl_digits with
  | [] -> Zpos XH
  | _ :: _ -> if x.pl_neg then Zpos (XO XH) else Z0

(** val tag : pylong -> z **)

let tag x =
  Z.add (Z.mul (Zpos (XO (XO (XO XH)))) (ndigits x)) (signbits x)

(** val ssize : pylong -> z **)

let ssize x =
  if x.pl_neg then Z.opp (ndigits x) else ndigits x

(** val css : icfg -> pylong -> pylong -> z **)

let css c a b =
  if c.i_tag312
  then if Z.eqb (tag a) (tag b)
       then Z0
       else let sa = signbits a in
            let sb = signbits b in
            if Z.ltb sb sa
            then Zneg XH
            else if Z.ltb sa sb
                 then Zpos XH
                 else Z.mul (Z.sub (Zpos XH) sa)
                        (Z.sub (ndigits a) (ndigits b))
  else Z.sub (ssize a) (ssize b)

(** val is_neg : icfg -> pylong -> bool **)

let is_neg c x =
  if c.i_tag312
  then negb (Z.eqb (Z.coq_land (signbits x) (Zpos (XO XH))) Z0)
  else Z.ltb (ssize x) Z0

(** val sub_ss : z -> z -> z -> z option **)

let sub_ss w a b =
  if in_rangeb w true (Z.sub a b) then Some (Z.sub a b) else None

(** val dcast : z -> pylong -> nat -> z **)

let dcast w x i =
  wrap w true (digit x i)

(** val digit_loop : z -> pylong -> pylong -> nat -> z -> z option **)

let rec digit_loop w a b k cmp =
  match k with
  | O -> Some cmp
  | S i ->
    if Z.eqb cmp Z0
    then (match sub_ss w (dcast w a i) (dcast w b i) with
          | Some c -> digit_loop w a b i c
          | None -> None)
    else Some cmp

(** val digit_cmp : icfg -> pylong -> pylong -> z option **)

let digit_cmp c a b =
  let w = c.i_ssz in
  let size0 = ndigits a in
  if Z.ltb Z0 size0
  then if Z.eqb size0 (Zpos XH)
       then sub_ss w (dcast w a O) (dcast w b O)
       else if (&&) (Z.eqb size0 (Zpos (XO XH)))
                 (Z.leb (Z.mul (Zpos (XO XH)) c.i_sh) w)
            then (match join_c w false c.i_sh (S (S O)) a with
                  | Some ja ->
                    (match join_c w false c.i_sh (S (S O)) b with
                     | Some jb -> sub_ss w (wrap w true ja) (wrap w true jb)
                     | None -> None)
                  | None -> None)
            else digit_loop w a b (Z.to_nat size0) Z0
  else Some Z0

(** val as_llong_ovf : z -> z -> z * z **)

let as_llong_ovf lw v =
  if in_rangeb lw true v
  then (v, Z0)
  else if Z.ltb v Z0 then ((Zneg XH), (Zneg XH)) else ((Zneg XH), (Zpos XH))

(** val cmp_intint :
    icfg -> (cop -> z -> z -> bool) -> cop -> pylong -> pylong -> bool option **)

let cmp_intint c rich op a b =
  if c.i_internals
  then let cmp = css c a b in
       if Z.eqb cmp Z0
       then (match digit_cmp c a b with
             | Some d ->
               if Z.eqb d Z0
               then Some (in_eqlege op)
               else (match if is_neg c a then sub_ss c.i_ssz Z0 d else Some d with
                     | Some d' -> Some (final op d')
                     | None -> None)
             | None -> None)
       else Some (final op cmp)
  else let (v1, o1) = as_llong_ovf c.i_llong (value c.i_sh a) in
       let (v2, o2) = as_llong_ovf c.i_llong (value c.i_sh b) in
       if (&&) (Z.eqb o1 Z0) (Z.eqb o2 Z0)
       then Some (zop op v1 v2)
       else if negb (Z.eqb o1 o2)
            then Some (zop op o1 o2)
            else Some (rich op (value c.i_sh a) (value c.i_sh b))

(** val cmp_exact :
    icfg -> (cop -> z -> z -> bool) -> cop -> bool -> pylong -> pylong ->
    bool option **)

let cmp_exact c rich op same a b =
  if same then Some (in_eqlege op) else cmp_intint c rich op a b

type dbl =
| DNan
| DInf of bool
| DFin of z * z

(** val dbl_okb : dbl -> bool **)

let dbl_okb = function
| DFin (_, k) -> Z.leb Z0 k
| _ -> true

(** val is_finite : dbl -> bool **)

let is_finite = function
| DFin (_, _) -> true
| _ -> false

(** val dcmp : dbl -> dbl -> comparison option **)

let dcmp a b =
  match a with
  | DNan -> None
  | DInf na ->
    (match b with
     | DNan -> None
     | DInf nb ->
       Some (if na then if nb then Eq else Lt else if nb then Gt else Eq)
     | DFin (_, _) -> Some (if na then Lt else Gt))
  | DFin (n1, k1) ->
    (match b with
     | DNan -> None
     | DInf nb -> Some (if nb then Gt else Lt)
     | DFin (n2, k2) ->
       Some
         (Z.compare (Z.mul n1 (Z.pow (Zpos (XO XH)) k2))
           (Z.mul n2 (Z.pow (Zpos (XO XH)) k1))))

(** val cop_of : cop -> comparison option -> bool **)

let cop_of op = function
| Some c0 ->
  (match c0 with
   | Eq ->
     (match op with
      | OpLt -> false
      | OpNe -> false
      | OpGt -> false
      | _ -> true)
   | Lt ->
     (match op with
      | OpLt -> true
      | OpLe -> true
      | OpNe -> true
      | _ -> false)
   | Gt ->
     (match op with
      | OpLt -> false
      | OpLe -> false
      | OpEq -> false
      | _ -> true))
| None -> (match op with
           | OpNe -> true
           | _ -> false)

(** val dop : cop -> dbl -> dbl -> bool **)

let dop op a b =
  cop_of op (dcmp a b)

(** val fz_cmp : dbl -> z -> comparison option **)

let fz_cmp f z0 =
  match f with
  | DNan -> None
  | DInf neg -> Some (if neg then Lt else Gt)
  | DFin (n0, k) -> Some (Z.compare n0 (Z.mul z0 (Z.pow (Zpos (XO XH)) k)))

(** val zf_cmp : z -> dbl -> comparison option **)

let zf_cmp z0 = function
| DNan -> None
| DInf neg -> Some (if neg then Gt else Lt)
| DFin (n0, k) -> Some (Z.compare (Z.mul z0 (Z.pow (Zpos (XO XH)) k)) n0)

(** val fop : cop -> dbl -> z -> bool **)

let fop op f z0 =
  cop_of op (fz_cmp f z0)

(** val zfop : cop -> z -> dbl -> bool **)

let zfop op z0 f =
  cop_of op (zf_cmp z0 f)

(** val in_nelelt : cop -> bool **)

let in_nelelt = function
| OpLt -> true
| OpLe -> true
| OpNe -> true
| _ -> false

(** val in_negegt : cop -> bool **)

let in_negegt = function
| OpLt -> false
| OpLe -> false
| OpEq -> false
| _ -> true

(** val in_eqlelt : cop -> bool **)

let in_eqlelt = function
| OpLt -> true
| OpLe -> true
| OpEq -> true
| _ -> false

(** val in_eqgegt : cop -> bool **)

let in_eqgegt = function
| OpLt -> false
| OpLe -> false
| OpNe -> false
| _ -> true

type fcfg = { f_i : icfg; f_long : z }

(** val f_lp64_312 : fcfg **)

let f_lp64_312 =
  { f_i = lp64_312; f_long = (Zpos (XO (XO (XO (XO (XO (XO XH))))))) }

(** val f_lp64_311 : fcfg **)

let f_lp64_311 =
  { f_i = lp64_311; f_long = (Zpos (XO (XO (XO (XO (XO (XO XH))))))) }

(** val f_lp64_noint : fcfg **)

let f_lp64_noint =
  { f_i = lp64_noint; f_long = (Zpos (XO (XO (XO (XO (XO (XO XH))))))) }

(** val f_llp64_noint : fcfg **)

let f_llp64_noint =
  { f_i = lp64_noint; f_long = (Zpos (XO (XO (XO (XO (XO XH)))))) }

(** val f_ilp32_15 : fcfg **)

let f_ilp32_15 =
  { f_i = ilp32_15; f_long = (Zpos (XO (XO (XO (XO (XO XH)))))) }

(** val i2d : z -> dbl option **)

let i2d z0 =
  if Z.leb (Z.abs z0)
       (Z.pow (Zpos (XO XH)) (Zpos (XI (XO (XI (XO (XI XH)))))))
  then Some (DFin (z0, Z0))
  else None

(** val dzero : dbl **)

let dzero =
  DFin (Z0, Z0)

(** val two_sh : icfg -> dbl **)

let two_sh c =
  DFin ((Z.pow (Zpos (XO XH)) c.i_sh), Z0)

(** val neg_two_sh : icfg -> dbl **)

let neg_two_sh c =
  DFin ((Z.opp (Z.pow (Zpos (XO XH)) c.i_sh)), Z0)

(** val two53 : dbl **)

let two53 =
  DFin ((Z.pow (Zpos (XO XH)) (Zpos (XI (XO (XI (XO (XI XH))))))), Z0)

(** val neg_two53 : dbl **)

let neg_two53 =
  DFin ((Z.opp (Z.pow (Zpos (XO XH)) (Zpos (XI (XO (XI (XO (XI XH)))))))), Z0)

(** val compact : icfg -> pylong -> bool **)

let compact c x =
  if c.i_tag312
  then Z.ltb (tag x) (Zpos (XO (XO (XO (XO XH)))))
  else (||) ((||) (Z.eqb (ssize x) Z0) (Z.eqb (ssize x) (Zpos XH)))
         (Z.eqb (ssize x) (Zneg XH))

(** val sign_of : icfg -> pylong -> z **)

let sign_of c x =
  if c.i_tag312
  then Z.sub (Zpos XH) (signbits x)
  else if Z.eqb (ssize x) Z0
       then Z0
       else if Z.ltb (ssize x) Z0 then Zneg XH else Zpos XH

(** val compact_val : icfg -> pylong -> z **)

let compact_val c x =
  if c.i_tag312
  then Z.mul (Z.sub (Zpos XH) (signbits x)) (digit x O)
  else if Z.eqb (ssize x) Z0
       then Z0
       else if Z.ltb (ssize x) Z0 then Z.opp (digit x O) else digit x O

(** val long_or_overflow : z -> z -> (z, z) sum **)

let long_or_overflow lw v =
  let (iop, ovf) = as_llong_ovf lw v in
  if Z.eqb ovf Z0
  then if Z.leb (Z.pow (Zpos (XO XH)) (Zpos (XI (XO (XI (XO (XI XH))))))) iop
       then Inl (Zpos XH)
       else if Z.leb iop
                 (Z.opp
                   (Z.pow (Zpos (XO XH)) (Zpos (XI (XO (XI (XO (XI XH))))))))
            then Inl (Zneg XH)
            else Inr iop
  else Inl ovf

(** val via : dbl option -> (dbl -> bool) -> bool option **)

let via o k =
  match o with
  | Some d -> Some (k d)
  | None -> None

(** val cmp_floatint :
    fcfg -> (cop -> dbl -> z -> bool) -> cop -> dbl -> pylong -> bool option **)

let cmp_floatint c rich op f b =
  let ic = c.f_i in
  let fallback = Some (rich op f (value ic.i_sh b)) in
  if ic.i_internals
  then if compact ic b
       then via (i2d (compact_val ic b)) (fun d -> dop op f d)
       else if negb (is_finite f)
            then Some (dop op f dzero)
            else let sign2 = sign_of ic b in
                 if dop OpGe f dzero
                 then if Z.ltb sign2 Z0
                      then Some (in_negegt op)
                      else if dop OpLt f (two_sh ic)
                           then Some (in_nelelt op)
                           else fallback
                 else if Z.ltb Z0 sign2
                      then Some (in_nelelt op)
                      else if dop OpGt f (neg_two_sh ic)
                           then Some (negb (in_eqlelt op))
                           else fallback
  else if negb (is_finite f)
       then Some (dop op f dzero)
       else (match long_or_overflow c.f_long (value ic.i_sh b) with
             | Inl ovf ->
               if Z.ltb Z0 ovf
               then if dop OpLt f two53 then Some (in_nelelt op) else fallback
               else if dop OpGt f neg_two53
                    then Some (in_negegt op)
                    else fallback
             | Inr iop -> via (i2d iop) (fun d -> dop op f d))

(** val cmp_intfloat :
    fcfg -> (cop -> z -> dbl -> bool) -> cop -> pylong -> dbl -> bool option **)

let cmp_intfloat c rich op a f =
  let ic = c.f_i in
  let fallback = Some (rich op (value ic.i_sh a) f) in
  if ic.i_internals
  then if compact ic a
       then via (i2d (compact_val ic a)) (fun d -> dop op d f)
       else if negb (is_finite f)
            then Some (dop op dzero f)
            else let sign1 = sign_of ic a in
                 if dop OpGe f dzero
                 then if Z.ltb sign1 Z0
                      then Some (in_nelelt op)
                      else if dop OpLt f (two_sh ic)
                           then Some (in_negegt op)
                           else fallback
                 else if Z.ltb Z0 sign1
                      then Some (in_negegt op)
                      else if dop OpGt f (neg_two_sh ic)
                           then Some (negb (in_eqgegt op))
                           else fallback
  else if negb (is_finite f)
       then Some (dop op dzero f)
       else (match long_or_overflow c.f_long (value ic.i_sh a) with
             | Inl ovf ->
               if Z.ltb ovf Z0
               then if dop OpGt f two53 then Some (in_nelelt op) else fallback
               else if dop OpLt f neg_two53
                    then Some (in_negegt op)
                    else fallback
             | Inr iop -> via (i2d iop) (fun d -> dop op d f))

type num =
| NFloat of dbl
| NInt of pylong

(** val cmp_num :
    fcfg -> (cop -> dbl -> z -> bool) -> (cop -> z -> dbl -> bool) -> (cop ->
    z -> z -> bool) -> cop -> bool -> num -> num -> bool option **)

let cmp_num c richfz richzf richzz op same a b =
  match a with
  | NFloat f ->
    (match b with
     | NFloat g -> Some (dop op f g)
     | NInt y -> cmp_floatint c richfz op f y)
  | NInt x ->
    (match b with
     | NFloat g -> cmp_intfloat c richzf op x g
     | NInt y -> cmp_exact c.f_i richzz op same x y)

(** val fbranch : fcfg -> bool -> dbl -> pylong -> z **)

let fbranch c intleft f b =
  let ic = c.f_i in
  if ic.i_internals
  then if compact ic b
       then Zpos XH
       else if negb (is_finite f)
            then Zpos (XO XH)
            else let s = sign_of ic b in
                 if dop OpGe f dzero
                 then if Z.ltb s Z0
                      then Zpos (XI XH)
                      else if dop OpLt f (two_sh ic)
                           then Zpos (XO (XO XH))
                           else Zpos (XI (XO XH))
                 else if Z.ltb Z0 s
                      then Zpos (XI XH)
                      else if dop OpGt f (neg_two_sh ic)
                           then Zpos (XO (XO XH))
                           else Zpos (XI (XO XH))
  else if negb (is_finite f)
       then Zpos (XO (XI XH))
       else (match long_or_overflow c.f_long (value ic.i_sh b) with
             | Inl ovf ->
               if intleft
               then if Z.ltb ovf Z0
                    then if dop OpGt f two53
                         then Zpos (XO (XO (XO XH)))
                         else Zpos (XI (XO (XO XH)))
                    else if dop OpLt f neg_two53
                         then Zpos (XO (XO (XO XH)))
                         else Zpos (XI (XO (XO XH)))
               else if Z.ltb Z0 ovf
                    then if dop OpLt f two53
                         then Zpos (XO (XO (XO XH)))
                         else Zpos (XI (XO (XO XH)))
                    else if dop OpGt f neg_two53
                         then Zpos (XO (XO (XO XH)))
                         else Zpos (XI (XO (XO XH)))
             | Inr _ -> Zpos (XI (XI XH)))
