
val negb : bool -> bool

type nat =
| O
| S of nat

val length : 'a1 list -> nat

val app : 'a1 list -> 'a1 list -> 'a1 list

module Nat :
 sig
  val eqb : nat -> nat -> bool
 end

val rev : 'a1 list -> 'a1 list

val forallb : ('a1 -> bool) -> 'a1 list -> bool

type positive =
| XI of positive
| XO of positive
| XH

type n =
| N0
| Npos of positive

type z =
| Z0
| Zpos of positive
| Zneg of positive

val ex_keep : (((((nat * n) * z) * z list) * z option) * positive) * bool

type akind =
| APos
| AStar
| AKw
| ADStar

type atail =
| TEnd
| TComma
| TFor

type pitem =
| PGroup of nat list
| PUnpack of nat

type kitem =
| KPair of nat
| KUnpack of nat

type pstate = { positional : pitem list; keywords : kitem list;
                starstar_seen : bool; last_unpack : bool }

val pstate0 : pstate

val nonempty : 'a1 list -> bool

val step : bool -> pstate -> nat -> akind -> pstate option

val run : bool -> pstate -> nat -> akind list -> pstate option

val single_plain : pitem list -> bool

val finish : bool -> nat -> atail -> pstate -> bool

val parse_args :
  bool -> bool -> akind list -> atail -> (pitem list * kitem list) option

val accepts : bool -> bool -> akind list -> atail -> bool

val in_ps : akind -> bool

val in_ks : akind -> bool

val in_kd : akind -> bool

val drop_while : (akind -> bool) -> akind list -> akind list

val py_args_b : akind list -> bool

val py_valid_b : bool -> akind list -> atail -> bool
