
(** val negb : bool -> bool **)

let negb = function
| true -> false
| false -> true

type nat =
| O
| S of nat

type ('a, 'b) sum =
| Inl of 'a
| Inr of 'b

(** val length : 'a1 list -> nat **)

let rec length = function
| [] -> O
| _ :: l' -> S (length l')

type comparison =
| Eq
| Lt
| Gt

(** val compOpp : comparison -> comparison **)

let compOpp = function
| Eq -> Eq
| Lt -> Gt
| Gt -> Lt

module Coq__1 = struct
 (** val add : nat -> nat -> nat **)
 let rec add n0 m =
   match n0 with
   | O -> m
   | S p -> S (add p m)
end
include Coq__1

type positive =
| XI of positive
| XO of positive
| XH

type n =
| N0
| Npos of positive

type z =
| Z0
| Zpos of positive
| Zneg of positive

module Pos =
 struct
  (** val succ : positive -> positive **)

  let rec succ = function
  | XI p -> XO (succ p)
  | XO p -> XI p
  | XH -> XO XH

  (** val add : positive -> positive -> positive **)

  let rec add x y =
    match x with
    | XI p ->
      (match y with
       | XI q -> XO (add_carry p q)
       | XO q -> XI (add p q)
       | XH -> XO (succ p))
    | XO p ->
      (match y with
       | XI q -> XI (add p q)
       | XO q -> XO (add p q)
       | XH -> XI p)
    | XH -> (match y with
             | XI q -> XO (succ q)
             | XO q -> XI q
             | XH -> XO XH)

  (** val add_carry : positive -> positive -> positive **)

  and add_carry x y =
    match x with
    | XI p ->
      (match y with
       | XI q -> XI (add_carry p q)
       | XO q -> XO (add_carry p q)
       | XH -> XI (succ p))
    | XO p ->
      (match y with
       | XI q -> XO (add_carry p q)
       | XO q -> XI (add p q)
       | XH -> XO (succ p))
    | XH ->
      (match y with
       | XI q -> XI (succ q)
       | XO q -> XO (succ q)
       | XH -> XI XH)

  (** val pred_double : positive -> positive **)

  let rec pred_double = function
  | XI p -> XI (XO p)
  | XO p -> XI (pred_double p)
  | XH -> XH

  (** val pred_N : positive -> n **)

  let pred_N = function
  | XI p -> Npos (XO p)
  | XO p -> Npos (pred_double p)
  | XH -> N0

  (** val mul : positive -> positive -> positive **)

  let rec mul x y =
    match x with
    | XI p -> add y (XO (mul p y))
    | XO p -> XO (mul p y)
    | XH -> y

  (** val iter : ('a1 -> 'a1) -> 'a1 -> positive -> 'a1 **)

  let rec iter f x = function
  | XI n' -> f (iter f (iter f x n') n')
  | XO n' -> iter f (iter f x n') n'
  | XH -> f x

  (** val div2 : positive -> positive **)

  let div2 = function
  | XI p0 -> p0
  | XO p0 -> p0
  | XH -> XH

  (** val div2_up : positive -> positive **)

  let div2_up = function
  | XI p0 -> succ p0
  | XO p0 -> p0
  | XH -> XH

  (** val size : positive -> positive **)

  let rec size = function
  | XI p0 -> succ (size p0)
  | XO p0 -> succ (size p0)
  | XH -> XH

  (** val compare_cont : comparison -> positive -> positive -> comparison **)

  let rec compare_cont r x y =
    match x with
    | XI p ->
      (match y with
       | XI q -> compare_cont r p q
       | XO q -> compare_cont Gt p q
       | XH -> Gt)
    | XO p ->
      (match y with
       | XI q -> compare_cont Lt p q
       | XO q -> compare_cont r p q
       | XH -> Gt)
    | XH -> (match y with
             | XH -> r
             | _ -> Lt)

  (** val compare : positive -> positive -> comparison **)

  let compare =
    compare_cont Eq

  (** val eqb : positive -> positive -> bool **)

  let rec eqb p q =
    match p with
    | XI p0 -> (match q with
                | XI q0 -> eqb p0 q0
                | _ -> false)
    | XO p0 -> (match q with
                | XO q0 -> eqb p0 q0
                | _ -> false)
    | XH -> (match q with
             | XH -> true
             | _ -> false)

  (** val coq_Nsucc_double : n -> n **)

  let coq_Nsucc_double = function
  | N0 -> Npos XH
  | Npos p -> Npos (XI p)

  (** val coq_Ndouble : n -> n **)

  let coq_Ndouble = function
  | N0 -> N0
  | Npos p -> Npos (XO p)

  (** val coq_lor : positive -> positive -> positive **)

  let rec coq_lor p q =
    match p with
    | XI p0 ->
      (match q with
       | XI q0 -> XI (coq_lor p0 q0)
       | XO q0 -> XI (coq_lor p0 q0)
       | XH -> p)
    | XO p0 ->
      (match q with
       | XI q0 -> XI (coq_lor p0 q0)
       | XO q0 -> XO (coq_lor p0 q0)
       | XH -> XI p0)
    | XH -> (match q with
             | XO q0 -> XI q0
             | _ -> q)

  (** val coq_land : positive -> positive -> n **)

  let rec coq_land p q =
    match p with
    | XI p0 ->
      (match q with
       | XI q0 -> coq_Nsucc_double (coq_land p0 q0)
       | XO q0 -> coq_Ndouble (coq_land p0 q0)
       | XH -> Npos XH)
    | XO p0 ->
      (match q with
       | XI q0 -> coq_Ndouble (coq_land p0 q0)
       | XO q0 -> coq_Ndouble (coq_land p0 q0)
       | XH -> N0)
    | XH -> (match q with
             | XO _ -> N0
             | _ -> Npos XH)

  (** val ldiff : positive -> positive -> n **)

  let rec ldiff p q =
    match p with
    | XI p0 ->
      (match q with
       | XI q0 -> coq_Ndouble (ldiff p0 q0)
       | XO q0 -> coq_Nsucc_double (ldiff p0 q0)
       | XH -> Npos (XO p0))
    | XO p0 ->
      (match q with
       | XI q0 -> coq_Ndouble (ldiff p0 q0)
       | XO q0 -> coq_Ndouble (ldiff p0 q0)
       | XH -> Npos p)
    | XH -> (match q with
             | XO _ -> Npos XH
             | _ -> N0)

  (** val iter_op : ('a1 -> 'a1 -> 'a1) -> positive -> 'a1 -> 'a1 **)

  let rec iter_op op p a =
    match p with
    | XI p0 -> op a (iter_op op p0 (op a a))
    | XO p0 -> iter_op op p0 (op a a)
    | XH -> a

  (** val to_nat : positive -> nat **)

  let to_nat x =
    iter_op Coq__1.add x (S O)

  (** val of_succ_nat : nat -> positive **)

  let rec of_succ_nat = function
  | O -> XH
  | S x -> succ (of_succ_nat x)
 end

module N =
 struct
  (** val succ_pos : n -> positive **)

  let succ_pos = function
  | N0 -> XH
  | Npos p -> Pos.succ p

  (** val coq_lor : n -> n -> n **)

  let coq_lor n0 m =
    match n0 with
    | N0 -> m
    | Npos p -> (match m with
                 | N0 -> n0
                 | Npos q -> Npos (Pos.coq_lor p q))

  (** val coq_land : n -> n -> n **)

  let coq_land n0 m =
    match n0 with
    | N0 -> N0
    | Npos p -> (match m with
                 | N0 -> N0
                 | Npos q -> Pos.coq_land p q)

  (** val ldiff : n -> n -> n **)

  let ldiff n0 m =
    match n0 with
    | N0 -> N0
    | Npos p -> (match m with
                 | N0 -> n0
                 | Npos q -> Pos.ldiff p q)
 end

module Z =
 struct
  (** val double : z -> z **)

  let double = function
  | Z0 -> Z0
  | Zpos p -> Zpos (XO p)
  | Zneg p -> Zneg (XO p)

  (** val succ_double : z -> z **)

  let succ_double = function
  | Z0 -> Zpos XH
  | Zpos p -> Zpos (XI p)
  | Zneg p -> Zneg (Pos.pred_double p)

  (** val pred_double : z -> z **)

  let pred_double = function
  | Z0 -> Zneg XH
  | Zpos p -> Zpos (Pos.pred_double p)
  | Zneg p -> Zneg (XI p)

  (** val pos_sub : positive -> positive -> z **)

  let rec pos_sub x y =
    match x with
    | XI p ->
      (match y with
       | XI q -> double (pos_sub p q)
       | XO q -> succ_double (pos_sub p q)
       | XH -> Zpos (XO p))
    | XO p ->
      (match y with
       | XI q -> pred_double (pos_sub p q)
       | XO q -> double (pos_sub p q)
       | XH -> Zpos (Pos.pred_double p))
    | XH ->
      (match y with
       | XI q -> Zneg (XO q)
       | XO q -> Zneg (Pos.pred_double q)
       | XH -> Z0)

  (** val add : z -> z -> z **)

  let add x y =
    match x with
    | Z0 -> y
    | Zpos x' ->
      (match y with
       | Z0 -> x
       | Zpos y' -> Zpos (Pos.add x' y')
       | Zneg y' -> pos_sub x' y')
    | Zneg x' ->
      (match y with
       | Z0 -> x
       | Zpos y' -> pos_sub y' x'
       | Zneg y' -> Zneg (Pos.add x' y'))

  (** val opp : z -> z **)

  let opp = function
  | Z0 -> Z0
  | Zpos x0 -> Zneg x0
  | Zneg x0 -> Zpos x0

  (** val pred : z -> z **)

  let pred x =
    add x (Zneg XH)

  (** val sub : z -> z -> z **)

  let sub m n0 =
    add m (opp n0)

  (** val mul : z -> z -> z **)

  let mul x y =
    match x with
    | Z0 -> Z0
    | Zpos x' ->
      (match y with
       | Z0 -> Z0
       | Zpos y' -> Zpos (Pos.mul x' y')
       | Zneg y' -> Zneg (Pos.mul x' y'))
    | Zneg x' ->
      (match y with
       | Z0 -> Z0
       | Zpos y' -> Zneg (Pos.mul x' y')
       | Zneg y' -> Zpos (Pos.mul x' y'))

  (** val pow_pos : z -> positive -> z **)

  let pow_pos z0 =
    Pos.iter (mul z0) (Zpos XH)

  (** val pow : z -> z -> z **)

  let pow x = function
  | Z0 -> Zpos XH
  | Zpos p -> pow_pos x p
  | Zneg _ -> Z0

  (** val compare : z -> z -> comparison **)

  let compare x y =
    match x with
    | Z0 -> (match y with
             | Z0 -> Eq
             | Zpos _ -> Lt
             | Zneg _ -> Gt)
    | Zpos x' -> (match y with
                  | Zpos y' -> Pos.compare x' y'
                  | _ -> Gt)
    | Zneg x' ->
      (match y with
       | Zneg y' -> compOpp (Pos.compare x' y')
       | _ -> Lt)

  (** val leb : z -> z -> bool **)

  let leb x y =
    match compare x y with
    | Gt -> false
    | _ -> true

  (** val ltb : z -> z -> bool **)

  let ltb x y =
    match compare x y with
    | Lt -> true
    | _ -> false

  (** val eqb : z -> z -> bool **)

  let eqb x y =
    match x with
    | Z0 -> (match y with
             | Z0 -> true
             | _ -> false)
    | Zpos p -> (match y with
                 | Zpos q -> Pos.eqb p q
                 | _ -> false)
    | Zneg p -> (match y with
                 | Zneg q -> Pos.eqb p q
                 | _ -> false)

  (** val abs : z -> z **)

  let abs = function
  | Zneg p -> Zpos p
  | x -> x

  (** val to_nat : z -> nat **)

  let to_nat = function
  | Zpos p -> Pos.to_nat p
  | _ -> O

  (** val of_nat : nat -> z **)

  let of_nat = function
  | O -> Z0
  | S n1 -> Zpos (Pos.of_succ_nat n1)

  (** val of_N : n -> z **)

  let of_N = function
  | N0 -> Z0
  | Npos p -> Zpos p

  (** val pos_div_eucl : positive -> z -> z * z **)

  let rec pos_div_eucl a b =
    match a with
    | XI a' ->
      let (q, r) = pos_div_eucl a' b in
      let r' = add (mul (Zpos (XO XH)) r) (Zpos XH) in
      if ltb r' b
      then ((mul (Zpos (XO XH)) q), r')
      else ((add (mul (Zpos (XO XH)) q) (Zpos XH)), (sub r' b))
    | XO a' ->
      let (q, r) = pos_div_eucl a' b in
      let r' = mul (Zpos (XO XH)) r in
      if ltb r' b
      then ((mul (Zpos (XO XH)) q), r')
      else ((add (mul (Zpos (XO XH)) q) (Zpos XH)), (sub r' b))
    | XH -> if leb (Zpos (XO XH)) b then (Z0, (Zpos XH)) else ((Zpos XH), Z0)

  (** val div_eucl : z -> z -> z * z **)

  let div_eucl a b =
    match a with
    | Z0 -> (Z0, Z0)
    | Zpos a' ->
      (match b with
       | Z0 -> (Z0, a)
       | Zpos _ -> pos_div_eucl a' b
       | Zneg b' ->
         let (q, r) = pos_div_eucl a' (Zpos b') in
         (match r with
          | Z0 -> ((opp q), Z0)
          | _ -> ((opp (add q (Zpos XH))), (add b r))))
    | Zneg a' ->
      (match b with
       | Z0 -> (Z0, a)
       | Zpos _ ->
         let (q, r) = pos_div_eucl a' b in
         (match r with
          | Z0 -> ((opp q), Z0)
          | _ -> ((opp (add q (Zpos XH))), (sub b r)))
       | Zneg b' -> let (q, r) = pos_div_eucl a' (Zpos b') in (q, (opp r)))

  (** val div : z -> z -> z **)

  let div a b =
    let (q, _) = div_eucl a b in q

  (** val modulo : z -> z -> z **)

  let modulo a b =
    let (_, r) = div_eucl a b in r

  (** val div2 : z -> z **)

  let div2 = function
  | Z0 -> Z0
  | Zpos p -> (match p with
               | XH -> Z0
               | _ -> Zpos (Pos.div2 p))
  | Zneg p -> Zneg (Pos.div2_up p)

  (** val log2 : z -> z **)

  let log2 = function
  | Zpos p0 ->
    (match p0 with
     | XI p -> Zpos (Pos.size p)
     | XO p -> Zpos (Pos.size p)
     | XH -> Z0)
  | _ -> Z0

  (** val shiftl : z -> z -> z **)

  let shiftl a = function
  | Z0 -> a
  | Zpos p -> Pos.iter (mul (Zpos (XO XH))) a p
  | Zneg p -> Pos.iter div2 a p

  (** val shiftr : z -> z -> z **)

  let shiftr a n0 =
    shiftl a (opp n0)

  (** val coq_lor : z -> z -> z **)

  let coq_lor a b =
    match a with
    | Z0 -> b
    | Zpos a0 ->
      (match b with
       | Z0 -> a
       | Zpos b0 -> Zpos (Pos.coq_lor a0 b0)
       | Zneg b0 -> Zneg (N.succ_pos (N.ldiff (Pos.pred_N b0) (Npos a0))))
    | Zneg a0 ->
      (match b with
       | Z0 -> a
       | Zpos b0 -> Zneg (N.succ_pos (N.ldiff (Pos.pred_N a0) (Npos b0)))
       | Zneg b0 ->
         Zneg (N.succ_pos (N.coq_land (Pos.pred_N a0) (Pos.pred_N b0))))

  (** val coq_land : z -> z -> z **)

  let coq_land a b =
    match a with
    | Z0 -> Z0
    | Zpos a0 ->
      (match b with
       | Z0 -> Z0
       | Zpos b0 -> of_N (Pos.coq_land a0 b0)
       | Zneg b0 -> of_N (N.ldiff (Npos a0) (Pos.pred_N b0)))
    | Zneg a0 ->
      (match b with
       | Z0 -> Z0
       | Zpos b0 -> of_N (N.ldiff (Npos b0) (Pos.pred_N a0))
       | Zneg b0 ->
         Zneg (N.succ_pos (N.coq_lor (Pos.pred_N a0) (Pos.pred_N b0))))

  (** val lnot : z -> z **)

  let lnot a =
    pred (opp a)
 end

(** val nth : nat -> 'a1 list -> 'a1 -> 'a1 **)

let rec nth n0 l default =
  match n0 with
  | O -> (match l with
          | [] -> default
          | x :: _ -> x)
  | S m -> (match l with
            | [] -> default
            | _ :: t -> nth m t default)

(** val last : 'a1 list -> 'a1 -> 'a1 **)

let rec last l d =
  match l with
  | [] -> d
  | a :: l0 -> (match l0 with
                | [] -> a
                | _ :: _ -> last l0 d)

(** val forallb : ('a1 -> bool) -> 'a1 list -> bool **)

let rec forallb f = function
| [] -> true
| a :: l0 -> (&&) (f a) (forallb f l0)

(** val firstn : nat -> 'a1 list -> 'a1 list **)

let rec firstn n0 l =
  match n0 with
  | O -> []
  | S n1 -> (match l with
             | [] -> []
             | a :: l0 -> a :: (firstn n1 l0))

(** val ex_keep :
    (((((nat * n) * z) * z list) * z option) * positive) * bool **)

let ex_keep =
  ((((((O, N0), Z0), []), None), XH), true)

(** val min_int : z -> bool -> z **)

let min_int w = function
| true -> Z.opp (Z.pow (Zpos (XO XH)) (Z.sub w (Zpos XH)))
| false -> Z0

(** val max_int : z -> bool -> z **)

let max_int w = function
| true -> Z.sub (Z.pow (Zpos (XO XH)) (Z.sub w (Zpos XH))) (Zpos XH)
| false -> Z.sub (Z.pow (Zpos (XO XH)) w) (Zpos XH)

(** val in_rangeb : z -> bool -> z -> bool **)

let in_rangeb w s v =
  (&&) (Z.leb (min_int w s) v) (Z.leb v (max_int w s))

(** val wrap : z -> bool -> z -> z **)

let wrap w s v =
  if s
  then Z.sub
         (Z.modulo (Z.add v (Z.pow (Zpos (XO XH)) (Z.sub w (Zpos XH))))
           (Z.pow (Zpos (XO XH)) w))
         (Z.pow (Zpos (XO XH)) (Z.sub w (Zpos XH)))
  else Z.modulo v (Z.pow (Zpos (XO XH)) w)

(** val b2z : bool -> z **)

let b2z = function
| true -> Zpos XH
| false -> Z0

type pylong = { pl_neg : bool; pl_digits : z list }

(** val mag : z -> z list -> z **)

let rec mag sh = function
| [] -> Z0
| d :: r -> Z.add d (Z.mul (Z.pow (Zpos (XO XH)) sh) (mag sh r))

(** val value : z -> pylong -> z **)

let value sh x =
  if x.pl_neg then Z.opp (mag sh x.pl_digits) else mag sh x.pl_digits

(** val ndigits : pylong -> z **)

let ndigits x =
  Z.of_nat (length x.pl_digits)

(** val digit : pylong -> nat -> z **)

let digit x i =
  nth i x.pl_digits Z0

(** val digit_okb : z -> z -> bool **)

let digit_okb sh d =
  (&&) (Z.leb Z0 d) (Z.ltb d (Z.pow (Zpos (XO XH)) sh))

(** val wfb : z -> pylong -> bool **)

let wfb sh x =
  (&&)
    ((&&) (forallb (digit_okb sh) x.pl_digits)
      (negb (Z.eqb (last x.pl_digits (Zpos XH)) Z0)))
    (match x.pl_digits with
     | [] -> negb x.pl_neg
     | _ :: _ -> true)

(** val is_compact : pylong -> bool **)

let is_compact x =
  Z.ltb (ndigits x) (Zpos (XO XH))

(** val compact_uvalue : pylong -> z **)

let compact_uvalue x =
  digit x O

(** val compact_value : pylong -> z **)

let compact_value x =
  if x.pl_neg then Z.opp (digit x O) else digit x O

(** val joinl_c : z -> bool -> z -> z list -> z option **)

let rec joinl_c jw js sh = function
| [] -> Some Z0
| d :: r ->
  (match joinl_c jw js sh r with
   | Some a ->
     let shifted = Z.shiftl a sh in
     if (&&) js (negb (in_rangeb jw js shifted))
     then None
     else Some (Z.coq_lor (wrap jw js shifted) (wrap jw js d))
   | None -> None)

(** val join_c : z -> bool -> z -> nat -> pylong -> z option **)

let join_c jw js sh k x =
  joinl_c jw js sh (firstn k x.pl_digits)

(** val digits_of : z -> nat -> z -> z list **)

let rec digits_of sh fuel m =
  match fuel with
  | O -> []
  | S f ->
    if Z.leb m Z0
    then []
    else (Z.modulo m (Z.pow (Zpos (XO XH)) sh)) :: (digits_of sh f
                                                     (Z.div m
                                                       (Z.pow (Zpos (XO XH))
                                                         sh)))

(** val of_Z : z -> z -> pylong **)

let of_Z sh v =
  { pl_neg = (Z.ltb v Z0); pl_digits =
    (digits_of sh (S (Z.to_nat (Z.log2 (Z.abs v)))) (Z.abs v)) }

type cfg = { c_sh : z; c_int : z; c_long : z; c_llong : z; c_ssize : 
             z; c_compact : z; c_internals : bool; c_asint : bool;
             c_chunks : bool; c_slots : bool }

(** val lp64_internals : cfg **)

let lp64_internals =
  { c_sh = (Zpos (XO (XI (XI (XI XH))))); c_int = (Zpos (XO (XO (XO (XO (XO
    XH)))))); c_long = (Zpos (XO (XO (XO (XO (XO (XO XH))))))); c_llong =
    (Zpos (XO (XO (XO (XO (XO (XO XH))))))); c_ssize = (Zpos (XO (XO (XO (XO
    (XO (XO XH))))))); c_compact = (Zpos (XO (XO (XO (XO (XO (XO XH)))))));
    c_internals = true; c_asint = false; c_chunks = false; c_slots = true }

(** val lp64_nointernals : cfg **)

let lp64_nointernals =
  { c_sh = (Zpos (XO (XI (XI (XI XH))))); c_int = (Zpos (XO (XO (XO (XO (XO
    XH)))))); c_long = (Zpos (XO (XO (XO (XO (XO (XO XH))))))); c_llong =
    (Zpos (XO (XO (XO (XO (XO (XO XH))))))); c_ssize = (Zpos (XO (XO (XO (XO
    (XO (XO XH))))))); c_compact = (Zpos (XO (XO (XO (XO (XO (XO XH)))))));
    c_internals = false; c_asint = false; c_chunks = false; c_slots = true }

(** val lp64_limited : cfg **)

let lp64_limited =
  { c_sh = (Zpos (XO (XI (XI (XI XH))))); c_int = (Zpos (XO (XO (XO (XO (XO
    XH)))))); c_long = (Zpos (XO (XO (XO (XO (XO (XO XH))))))); c_llong =
    (Zpos (XO (XO (XO (XO (XO (XO XH))))))); c_ssize = (Zpos (XO (XO (XO (XO
    (XO (XO XH))))))); c_compact = (Zpos (XO (XO (XO (XO (XO (XO XH)))))));
    c_internals = false; c_asint = false; c_chunks = true; c_slots = false }

type err =
| Overflow
| NegOverflow
| CPyOverflow
| CPyNegOverflow
| CPyBytesOverflow
| TypeErr
| OtherErr

type cres =
| Ret of z * err option
| UB
| OutOfFuel

type outcome =
| Ok of z
| Err of err
| Lost of z * err
| Undefined
| Stuck

(** val observe : z -> bool -> cres -> outcome **)

let observe w s = function
| Ret (v, e0) ->
  (match e0 with
   | Some e -> if Z.eqb v (wrap w s (Zneg XH)) then Err e else Lost (v, e)
   | None -> Ok v)
| UB -> Undefined
| OutOfFuel -> Stuck

(** val is_some : 'a1 option -> bool **)

let is_some = function
| Some _ -> true
| None -> false

(** val api_as_signed : z -> z -> z * err option **)

let api_as_signed fw v =
  if in_rangeb fw true v then (v, None) else ((Zneg XH), (Some CPyOverflow))

(** val api_as_unsigned : z -> z -> z * err option **)

let api_as_unsigned fw v =
  if Z.ltb v Z0
  then ((wrap fw false (Zneg XH)), (Some CPyNegOverflow))
  else if in_rangeb fw false v
       then (v, None)
       else ((wrap fw false (Zneg XH)), (Some CPyOverflow))

(** val raise_overflow : z -> bool -> cres **)

let raise_overflow w s =
  Ret ((wrap w s (Zneg XH)), (Some Overflow))

(** val raise_neg_overflow : z -> bool -> cres **)

let raise_neg_overflow w s =
  Ret ((wrap w s (Zneg XH)), (Some NegOverflow))

(** val verify :
    z -> bool -> z -> bool -> bool -> (z * err option) -> cres **)

let verify w s fw fs exc = function
| (v, e) ->
  if Z.ltb w fw
  then if negb (Z.eqb v (wrap fw fs (wrap w s v)))
       then if (&&) ((&&) exc (Z.eqb v (wrap fw fs (Zneg XH)))) (is_some e)
            then Ret ((wrap w s (Zneg XH)), e)
            else if (&&) (negb s) (Z.ltb v Z0)
                 then raise_neg_overflow w s
                 else raise_overflow w s
       else Ret ((wrap w s v), e)
  else Ret ((wrap w s v), e)

(** val chain : (bool * cres option) list -> cres option **)

let rec chain = function
| [] -> None
| p :: rest -> let (g, b) = p in if g then b else chain rest

(** val of_join : z option -> (z -> cres) -> cres **)

let of_join j k =
  match j with
  | Some v -> k v
  | None -> UB

(** val large_bytearray : z -> bool -> z -> cres **)

let large_bytearray w s v =
  if (&&) (negb s) (Z.ltb v Z0)
  then Ret ((wrap w s (Zneg XH)), (Some CPyNegOverflow))
  else if in_rangeb w s v
       then Ret (v, None)
       else Ret ((wrap w s (Zneg XH)), (Some CPyBytesOverflow))

(** val or_shifted : z -> bool -> z -> z -> z -> z option **)

let or_shifted w s val0 idigit bits =
  let sh = Z.shiftl (wrap w s idigit) bits in
  if (&&) s (negb (in_rangeb w s sh))
  then None
  else Some (Z.coq_lor val0 (wrap w s sh))

(** val chunk_loop :
    nat -> z -> z -> bool -> z -> z -> z -> z -> (cres, (z * z) * z) sum
    option **)

let rec chunk_loop fuel c_long0 w s chunk bits stepval val0 =
  match fuel with
  | O -> None
  | S f ->
    if Z.ltb bits (Z.sub w chunk)
    then let digit0 =
           Z.coq_land stepval (Z.sub (Z.pow (Zpos (XO XH)) chunk) (Zpos XH))
         in
         let (idigit, e) = api_as_signed c_long0 digit0 in
         if Z.ltb idigit Z0
         then Some (Inl (Ret ((wrap w s (Zneg XH)), e)))
         else (match or_shifted w s val0 idigit bits with
               | Some val' ->
                 chunk_loop f c_long0 w s chunk (Z.add bits chunk)
                   (Z.shiftr stepval chunk) val'
               | None -> Some (Inl UB))
    else Some (Inr ((bits, stepval), val0))

(** val large_chunks : cfg -> z -> bool -> z -> cres **)

let large_chunks c w s v =
  let chunk =
    if Z.ltb c.c_long (Zpos (XO (XO (XO (XO (XO (XO XH)))))))
    then Zpos (XO (XI (XI (XI XH))))
    else Zpos (XO (XI (XI (XI (XI XH)))))
  in
  let is_negative = Z.ltb v Z0 in
  if (&&) (negb s) is_negative
  then raise_neg_overflow w s
  else let stepval = if is_negative then Z.lnot v else v in
       (match chunk_loop (S (Z.to_nat w)) c.c_long w s chunk Z0 stepval Z0 with
        | Some s0 ->
          (match s0 with
           | Inl r -> r
           | Inr p ->
             let (p0, val0) = p in
             let (bits, stepval0) = p0 in
             let (idigit, e) = api_as_signed c.c_long stepval0 in
             if Z.ltb idigit Z0
             then Ret ((wrap w s (Zneg XH)), e)
             else let remaining_bits =
                    Z.sub (Z.sub w bits) (if s then Zpos XH else Z0)
                  in
                  if (||) (Z.ltb remaining_bits Z0)
                       (Z.leb (Z.sub c.c_long (Zpos XH)) remaining_bits)
                  then UB
                  else if Z.leb (Z.pow (Zpos (XO XH)) remaining_bits) idigit
                       then raise_overflow w s
                       else (match or_shifted w s val0 idigit bits with
                             | Some val' ->
                               if s
                               then if negb
                                         (Z.eqb
                                           (Z.coq_land val'
                                             (wrap w s
                                               (Z.shiftl (Zpos XH)
                                                 (Z.sub w (Zpos XH))))) Z0)
                                    then raise_overflow w s
                                    else Ret
                                           ((if is_negative
                                             then wrap w s (Z.lnot val')
                                             else val'), None)
                               else Ret (val', None)
                             | None -> UB))
        | None -> OutOfFuel)

(** val large : cfg -> z -> bool -> z -> cres **)

let large c w s v =
  if c.c_chunks then large_chunks c w s v else large_bytearray w s v

(** val ulong_branch : cfg -> z -> pylong -> nat -> bool * cres option **)

let ulong_branch c w x k =
  let sh = c.c_sh in
  let kz = Z.of_nat k in
  (((&&) (Z.eqb (ndigits x) kz) (Z.ltb (Z.mul (Z.sub kz (Zpos XH)) sh) w)),
  (if Z.ltb (Z.mul kz sh) c.c_long
   then Some
          (of_join (join_c c.c_long false sh k x) (fun j ->
            verify w false c.c_long false false (j, None)))
   else if Z.leb (Z.mul kz sh) w
        then Some
               (of_join (join_c w false sh k x) (fun j -> Ret
                 ((wrap w false j), None)))
        else None))

(** val pyulong : cfg -> z -> pylong -> cres **)

let pyulong c w x =
  let v = value c.c_sh x in
  let pre =
    if c.c_internals
    then chain
           ((ulong_branch c w x (S (S O))) :: ((ulong_branch c w x (S (S (S
                                                 O)))) :: ((ulong_branch c w
                                                             x (S (S (S (S
                                                             O))))) :: [])))
    else if Z.ltb v Z0 then Some (raise_neg_overflow w false) else None
  in
  (match pre with
   | Some r -> r
   | None ->
     if Z.leb w c.c_long
     then verify w false c.c_long false true (api_as_unsigned c.c_long v)
     else if Z.leb w c.c_llong
          then verify w false c.c_llong false true
                 (api_as_unsigned c.c_llong v)
          else large c w false v)

(** val slong_neg_branch : cfg -> z -> pylong -> nat -> bool * cres option **)

let slong_neg_branch c w x k =
  let sh = c.c_sh in
  let kz = Z.of_nat k in
  let lw = c.c_long in
  (((&&) (Z.eqb (ndigits x) kz) (Z.ltb (Z.mul (Z.sub kz (Zpos XH)) sh) w)),
  (if Z.ltb (Z.mul kz sh) lw
   then Some
          (of_join (join_c lw false sh k x) (fun j ->
            let jl = wrap lw true j in
            if Z.eqb jl (min_int lw true)
            then UB
            else verify w true lw true false ((Z.opp jl), None)))
   else if Z.ltb (Z.mul kz sh) (Z.sub w (Zpos XH))
        then Some
               (of_join (join_c w true sh k x) (fun j ->
                 if in_rangeb w true (Z.opp j)
                 then Ret ((wrap w true (Z.opp j)), None)
                 else UB))
        else None))

(** val slong_pos_branch : cfg -> z -> pylong -> nat -> bool * cres option **)

let slong_pos_branch c w x k =
  let sh = c.c_sh in
  let kz = Z.of_nat k in
  let lw = c.c_long in
  (((&&) (Z.eqb (ndigits x) kz) (Z.ltb (Z.mul (Z.sub kz (Zpos XH)) sh) w)),
  (if Z.ltb (Z.mul kz sh) lw
   then Some
          (of_join (join_c lw false sh k x) (fun j ->
            verify w true lw false false (j, None)))
   else if Z.ltb (Z.mul kz sh) (Z.sub w (Zpos XH))
        then Some
               (of_join (join_c w true sh k x) (fun j -> Ret
                 ((wrap w true j), None)))
        else None))

(** val pyslong : cfg -> z -> pylong -> cres **)

let pyslong c w x =
  let v = value c.c_sh x in
  let pre =
    if c.c_internals
    then if x.pl_neg
         then chain
                ((slong_neg_branch c w x (S (S O))) :: ((slong_neg_branch c w
                                                          x (S (S (S O)))) :: (
                (slong_neg_branch c w x (S (S (S (S O))))) :: [])))
         else chain
                ((slong_pos_branch c w x (S (S O))) :: ((slong_pos_branch c w
                                                          x (S (S (S O)))) :: (
                (slong_pos_branch c w x (S (S (S (S O))))) :: [])))
    else None
  in
  (match pre with
   | Some r -> r
   | None ->
     if (&&) ((&&) c.c_asint (Z.leb w c.c_int)) (Z.ltb c.c_int c.c_long)
     then verify w true c.c_int true true (api_as_signed c.c_int v)
     else if Z.leb w c.c_long
          then verify w true c.c_long true true (api_as_signed c.c_long v)
          else if Z.leb w c.c_llong
               then verify w true c.c_llong true true
                      (api_as_signed c.c_llong v)
               else large c w true v)

(** val from_py : cfg -> z -> bool -> pylong -> cres **)

let from_py c w s x =
  if negb s
  then if c.c_internals
       then if x.pl_neg
            then raise_neg_overflow w s
            else if is_compact x
                 then verify w s c.c_compact false false ((compact_uvalue x),
                        None)
                 else pyulong c w x
       else pyulong c w x
  else if (&&) c.c_internals (is_compact x)
       then verify w s c.c_compact true false ((compact_value x), None)
       else pyslong c w x

(** val to_py : cfg -> z -> bool -> z -> z **)

let to_py c w s v =
  if negb s
  then if Z.ltb w c.c_long
       then wrap c.c_long true v
       else if Z.leb w c.c_long
            then wrap c.c_long false v
            else if Z.leb w c.c_llong
                 then wrap c.c_llong false v
                 else wrap w s v
  else if Z.leb w c.c_long
       then wrap c.c_long true v
       else if Z.leb w c.c_llong then wrap c.c_llong true v else wrap w s v

(** val roundtrip : cfg -> z -> bool -> pylong -> outcome **)

let roundtrip c w s x =
  match observe w s (from_py c w s x) with
  | Ok v -> Ok (to_py c w s v)
  | x0 -> x0

type slot_result =
| SR_int of pylong
| SR_raise
| SR_nonint

type objkind = { nb_int : slot_result option; nb_index : slot_result option }

type pyobj =
| PInt of pylong
| PObj of objkind

(** val run_slot : slot_result -> (pylong, err) sum **)

let run_slot = function
| SR_int x -> Inl x
| SR_raise -> Inr OtherErr
| SR_nonint -> Inr TypeErr

(** val pynumber_long : cfg -> objkind -> (pylong, err) sum **)

let pynumber_long c k =
  match k.nb_int with
  | Some r -> run_slot r
  | None ->
    if c.c_slots
    then Inr TypeErr
    else (match k.nb_index with
          | Some r -> run_slot r
          | None -> Inr TypeErr)

(** val pynumber_index : objkind -> (pylong, err) sum **)

let pynumber_index k =
  match k.nb_index with
  | Some r -> run_slot r
  | None -> Inr TypeErr

(** val from_py_obj : cfg -> z -> bool -> pyobj -> cres **)

let from_py_obj c w s = function
| PInt x -> from_py c w s x
| PObj k ->
  (match pynumber_long c k with
   | Inl x -> from_py c w s x
   | Inr e -> Ret ((wrap w s (Zneg XH)), (Some e)))

(** val ssize_branch : cfg -> pylong -> nat -> bool * cres option **)

let ssize_branch c x k =
  let sh = c.c_sh in
  let kz = Z.of_nat k in
  let zw = c.c_ssize in
  (((&&) (Z.ltb (Z.mul kz sh) zw) (Z.eqb (ndigits x) kz)), (Some
  (of_join (join_c zw false sh k x) (fun j ->
    let ival = wrap zw true j in
    if x.pl_neg
    then if Z.eqb ival (min_int zw true) then UB else Ret ((Z.opp ival), None)
    else Ret (ival, None)))))

(** val pylong_as_ssize_t : cfg -> pylong -> cres **)

let pylong_as_ssize_t c x =
  let api =
    let (v, e) = api_as_signed c.c_ssize (value c.c_sh x) in Ret (v, e)
  in
  if c.c_internals
  then if Z.eqb (ndigits x) Z0
       then Ret (Z0, None)
       else (match chain
                     ((ssize_branch c x (S O)) :: ((ssize_branch c x (S (S
                                                     O))) :: ((ssize_branch c
                                                                x (S (S (S
                                                                O)))) :: (
                     (ssize_branch c x (S (S (S (S O))))) :: [])))) with
             | Some r -> r
             | None -> api)
  else api

(** val pyindex_as_ssize_t : cfg -> pyobj -> cres **)

let pyindex_as_ssize_t c = function
| PInt x -> pylong_as_ssize_t c x
| PObj k ->
  (match pynumber_index k with
   | Inl x -> pylong_as_ssize_t c x
   | Inr e -> Ret ((Zneg XH), (Some e)))

(** val bint_from_py : cfg -> pylong -> z **)

let bint_from_py c x =
  b2z (negb (Z.eqb (value c.c_sh x) Z0))
