
(** val xorb : bool -> bool -> bool **)

let xorb b1 b2 =
  if b1 then if b2 then false else true else b2

(** val negb : bool -> bool **)

let negb = function
| true -> false
| false -> true

type nat =
| O
| S of nat

(** val fst : ('a1 * 'a2) -> 'a1 **)

let fst = function
| (x, _) -> x

type comparison =
| Eq
| Lt
| Gt

(** val compOpp : comparison -> comparison **)

let compOpp = function
| Eq -> Eq
| Lt -> Gt
| Gt -> Lt

type positive =
| XI of positive
| XO of positive
| XH

type n =
| N0
| Npos of positive

type z =
| Z0
| Zpos of positive
| Zneg of positive

(** val eqb : bool -> bool -> bool **)

let eqb b1 b2 =
  if b1 then b2 else if b2 then false else true

module Pos =
 struct
  type mask =
  | IsNul
  | IsPos of positive
  | IsNeg
 end

module Coq_Pos =
 struct
  (** val succ : positive -> positive **)

  let rec succ = function
  | XI p -> XO (succ p)
  | XO p -> XI p
  | XH -> XO XH

  (** val add : positive -> positive -> positive **)

  let rec add x y =
    match x with
    | XI p ->
      (match y with
       | XI q -> XO (add_carry p q)
       | XO q -> XI (add p q)
       | XH -> XO (succ p))
    | XO p ->
      (match y with
       | XI q -> XI (add p q)
       | XO q -> XO (add p q)
       | XH -> XI p)
    | XH -> (match y with
             | XI q -> XO (succ q)
             | XO q -> XI q
             | XH -> XO XH)

  (** val add_carry : positive -> positive -> positive **)

  and add_carry x y =
    match x with
    | XI p ->
      (match y with
       | XI q -> XI (add_carry p q)
       | XO q -> XO (add_carry p q)
       | XH -> XI (succ p))
    | XO p ->
      (match y with
       | XI q -> XO (add_carry p q)
       | XO q -> XI (add p q)
       | XH -> XO (succ p))
    | XH ->
      (match y with
       | XI q -> XI (succ q)
       | XO q -> XO (succ q)
       | XH -> XI XH)

  (** val pred_double : positive -> positive **)

  let rec pred_double = function
  | XI p -> XI (XO p)
  | XO p -> XI (pred_double p)
  | XH -> XH

  type mask = Pos.mask =
  | IsNul
  | IsPos of positive
  | IsNeg

  (** val succ_double_mask : mask -> mask **)

  let succ_double_mask = function
  | IsNul -> IsPos XH
  | IsPos p -> IsPos (XI p)
  | IsNeg -> IsNeg

  (** val double_mask : mask -> mask **)

  let double_mask = function
  | IsPos p -> IsPos (XO p)
  | x0 -> x0

  (** val double_pred_mask : positive -> mask **)

  let double_pred_mask = function
  | XI p -> IsPos (XO (XO p))
  | XO p -> IsPos (XO (pred_double p))
  | XH -> IsNul

  (** val sub_mask : positive -> positive -> mask **)

  let rec sub_mask x y =
    match x with
    | XI p ->
      (match y with
       | XI q -> double_mask (sub_mask p q)
       | XO q -> succ_double_mask (sub_mask p q)
       | XH -> IsPos (XO p))
    | XO p ->
      (match y with
       | XI q -> succ_double_mask (sub_mask_carry p q)
       | XO q -> double_mask (sub_mask p q)
       | XH -> IsPos (pred_double p))
    | XH -> (match y with
             | XH -> IsNul
             | _ -> IsNeg)

  (** val sub_mask_carry : positive -> positive -> mask **)

  and sub_mask_carry x y =
    match x with
    | XI p ->
      (match y with
       | XI q -> succ_double_mask (sub_mask_carry p q)
       | XO q -> double_mask (sub_mask p q)
       | XH -> IsPos (pred_double p))
    | XO p ->
      (match y with
       | XI q -> double_mask (sub_mask_carry p q)
       | XO q -> succ_double_mask (sub_mask_carry p q)
       | XH -> double_pred_mask p)
    | XH -> IsNeg

  (** val mul : positive -> positive -> positive **)

  let rec mul x y =
    match x with
    | XI p -> add y (XO (mul p y))
    | XO p -> XO (mul p y)
    | XH -> y

  (** val iter : ('a1 -> 'a1) -> 'a1 -> positive -> 'a1 **)

  let rec iter f0 x = function
  | XI n' -> f0 (iter f0 (iter f0 x n') n')
  | XO n' -> iter f0 (iter f0 x n') n'
  | XH -> f0 x

  (** val div2 : positive -> positive **)

  let div2 = function
  | XI p0 -> p0
  | XO p0 -> p0
  | XH -> XH

  (** val div2_up : positive -> positive **)

  let div2_up = function
  | XI p0 -> succ p0
  | XO p0 -> p0
  | XH -> XH

  (** val compare_cont : comparison -> positive -> positive -> comparison **)

  let rec compare_cont r x y =
    match x with
    | XI p ->
      (match y with
       | XI q -> compare_cont r p q
       | XO q -> compare_cont Gt p q
       | XH -> Gt)
    | XO p ->
      (match y with
       | XI q -> compare_cont Lt p q
       | XO q -> compare_cont r p q
       | XH -> Gt)
    | XH -> (match y with
             | XH -> r
             | _ -> Lt)

  (** val compare : positive -> positive -> comparison **)

  let compare =
    compare_cont Eq

  (** val leb : positive -> positive -> bool **)

  let leb x y =
    match compare x y with
    | Gt -> false
    | _ -> true

  (** val sqrtrem_step :
      (positive -> positive) -> (positive -> positive) -> (positive * mask)
      -> positive * mask **)

  let sqrtrem_step f0 g = function
  | (s, y) ->
    (match y with
     | IsPos r ->
       let s' = XI (XO s) in
       let r' = g (f0 r) in
       if leb s' r' then ((XI s), (sub_mask r' s')) else ((XO s), (IsPos r'))
     | _ -> ((XO s), (sub_mask (g (f0 XH)) (XO (XO XH)))))

  (** val sqrtrem : positive -> positive * mask **)

  let rec sqrtrem = function
  | XI p0 ->
    (match p0 with
     | XI p1 -> sqrtrem_step (fun x -> XI x) (fun x -> XI x) (sqrtrem p1)
     | XO p1 -> sqrtrem_step (fun x -> XO x) (fun x -> XI x) (sqrtrem p1)
     | XH -> (XH, (IsPos (XO XH))))
  | XO p0 ->
    (match p0 with
     | XI p1 -> sqrtrem_step (fun x -> XI x) (fun x -> XO x) (sqrtrem p1)
     | XO p1 -> sqrtrem_step (fun x -> XO x) (fun x -> XO x) (sqrtrem p1)
     | XH -> (XH, (IsPos XH)))
  | XH -> (XH, IsNul)
 end

module Z =
 struct
  (** val double : z -> z **)

  let double = function
  | Z0 -> Z0
  | Zpos p -> Zpos (XO p)
  | Zneg p -> Zneg (XO p)

  (** val succ_double : z -> z **)

  let succ_double = function
  | Z0 -> Zpos XH
  | Zpos p -> Zpos (XI p)
  | Zneg p -> Zneg (Coq_Pos.pred_double p)

  (** val pred_double : z -> z **)

  let pred_double = function
  | Z0 -> Zneg XH
  | Zpos p -> Zpos (Coq_Pos.pred_double p)
  | Zneg p -> Zneg (XI p)

  (** val pos_sub : positive -> positive -> z **)

  let rec pos_sub x y =
    match x with
    | XI p ->
      (match y with
       | XI q -> double (pos_sub p q)
       | XO q -> succ_double (pos_sub p q)
       | XH -> Zpos (XO p))
    | XO p ->
      (match y with
       | XI q -> pred_double (pos_sub p q)
       | XO q -> double (pos_sub p q)
       | XH -> Zpos (Coq_Pos.pred_double p))
    | XH ->
      (match y with
       | XI q -> Zneg (XO q)
       | XO q -> Zneg (Coq_Pos.pred_double q)
       | XH -> Z0)

  (** val add : z -> z -> z **)

  let add x y =
    match x with
    | Z0 -> y
    | Zpos x' ->
      (match y with
       | Z0 -> x
       | Zpos y' -> Zpos (Coq_Pos.add x' y')
       | Zneg y' -> pos_sub x' y')
    | Zneg x' ->
      (match y with
       | Z0 -> x
       | Zpos y' -> pos_sub y' x'
       | Zneg y' -> Zneg (Coq_Pos.add x' y'))

  (** val opp : z -> z **)

  let opp = function
  | Z0 -> Z0
  | Zpos x0 -> Zneg x0
  | Zneg x0 -> Zpos x0

  (** val sub : z -> z -> z **)

  let sub m n0 =
    add m (opp n0)

  (** val mul : z -> z -> z **)

  let mul x y =
    match x with
    | Z0 -> Z0
    | Zpos x' ->
      (match y with
       | Z0 -> Z0
       | Zpos y' -> Zpos (Coq_Pos.mul x' y')
       | Zneg y' -> Zneg (Coq_Pos.mul x' y'))
    | Zneg x' ->
      (match y with
       | Z0 -> Z0
       | Zpos y' -> Zneg (Coq_Pos.mul x' y')
       | Zneg y' -> Zpos (Coq_Pos.mul x' y'))

  (** val pow_pos : z -> positive -> z **)

  let pow_pos z0 =
    Coq_Pos.iter (mul z0) (Zpos XH)

  (** val pow : z -> z -> z **)

  let pow x = function
  | Z0 -> Zpos XH
  | Zpos p -> pow_pos x p
  | Zneg _ -> Z0

  (** val compare : z -> z -> comparison **)

  let compare x y =
    match x with
    | Z0 -> (match y with
             | Z0 -> Eq
             | Zpos _ -> Lt
             | Zneg _ -> Gt)
    | Zpos x' -> (match y with
                  | Zpos y' -> Coq_Pos.compare x' y'
                  | _ -> Gt)
    | Zneg x' ->
      (match y with
       | Zneg y' -> compOpp (Coq_Pos.compare x' y')
       | _ -> Lt)

  (** val leb : z -> z -> bool **)

  let leb x y =
    match compare x y with
    | Gt -> false
    | _ -> true

  (** val ltb : z -> z -> bool **)

  let ltb x y =
    match compare x y with
    | Lt -> true
    | _ -> false

  (** val max : z -> z -> z **)

  let max n0 m =
    match compare n0 m with
    | Lt -> m
    | _ -> n0

  (** val min : z -> z -> z **)

  let min n0 m =
    match compare n0 m with
    | Gt -> m
    | _ -> n0

  (** val pos_div_eucl : positive -> z -> z * z **)

  let rec pos_div_eucl a b =
    match a with
    | XI a' ->
      let (q, r) = pos_div_eucl a' b in
      let r' = add (mul (Zpos (XO XH)) r) (Zpos XH) in
      if ltb r' b
      then ((mul (Zpos (XO XH)) q), r')
      else ((add (mul (Zpos (XO XH)) q) (Zpos XH)), (sub r' b))
    | XO a' ->
      let (q, r) = pos_div_eucl a' b in
      let r' = mul (Zpos (XO XH)) r in
      if ltb r' b
      then ((mul (Zpos (XO XH)) q), r')
      else ((add (mul (Zpos (XO XH)) q) (Zpos XH)), (sub r' b))
    | XH -> if leb (Zpos (XO XH)) b then (Z0, (Zpos XH)) else ((Zpos XH), Z0)

  (** val div_eucl : z -> z -> z * z **)

  let div_eucl a b =
    match a with
    | Z0 -> (Z0, Z0)
    | Zpos a' ->
      (match b with
       | Z0 -> (Z0, a)
       | Zpos _ -> pos_div_eucl a' b
       | Zneg b' ->
         let (q, r) = pos_div_eucl a' (Zpos b') in
         (match r with
          | Z0 -> ((opp q), Z0)
          | _ -> ((opp (add q (Zpos XH))), (add b r))))
    | Zneg a' ->
      (match b with
       | Z0 -> (Z0, a)
       | Zpos _ ->
         let (q, r) = pos_div_eucl a' b in
         (match r with
          | Z0 -> ((opp q), Z0)
          | _ -> ((opp (add q (Zpos XH))), (sub b r)))
       | Zneg b' -> let (q, r) = pos_div_eucl a' (Zpos b') in (q, (opp r)))

  (** val div : z -> z -> z **)

  let div a b =
    let (q, _) = div_eucl a b in q

  (** val even : z -> bool **)

  let even = function
  | Z0 -> true
  | Zpos p -> (match p with
               | XO _ -> true
               | _ -> false)
  | Zneg p -> (match p with
               | XO _ -> true
               | _ -> false)

  (** val div2 : z -> z **)

  let div2 = function
  | Z0 -> Z0
  | Zpos p -> (match p with
               | XH -> Z0
               | _ -> Zpos (Coq_Pos.div2 p))
  | Zneg p -> Zneg (Coq_Pos.div2_up p)

  (** val sqrtrem : z -> z * z **)

  let sqrtrem = function
  | Zpos p ->
    let (s, m) = Coq_Pos.sqrtrem p in
    (match m with
     | Coq_Pos.IsPos r -> ((Zpos s), (Zpos r))
     | _ -> ((Zpos s), Z0))
  | _ -> (Z0, Z0)

  (** val shiftl : z -> z -> z **)

  let shiftl a = function
  | Z0 -> a
  | Zpos p -> Coq_Pos.iter (mul (Zpos (XO XH))) a p
  | Zneg p -> Coq_Pos.iter div2 a p
 end

(** val zeq_bool : z -> z -> bool **)

let zeq_bool x y =
  match Z.compare x y with
  | Eq -> true
  | _ -> false

(** val shift_pos : positive -> positive -> positive **)

let shift_pos n0 z0 =
  Coq_Pos.iter (fun x -> XO x) z0 n0

type spec_float =
| S754_zero of bool
| S754_infinity of bool
| S754_nan
| S754_finite of bool * positive * z

(** val emin : z -> z -> z **)

let emin prec emax =
  Z.sub (Z.sub (Zpos (XI XH)) emax) prec

(** val fexp : z -> z -> z -> z **)

let fexp prec emax e =
  Z.max (Z.sub e prec) (emin prec emax)

(** val digits2_pos : positive -> positive **)

let rec digits2_pos = function
| XI p -> Coq_Pos.succ (digits2_pos p)
| XO p -> Coq_Pos.succ (digits2_pos p)
| XH -> XH

(** val zdigits2 : z -> z **)

let zdigits2 n0 = match n0 with
| Z0 -> n0
| Zpos p -> Zpos (digits2_pos p)
| Zneg p -> Zpos (digits2_pos p)

(** val canonical_mantissa : z -> z -> positive -> z -> bool **)

let canonical_mantissa prec emax m e =
  zeq_bool (fexp prec emax (Z.add (Zpos (digits2_pos m)) e)) e

(** val bounded : z -> z -> positive -> z -> bool **)

let bounded prec emax m e =
  (&&) (canonical_mantissa prec emax m e) (Z.leb e (Z.sub emax prec))

(** val valid_binary : z -> z -> spec_float -> bool **)

let valid_binary prec emax = function
| S754_finite (_, m, e) -> bounded prec emax m e
| _ -> true

(** val iter_pos : ('a1 -> 'a1) -> positive -> 'a1 -> 'a1 **)

let rec iter_pos f0 n0 x =
  match n0 with
  | XI n' -> iter_pos f0 n' (iter_pos f0 n' (f0 x))
  | XO n' -> iter_pos f0 n' (iter_pos f0 n' x)
  | XH -> f0 x

type location =
| Loc_Exact
| Loc_Inexact of comparison

type shr_record = { shr_m : z; shr_r : bool; shr_s : bool }

(** val shr_1 : shr_record -> shr_record **)

let shr_1 mrs =
  let { shr_m = m; shr_r = r; shr_s = s } = mrs in
  let s0 = (||) r s in
  (match m with
   | Z0 -> { shr_m = Z0; shr_r = false; shr_s = s0 }
   | Zpos p0 ->
     (match p0 with
      | XI p -> { shr_m = (Zpos p); shr_r = true; shr_s = s0 }
      | XO p -> { shr_m = (Zpos p); shr_r = false; shr_s = s0 }
      | XH -> { shr_m = Z0; shr_r = true; shr_s = s0 })
   | Zneg p0 ->
     (match p0 with
      | XI p -> { shr_m = (Zneg p); shr_r = true; shr_s = s0 }
      | XO p -> { shr_m = (Zneg p); shr_r = false; shr_s = s0 }
      | XH -> { shr_m = Z0; shr_r = true; shr_s = s0 }))

(** val loc_of_shr_record : shr_record -> location **)

let loc_of_shr_record mrs =
  let { shr_m = _; shr_r = shr_r0; shr_s = shr_s0 } = mrs in
  if shr_r0
  then if shr_s0 then Loc_Inexact Gt else Loc_Inexact Eq
  else if shr_s0 then Loc_Inexact Lt else Loc_Exact

(** val shr_record_of_loc : z -> location -> shr_record **)

let shr_record_of_loc m = function
| Loc_Exact -> { shr_m = m; shr_r = false; shr_s = false }
| Loc_Inexact c ->
  (match c with
   | Eq -> { shr_m = m; shr_r = true; shr_s = false }
   | Lt -> { shr_m = m; shr_r = false; shr_s = true }
   | Gt -> { shr_m = m; shr_r = true; shr_s = true })

(** val shr : shr_record -> z -> z -> shr_record * z **)

let shr mrs e n0 = match n0 with
| Zpos p -> ((iter_pos shr_1 p mrs), (Z.add e n0))
| _ -> (mrs, e)

(** val shr_fexp : z -> z -> z -> z -> location -> shr_record * z **)

let shr_fexp prec emax m e l =
  shr (shr_record_of_loc m l) e
    (Z.sub (fexp prec emax (Z.add (zdigits2 m) e)) e)

(** val round_nearest_even : z -> location -> z **)

let round_nearest_even mx = function
| Loc_Exact -> mx
| Loc_Inexact c ->
  (match c with
   | Eq -> if Z.even mx then mx else Z.add mx (Zpos XH)
   | Lt -> mx
   | Gt -> Z.add mx (Zpos XH))

(** val binary_round_aux :
    z -> z -> bool -> z -> z -> location -> spec_float **)

let binary_round_aux prec emax sx mx ex lx =
  let (mrs', e') = shr_fexp prec emax mx ex lx in
  let (mrs'', e'') =
    shr_fexp prec emax
      (round_nearest_even mrs'.shr_m (loc_of_shr_record mrs')) e' Loc_Exact
  in
  (match mrs''.shr_m with
   | Z0 -> S754_zero sx
   | Zpos m ->
     if Z.leb e'' (Z.sub emax prec)
     then S754_finite (sx, m, e'')
     else S754_infinity sx
   | Zneg _ -> S754_nan)

(** val shl_align : positive -> z -> z -> positive * z **)

let shl_align mx ex ex' =
  match Z.sub ex' ex with
  | Zneg d -> ((shift_pos d mx), ex')
  | _ -> (mx, ex)

(** val binary_round : z -> z -> bool -> positive -> z -> spec_float **)

let binary_round prec emax sx mx ex =
  let (mz, ez) =
    shl_align mx ex (fexp prec emax (Z.add (Zpos (digits2_pos mx)) ex))
  in
  binary_round_aux prec emax sx (Zpos mz) ez Loc_Exact

(** val binary_normalize : z -> z -> z -> z -> bool -> spec_float **)

let binary_normalize prec emax m e szero =
  match m with
  | Z0 -> S754_zero szero
  | Zpos m0 -> binary_round prec emax false m0 e
  | Zneg m0 -> binary_round prec emax true m0 e

(** val sFopp : spec_float -> spec_float **)

let sFopp = function
| S754_zero sx -> S754_zero (negb sx)
| S754_infinity sx -> S754_infinity (negb sx)
| S754_nan -> S754_nan
| S754_finite (sx, mx, ex) -> S754_finite ((negb sx), mx, ex)

(** val sFabs : spec_float -> spec_float **)

let sFabs = function
| S754_zero _ -> S754_zero false
| S754_infinity _ -> S754_infinity false
| S754_nan -> S754_nan
| S754_finite (_, mx, ex) -> S754_finite (false, mx, ex)

(** val sFcompare : spec_float -> spec_float -> comparison option **)

let sFcompare f1 f2 =
  match f1 with
  | S754_zero _ ->
    (match f2 with
     | S754_zero _ -> Some Eq
     | S754_infinity s -> Some (if s then Gt else Lt)
     | S754_nan -> None
     | S754_finite (s, _, _) -> Some (if s then Gt else Lt))
  | S754_infinity s ->
    (match f2 with
     | S754_infinity s0 ->
       Some (if s then if s0 then Eq else Lt else if s0 then Gt else Eq)
     | S754_nan -> None
     | _ -> Some (if s then Lt else Gt))
  | S754_nan -> None
  | S754_finite (s1, m1, e1) ->
    (match f2 with
     | S754_zero _ -> Some (if s1 then Lt else Gt)
     | S754_infinity s -> Some (if s then Gt else Lt)
     | S754_nan -> None
     | S754_finite (s2, m2, e2) ->
       Some
         (if s1
          then if s2
               then (match Z.compare e1 e2 with
                     | Eq -> compOpp (Coq_Pos.compare_cont Eq m1 m2)
                     | Lt -> Gt
                     | Gt -> Lt)
               else Lt
          else if s2
               then Gt
               else (match Z.compare e1 e2 with
                     | Eq -> Coq_Pos.compare_cont Eq m1 m2
                     | x -> x)))

(** val sFeqb : spec_float -> spec_float -> bool **)

let sFeqb f1 f2 =
  match sFcompare f1 f2 with
  | Some c -> (match c with
               | Eq -> true
               | _ -> false)
  | None -> false

(** val sFltb : spec_float -> spec_float -> bool **)

let sFltb f1 f2 =
  match sFcompare f1 f2 with
  | Some c -> (match c with
               | Lt -> true
               | _ -> false)
  | None -> false

(** val sFleb : spec_float -> spec_float -> bool **)

let sFleb f1 f2 =
  match sFcompare f1 f2 with
  | Some c -> (match c with
               | Gt -> false
               | _ -> true)
  | None -> false

(** val sFmul : z -> z -> spec_float -> spec_float -> spec_float **)

let sFmul prec emax x y =
  match x with
  | S754_zero sx ->
    (match y with
     | S754_zero sy -> S754_zero (xorb sx sy)
     | S754_finite (sy, _, _) -> S754_zero (xorb sx sy)
     | _ -> S754_nan)
  | S754_infinity sx ->
    (match y with
     | S754_infinity sy -> S754_infinity (xorb sx sy)
     | S754_finite (sy, _, _) -> S754_infinity (xorb sx sy)
     | _ -> S754_nan)
  | S754_nan -> S754_nan
  | S754_finite (sx, mx, ex) ->
    (match y with
     | S754_zero sy -> S754_zero (xorb sx sy)
     | S754_infinity sy -> S754_infinity (xorb sx sy)
     | S754_nan -> S754_nan
     | S754_finite (sy, my, ey) ->
       binary_round_aux prec emax (xorb sx sy) (Zpos (Coq_Pos.mul mx my))
         (Z.add ex ey) Loc_Exact)

(** val cond_Zopp : bool -> z -> z **)

let cond_Zopp b m =
  if b then Z.opp m else m

(** val sFadd : z -> z -> spec_float -> spec_float -> spec_float **)

let sFadd prec emax x y =
  match x with
  | S754_zero sx ->
    (match y with
     | S754_zero sy -> if eqb sx sy then x else S754_zero false
     | S754_nan -> S754_nan
     | _ -> y)
  | S754_infinity sx ->
    (match y with
     | S754_infinity sy -> if eqb sx sy then x else S754_nan
     | S754_nan -> S754_nan
     | _ -> x)
  | S754_nan -> S754_nan
  | S754_finite (sx, mx, ex) ->
    (match y with
     | S754_zero _ -> x
     | S754_infinity _ -> y
     | S754_nan -> S754_nan
     | S754_finite (sy, my, ey) ->
       let ez = Z.min ex ey in
       binary_normalize prec emax
         (Z.add (cond_Zopp sx (Zpos (fst (shl_align mx ex ez))))
           (cond_Zopp sy (Zpos (fst (shl_align my ey ez))))) ez false)

(** val sFsub : z -> z -> spec_float -> spec_float -> spec_float **)

let sFsub prec emax x y =
  match x with
  | S754_zero sx ->
    (match y with
     | S754_zero sy -> if eqb sx (negb sy) then x else S754_zero false
     | S754_infinity sy -> S754_infinity (negb sy)
     | S754_nan -> S754_nan
     | S754_finite (sy, my, ey) -> S754_finite ((negb sy), my, ey))
  | S754_infinity sx ->
    (match y with
     | S754_infinity sy -> if eqb sx (negb sy) then x else S754_nan
     | S754_nan -> S754_nan
     | _ -> x)
  | S754_nan -> S754_nan
  | S754_finite (sx, mx, ex) ->
    (match y with
     | S754_zero _ -> x
     | S754_infinity sy -> S754_infinity (negb sy)
     | S754_nan -> S754_nan
     | S754_finite (sy, my, ey) ->
       let ez = Z.min ex ey in
       binary_normalize prec emax
         (Z.sub (cond_Zopp sx (Zpos (fst (shl_align mx ex ez))))
           (cond_Zopp sy (Zpos (fst (shl_align my ey ez))))) ez false)

(** val new_location_even : z -> z -> location **)

let new_location_even nb_steps k =
  if zeq_bool k Z0
  then Loc_Exact
  else Loc_Inexact (Z.compare (Z.mul (Zpos (XO XH)) k) nb_steps)

(** val new_location_odd : z -> z -> location **)

let new_location_odd nb_steps k =
  if zeq_bool k Z0
  then Loc_Exact
  else Loc_Inexact
         (match Z.compare (Z.add (Z.mul (Zpos (XO XH)) k) (Zpos XH)) nb_steps with
          | Eq -> Lt
          | x -> x)

(** val new_location : z -> z -> location **)

let new_location nb_steps =
  if Z.even nb_steps
  then new_location_even nb_steps
  else new_location_odd nb_steps

(** val sFdiv_core_binary :
    z -> z -> z -> z -> z -> z -> (z * z) * location **)

let sFdiv_core_binary prec emax m1 e1 m2 e2 =
  let d1 = zdigits2 m1 in
  let d2 = zdigits2 m2 in
  let e' =
    Z.min (fexp prec emax (Z.sub (Z.add d1 e1) (Z.add d2 e2))) (Z.sub e1 e2)
  in
  let s = Z.sub (Z.sub e1 e2) e' in
  let m' = match s with
           | Z0 -> m1
           | Zpos _ -> Z.shiftl m1 s
           | Zneg _ -> Z0 in
  let (q, r) = Z.div_eucl m' m2 in ((q, e'), (new_location m2 r))

(** val sFdiv : z -> z -> spec_float -> spec_float -> spec_float **)

let sFdiv prec emax x y =
  match x with
  | S754_zero sx ->
    (match y with
     | S754_infinity sy -> S754_zero (xorb sx sy)
     | S754_finite (sy, _, _) -> S754_zero (xorb sx sy)
     | _ -> S754_nan)
  | S754_infinity sx ->
    (match y with
     | S754_zero sy -> S754_infinity (xorb sx sy)
     | S754_finite (sy, _, _) -> S754_infinity (xorb sx sy)
     | _ -> S754_nan)
  | S754_nan -> S754_nan
  | S754_finite (sx, mx, ex) ->
    (match y with
     | S754_zero sy -> S754_infinity (xorb sx sy)
     | S754_infinity sy -> S754_zero (xorb sx sy)
     | S754_nan -> S754_nan
     | S754_finite (sy, my, ey) ->
       let (p, lz) = sFdiv_core_binary prec emax (Zpos mx) ex (Zpos my) ey in
       let (mz, ez) = p in binary_round_aux prec emax (xorb sx sy) mz ez lz)

(** val sFsqrt_core_binary : z -> z -> z -> z -> (z * z) * location **)

let sFsqrt_core_binary prec emax m e =
  let d = zdigits2 m in
  let e' =
    Z.min (fexp prec emax (Z.div2 (Z.add (Z.add d e) (Zpos XH)))) (Z.div2 e)
  in
  let s = Z.sub e (Z.mul (Zpos (XO XH)) e') in
  let m' = match s with
           | Z0 -> m
           | Zpos _ -> Z.shiftl m s
           | Zneg _ -> Z0 in
  let (q, r) = Z.sqrtrem m' in
  let l =
    if zeq_bool r Z0
    then Loc_Exact
    else Loc_Inexact (if Z.leb r q then Lt else Gt)
  in
  ((q, e'), l)

(** val sFsqrt : z -> z -> spec_float -> spec_float **)

let sFsqrt prec emax x = match x with
| S754_zero _ -> x
| S754_infinity s -> if s then S754_nan else x
| S754_nan -> S754_nan
| S754_finite (sx, mx, ex) ->
  if sx
  then S754_nan
  else let (p, lz) = sFsqrt_core_binary prec emax (Zpos mx) ex in
       let (mz, ez) = p in binary_round_aux prec emax false mz ez lz

(** val ex_keep :
    (((((nat * n) * z) * z list) * z option) * positive) * bool **)

let ex_keep =
  ((((((O, N0), Z0), []), None), XH), true)

type f = spec_float

(** val dprec : z **)

let dprec =
  Zpos (XI (XO (XI (XO (XI XH)))))

(** val demax : z **)

let demax =
  Zpos (XO (XO (XO (XO (XO (XO (XO (XO (XO (XO XH))))))))))

(** val fadd : f -> f -> f **)

let fadd =
  sFadd dprec demax

(** val fsub : f -> f -> f **)

let fsub =
  sFsub dprec demax

(** val fmul : f -> f -> f **)

let fmul =
  sFmul dprec demax

(** val fdiv : f -> f -> f **)

let fdiv =
  sFdiv dprec demax

(** val feqb : f -> f -> bool **)

let feqb =
  sFeqb

(** val fltb : f -> f -> bool **)

let fltb =
  sFltb

(** val fleb : f -> f -> bool **)

let fleb =
  sFleb

(** val fvalid : f -> bool **)

let fvalid =
  valid_binary dprec demax

(** val fzero : f **)

let fzero =
  S754_zero false

(** val fone : f **)

let fone =
  S754_finite (false, (XO (XO (XO (XO (XO (XO (XO (XO (XO (XO (XO (XO (XO (XO
    (XO (XO (XO (XO (XO (XO (XO (XO (XO (XO (XO (XO (XO (XO (XO (XO (XO (XO
    (XO (XO (XO (XO (XO (XO (XO (XO (XO (XO (XO (XO (XO (XO (XO (XO (XO (XO
    (XO (XO XH)))))))))))))))))))))))))))))))))))))))))))))))))))), (Zneg (XO
    (XO (XI (XO (XI XH)))))))

(** val floor_exact : f -> f **)

let floor_exact x = match x with
| S754_finite (s, m, e) ->
  if Z.leb Z0 e
  then x
  else binary_normalize dprec demax
         (Z.div (cond_Zopp s (Zpos m)) (Z.pow (Zpos (XO XH)) (Z.opp e))) Z0 s
| _ -> x

type cplx = { re : f; im : f }

(** val fopp : f -> f **)

let fopp =
  sFopp

(** val fabs : f -> f **)

let fabs =
  sFabs

(** val fsqrt : f -> f **)

let fsqrt =
  sFsqrt dprec demax

(** val fgeb : f -> f -> bool **)

let fgeb x y =
  fleb y x

(** val is_inf : f -> bool **)

let is_inf = function
| S754_infinity _ -> true
| _ -> false

(** val c_1 : cplx **)

let c_1 =
  { re = fone; im = fzero }

(** val f100 : f **)

let f100 =
  S754_finite (false, (XO (XO (XO (XO (XO (XO (XO (XO (XO (XO (XO (XO (XO (XO
    (XO (XO (XO (XO (XO (XO (XO (XO (XO (XO (XO (XO (XO (XO (XO (XO (XO (XO
    (XO (XO (XO (XO (XO (XO (XO (XO (XO (XO (XO (XO (XO (XO (XO (XO (XI (XO
    (XO (XI XH)))))))))))))))))))))))))))))))))))))))))))))))))))), (Zneg (XO
    (XI (XI (XI (XO XH)))))))

(** val c_eq : cplx -> cplx -> bool **)

let c_eq a b =
  (&&) (feqb a.re b.re) (feqb a.im b.im)

(** val c_sum : cplx -> cplx -> cplx **)

let c_sum a b =
  { re = (fadd a.re b.re); im = (fadd a.im b.im) }

(** val c_diff : cplx -> cplx -> cplx **)

let c_diff a b =
  { re = (fsub a.re b.re); im = (fsub a.im b.im) }

(** val c_prod : cplx -> cplx -> cplx **)

let c_prod a b =
  { re = (fsub (fmul a.re b.re) (fmul a.im b.im)); im =
    (fadd (fmul a.re b.im) (fmul a.im b.re)) }

(** val c_neg : cplx -> cplx **)

let c_neg a =
  { re = (fopp a.re); im = (fopp a.im) }

(** val c_is_zero : cplx -> bool **)

let c_is_zero a =
  (&&) (feqb a.re fzero) (feqb a.im fzero)

(** val c_conj : cplx -> cplx **)

let c_conj a =
  { re = a.re; im = (fopp a.im) }

(** val c_quot_old : cplx -> cplx -> cplx **)

let c_quot_old a b =
  if feqb b.im fzero
  then { re = (fdiv a.re b.re); im = (fdiv a.im b.re) }
  else if fgeb (fabs b.re) (fabs b.im)
       then if (&&) (feqb b.re fzero) (feqb b.im fzero)
            then { re = (fdiv a.re b.re); im = (fdiv a.im b.im) }
            else let r = fdiv b.im b.re in
                 let s = fdiv fone (fadd b.re (fmul b.im r)) in
                 { re = (fmul (fadd a.re (fmul a.im r)) s); im =
                 (fmul (fsub a.im (fmul a.re r)) s) }
       else let r = fdiv b.re b.im in
            let s = fdiv fone (fadd b.im (fmul b.re r)) in
            { re = (fmul (fadd (fmul a.re r) a.im) s); im =
            (fmul (fsub (fmul a.im r) a.re) s) }

(** val c_quot_new : cplx -> cplx -> cplx **)

let c_quot_new a b =
  let abs_breal = if fltb b.re fzero then fopp b.re else b.re in
  let abs_bimag = if fltb b.im fzero then fopp b.im else b.im in
  if fgeb abs_breal abs_bimag
  then if feqb abs_breal fzero
       then { re = (fdiv a.re abs_breal); im = (fdiv a.im abs_breal) }
       else let ratio = fdiv b.im b.re in
            let denom = fadd b.re (fmul b.im ratio) in
            { re = (fdiv (fadd a.re (fmul a.im ratio)) denom); im =
            (fdiv (fsub a.im (fmul a.re ratio)) denom) }
  else if fgeb abs_bimag abs_breal
       then let ratio = fdiv b.re b.im in
            let denom = fadd (fmul b.re ratio) b.im in
            { re = (fdiv (fadd (fmul a.re ratio) a.im) denom); im =
            (fdiv (fsub (fmul a.im ratio) a.re) denom) }
       else { re = S754_nan; im = S754_nan }

(** val c_quot : bool -> cplx -> cplx -> cplx **)

let c_quot = function
| true -> c_quot_new
| false -> c_quot_old

type divres =
| DivVal of cplx
| DivZeroDiv

(** val div_node : bool -> bool -> cplx -> cplx -> divres **)

let div_node fixed cdivision a b =
  if (&&) (negb cdivision) (c_is_zero b)
  then DivZeroDiv
  else DivVal (c_quot fixed a b)

(** val int_min : z **)

let int_min =
  Zneg (XO (XO (XO (XO (XO (XO (XO (XO (XO (XO (XO (XO (XO (XO (XO (XO (XO
    (XO (XO (XO (XO (XO (XO (XO (XO (XO (XO (XO (XO (XO (XO
    XH)))))))))))))))))))))))))))))))

(** val trunc_Z : f -> z option **)

let trunc_Z = function
| S754_zero _ -> Some Z0
| S754_finite (s, m, e) ->
  Some
    (cond_Zopp s
      (if Z.leb Z0 e
       then Z.mul (Zpos m) (Z.pow (Zpos (XO XH)) e)
       else Z.div (Zpos m) (Z.pow (Zpos (XO XH)) (Z.opp e))))
| _ -> None

(** val trunc_int : f -> z **)

let trunc_int x =
  match trunc_Z x with
  | Some t ->
    if (&&) (Z.leb int_min t)
         (Z.leb t (Zpos (XI (XI (XI (XI (XI (XI (XI (XI (XI (XI (XI (XI (XI
           (XI (XI (XI (XI (XI (XI (XI (XI (XI (XI (XI (XI (XI (XI (XI (XI
           (XI XH))))))))))))))))))))))))))))))))
    then t
    else int_min
  | None -> int_min

(** val f_of_Z : z -> f **)

let f_of_Z z0 =
  binary_normalize dprec demax z0 Z0 false

type powres =
| PowVal of cplx
| PowLibm

(** val c_recip_naive : cplx -> cplx **)

let c_recip_naive a =
  let denom = fadd (fmul a.re a.re) (fmul a.im a.im) in
  { re = (fdiv a.re denom); im = (fdiv (fopp a.im) denom) }

(** val c_pow_small : cplx -> z -> cplx option **)

let c_pow_small a = function
| Z0 -> Some c_1
| Zpos p ->
  (match p with
   | XI p0 -> (match p0 with
               | XH -> Some (c_prod (c_prod a a) a)
               | _ -> None)
   | XO p0 ->
     (match p0 with
      | XI _ -> None
      | XO p1 ->
        (match p1 with
         | XH -> Some (let z0 = c_prod a a in c_prod z0 z0)
         | _ -> None)
      | XH -> Some (c_prod a a))
   | XH -> Some a)
| Zneg _ -> None

(** val c_pow : cplx -> cplx -> powres **)

let c_pow a b =
  let isint = (&&) (feqb b.im fzero) (feqb b.re (f_of_Z (trunc_int b.re))) in
  let negexp = (&&) isint (fltb b.re fzero) in
  let a1 = if negexp then c_recip_naive a else a in
  let br = if negexp then fopp b.re else b.re in
  (match if isint then c_pow_small a1 (trunc_int br) else None with
   | Some z0 -> PowVal z0
   | None ->
     if (&&) (feqb a1.im fzero) (feqb a1.re fzero) then PowVal a1 else PowLibm)

(** val c_abs_naive : cplx -> f **)

let c_abs_naive z0 =
  fsqrt (fadd (fmul z0.re z0.re) (fmul z0.im z0.im))

(** val from_parts_struct : f -> f -> cplx **)

let from_parts_struct x y =
  { re = x; im = y }

(** val from_parts_native_old : f -> f -> cplx **)

let from_parts_native_old x y =
  { re = (fadd x (fmul y fzero)); im = y }

(** val from_parts : bool -> bool -> f -> f -> cplx **)

let from_parts native fixed x y =
  if (&&) native (negb fixed)
  then from_parts_native_old x y
  else from_parts_struct x y

(** val from_py : bool -> bool -> cplx -> cplx **)

let from_py native fixed z0 =
  from_parts native fixed z0.re z0.im

(** val to_py : cplx -> cplx **)

let to_py z0 =
  { re = z0.re; im = z0.im }

(** val py_c_sum : cplx -> cplx -> cplx **)

let py_c_sum a b =
  { re = (fadd a.re b.re); im = (fadd a.im b.im) }

(** val py_c_diff : cplx -> cplx -> cplx **)

let py_c_diff a b =
  { re = (fsub a.re b.re); im = (fsub a.im b.im) }

(** val py_c_neg : cplx -> cplx **)

let py_c_neg a =
  { re = (fopp a.re); im = (fopp a.im) }

(** val py_c_prod : cplx -> cplx -> cplx **)

let py_c_prod a b =
  { re = (fsub (fmul a.re b.re) (fmul a.im b.im)); im =
    (fadd (fmul a.re b.im) (fmul a.im b.re)) }

(** val py_conj : cplx -> cplx **)

let py_conj a =
  { re = a.re; im = (fopp a.im) }

(** val py_eq : cplx -> cplx -> bool **)

let py_eq a b =
  (&&) (feqb a.re b.re) (feqb a.im b.im)

(** val py_c_quot : cplx -> cplx -> cplx option **)

let py_c_quot a b =
  let abs_breal = if fltb b.re fzero then fopp b.re else b.re in
  let abs_bimag = if fltb b.im fzero then fopp b.im else b.im in
  if fgeb abs_breal abs_bimag
  then if feqb abs_breal fzero
       then None
       else let ratio = fdiv b.im b.re in
            let denom = fadd b.re (fmul b.im ratio) in
            Some { re = (fdiv (fadd a.re (fmul a.im ratio)) denom); im =
            (fdiv (fsub a.im (fmul a.re ratio)) denom) }
  else if fgeb abs_bimag abs_breal
       then let ratio = fdiv b.re b.im in
            let denom = fadd (fmul b.re ratio) b.im in
            Some { re = (fdiv (fadd (fmul a.re ratio) a.im) denom); im =
            (fdiv (fsub (fmul a.im ratio) a.re) denom) }
       else Some { re = S754_nan; im = S754_nan }

type pyres =
| PyVal of cplx
| PyZeroDiv
| PyOverflow
| PyLibm

(** val py_complex_div : cplx -> cplx -> pyres **)

let py_complex_div a b =
  match py_c_quot a b with
  | Some z0 -> PyVal z0
  | None -> PyZeroDiv

(** val powu_pos : cplx -> cplx -> positive -> cplx **)

let rec powu_pos r p = function
| XI n' -> powu_pos (py_c_prod r p) (py_c_prod p p) n'
| XO n' -> powu_pos r (py_c_prod p p) n'
| XH -> py_c_prod r p

(** val py_c_powu : cplx -> z -> cplx **)

let py_c_powu x = function
| Zpos p -> powu_pos c_1 x p
| _ -> c_1

(** val py_c_powi : cplx -> z -> cplx option **)

let py_c_powi x n0 =
  if Z.ltb Z0 n0
  then Some (py_c_powu x n0)
  else py_c_quot c_1 (py_c_powu x (Z.opp n0))

(** val has_inf : cplx -> bool **)

let has_inf z0 =
  (||) (is_inf z0.re) (is_inf z0.im)

(** val py_complex_pow : cplx -> cplx -> pyres **)

let py_complex_pow a b =
  if (&&) ((&&) (feqb b.im fzero) (feqb b.re (floor_exact b.re)))
       (fleb (fabs b.re) f100)
  then (match trunc_Z b.re with
        | Some n0 ->
          (match py_c_powi a n0 with
           | Some p -> if has_inf p then PyOverflow else PyVal p
           | None -> PyZeroDiv)
        | None -> PyLibm)
  else if (&&) (feqb b.re fzero) (feqb b.im fzero)
       then PyVal c_1
       else if (&&) (feqb a.re fzero) (feqb a.im fzero)
            then if (||) (negb (feqb b.im fzero)) (fltb b.re fzero)
                 then PyZeroDiv
                 else PyVal { re = fzero; im = fzero }
            else PyLibm
