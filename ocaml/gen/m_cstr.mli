
type nat =
| O
| S of nat

val option_map : ('a1 -> 'a2) -> 'a1 option -> 'a2 option

val fst : ('a1 * 'a2) -> 'a1

val snd : ('a1 * 'a2) -> 'a2

val length : 'a1 list -> nat

val app : 'a1 list -> 'a1 list -> 'a1 list

type comparison =
| Eq
| Lt
| Gt

val add : nat -> nat -> nat

val sub : nat -> nat -> nat

type positive =
| XI of positive
| XO of positive
| XH

type n =
| N0
| Npos of positive

type z =
| Z0
| Zpos of positive
| Zneg of positive

module Nat :
 sig
  val sub : nat -> nat -> nat

  val leb : nat -> nat -> bool

  val ltb : nat -> nat -> bool

  val divmod : nat -> nat -> nat -> nat -> nat * nat

  val modulo : nat -> nat -> nat
 end

module Pos :
 sig
  type mask =
  | IsNul
  | IsPos of positive
  | IsNeg
 end

module Coq_Pos :
 sig
  val succ : positive -> positive

  val add : positive -> positive -> positive

  val add_carry : positive -> positive -> positive

  val pred_double : positive -> positive

  type mask = Pos.mask =
  | IsNul
  | IsPos of positive
  | IsNeg

  val succ_double_mask : mask -> mask

  val double_mask : mask -> mask

  val double_pred_mask : positive -> mask

  val sub_mask : positive -> positive -> mask

  val sub_mask_carry : positive -> positive -> mask

  val mul : positive -> positive -> positive

  val compare_cont : comparison -> positive -> positive -> comparison

  val compare : positive -> positive -> comparison

  val eqb : positive -> positive -> bool
 end

module N :
 sig
  val succ_double : n -> n

  val double : n -> n

  val add : n -> n -> n

  val sub : n -> n -> n

  val mul : n -> n -> n

  val compare : n -> n -> comparison

  val eqb : n -> n -> bool

  val leb : n -> n -> bool

  val ltb : n -> n -> bool

  val pos_div_eucl : positive -> n -> n * n

  val div_eucl : n -> n -> n * n

  val div : n -> n -> n

  val modulo : n -> n -> n
 end

val nth : nat -> 'a1 list -> 'a1 -> 'a1

val flat_map : ('a1 -> 'a2 list) -> 'a1 list -> 'a2 list

val forallb : ('a1 -> bool) -> 'a1 list -> bool

val firstn : nat -> 'a1 list -> 'a1 list

val skipn : nat -> 'a1 list -> 'a1 list

val ex_keep : (((((nat * n) * z) * z list) * z option) * positive) * bool

val oct3 : n -> n list

val esc_special : n -> n list

val replace_specials : n list -> n list

val esc_high : n -> n list

val is_ascii : n list -> bool

val escape_byte_string : n list -> n list

type sres =
| Chunks of n list list
| OutOfFuel
| Unmodelled

val find_bs : n list -> nat option

val retreat : n list -> nat -> nat -> nat

val chunk_end : n list -> nat -> nat

val split_loop : nat -> n list -> nat -> sres

val split_chunks : n list -> nat -> sres

val join_chunks : n list list -> n list

val split_string_literal : n list -> nat -> n list option

val as_c_string_literal : n list -> nat -> n list option

val hexdigit : n -> n

val escape_char : n -> n list

val is_oct : n -> bool

val split_characters : n list -> n list list

val char_array_items : n list list -> n list

val char_array_form : n list -> n list

val trigraph_char : n -> n option

val phase1 : n list -> n list

val phase2 : n list -> n list

val contains_trigraph : n list -> bool

val has_qq : n list -> bool

type rmode =
| MStr
| MChar
| MArr

type rstate =
| RStart
| ROut
| RSep
| RIn
| REsc
| ROct of n * nat
| RHex of n * nat

val delim : rmode -> n

val is_ws : n -> bool

val hexval : n -> n option

val emit_byte : n -> n list option

val in_step : rmode -> n -> (rstate * n list) option

val esc_step : n -> (rstate * n list) option

val flush_then : rmode -> n -> n -> (rstate * n list) option

val step : rmode -> rstate -> n -> (rstate * n list) option

val rd : rmode -> rstate -> n list -> n list option

val c_read : n list -> n list option

val c_read_char : n list -> n option

val c_read_chars : n list -> n list option
