
type nat =
| O
| S of nat

(** val fst : ('a1 * 'a2) -> 'a1 **)

let fst = function
| (x, _) -> x

(** val snd : ('a1 * 'a2) -> 'a2 **)

let snd = function
| (_, y) -> y

(** val length : 'a1 list -> nat **)

let rec length = function
| [] -> O
| _ :: l' -> S (length l')

(** val app : 'a1 list -> 'a1 list -> 'a1 list **)

let rec app l m =
  match l with
  | [] -> m
  | a :: l1 -> a :: (app l1 m)

type positive =
| XI of positive
| XO of positive
| XH

type n =
| N0
| Npos of positive

type z =
| Z0
| Zpos of positive
| Zneg of positive

module Nat =
 struct
  (** val eqb : nat -> nat -> bool **)

  let rec eqb n0 m =
    match n0 with
    | O -> (match m with
            | O -> true
            | S _ -> false)
    | S n' -> (match m with
               | O -> false
               | S m' -> eqb n' m')
 end

(** val nth : nat -> 'a1 list -> 'a1 -> 'a1 **)

let rec nth n0 l default =
  match n0 with
  | O -> (match l with
          | [] -> default
          | x :: _ -> x)
  | S m -> (match l with
            | [] -> default
            | _ :: t -> nth m t default)

(** val map : ('a1 -> 'a2) -> 'a1 list -> 'a2 list **)

let rec map f = function
| [] -> []
| a :: t -> (f a) :: (map f t)

(** val flat_map : ('a1 -> 'a2 list) -> 'a1 list -> 'a2 list **)

let rec flat_map f = function
| [] -> []
| x :: t -> app (f x) (flat_map f t)

(** val existsb : ('a1 -> bool) -> 'a1 list -> bool **)

let rec existsb f = function
| [] -> false
| a :: l0 -> (||) (f a) (existsb f l0)

(** val filter : ('a1 -> bool) -> 'a1 list -> 'a1 list **)

let rec filter f = function
| [] -> []
| x :: l0 -> if f x then x :: (filter f l0) else filter f l0

(** val seq : nat -> nat -> nat list **)

let rec seq start = function
| O -> []
| S len0 -> start :: (seq (S start) len0)

(** val ex_keep :
    (((((nat * n) * z) * z list) * z option) * positive) * bool **)

let ex_keep =
  ((((((O, N0), Z0), []), None), XH), true)

type kind =
| KAlways
| KUsed

type pxd = kind list

type cimport = nat * nat list

type module0 = cimport list

type context = { loaded : nat list; marks : (nat * nat) list }

(** val fresh : context **)

let fresh =
  { loaded = []; marks = [] }

(** val mem_nat : nat -> nat list -> bool **)

let mem_nat x l =
  existsb (Nat.eqb x) l

(** val pair_eqb : (nat * nat) -> (nat * nat) -> bool **)

let pair_eqb x y =
  (&&) (Nat.eqb (fst x) (fst y)) (Nat.eqb (snd x) (snd y))

(** val mem_pair : (nat * nat) -> (nat * nat) list -> bool **)

let mem_pair x l =
  existsb (pair_eqb x) l

(** val load : context -> nat -> context * nat list **)

let load c p =
  if mem_nat p c.loaded
  then (c, [])
  else ({ loaded = (p :: c.loaded); marks = c.marks }, (p :: []))

(** val load_all : context -> module0 -> context * nat list **)

let rec load_all c = function
| [] -> (c, [])
| ci :: r ->
  let (c1, ps) = load c (fst ci) in
  let (c2, qs) = load_all c1 r in (c2, (app ps qs))

(** val uses_of : module0 -> (nat * nat) list **)

let uses_of m =
  flat_map (fun ci -> map (fun x -> ((fst ci), x)) (snd ci)) m

(** val mark_all : context -> module0 -> context **)

let mark_all c m =
  { loaded = c.loaded; marks = (app (uses_of m) c.marks) }

(** val emits : kind -> bool -> bool **)

let emits k marked =
  match k with
  | KAlways -> true
  | KUsed -> marked

(** val entries_of : pxd list -> nat -> pxd **)

let entries_of pxds p =
  nth p pxds []

(** val emit_pxd : pxd list -> context -> nat -> (nat * nat) list **)

let emit_pxd pxds c p =
  map (fun x -> (p, x))
    (filter (fun i ->
      emits (nth i (entries_of pxds p) KAlways) (mem_pair (p, i) c.marks))
      (seq O (length (entries_of pxds p))))

(** val emit : pxd list -> context -> module0 -> (nat * nat) list **)

let emit pxds c m =
  flat_map (fun ci -> emit_pxd pxds c (fst ci)) m

(** val compile :
    pxd list -> context -> module0 -> context * (nat list * (nat * nat) list) **)

let compile pxds c m =
  let (c1, ps) = load_all c m in
  let c2 = mark_all c1 m in (c2, (ps, (emit pxds c2 m)))

(** val session :
    pxd list -> bool -> context -> module0 list -> (nat list * (nat * nat)
    list) list **)

let rec session pxds reset c = function
| [] -> []
| m :: r ->
  let (c', o) = compile pxds c m in
  o :: (session pxds reset (if reset then fresh else c') r)

(** val run : pxd list -> context -> module0 list -> context **)

let rec run pxds c = function
| [] -> c
| m :: r -> run pxds (fst (compile pxds c m)) r

(** val isolated : pxd list -> module0 -> nat list * (nat * nat) list **)

let isolated pxds m =
  snd (compile pxds fresh m)

(** val after :
    pxd list -> module0 list -> module0 -> nat list * (nat * nat) list **)

let after pxds prefix m =
  snd (compile pxds (run pxds fresh prefix) m)
