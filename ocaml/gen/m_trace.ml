
(** val implb : bool -> bool -> bool **)

let implb b1 b2 =
  if b1 then b2 else true

(** val negb : bool -> bool **)

let negb = function
| true -> false
| false -> true

type nat =
| O
| S of nat

(** val fst : ('a1 * 'a2) -> 'a1 **)

let fst = function
| (x, _) -> x

(** val length : 'a1 list -> nat **)

let rec length = function
| [] -> O
| _ :: l' -> S (length l')

(** val app : 'a1 list -> 'a1 list -> 'a1 list **)

let rec app l m =
  match l with
  | [] -> m
  | a :: l1 -> a :: (app l1 m)

(** val add : nat -> nat -> nat **)

let rec add n0 m =
  match n0 with
  | O -> m
  | S p -> S (add p m)

type positive =
| XI of positive
| XO of positive
| XH

type n =
| N0
| Npos of positive

type z =
| Z0
| Zpos of positive
| Zneg of positive

module Nat =
 struct
  (** val eqb : nat -> nat -> bool **)

  let rec eqb n0 m =
    match n0 with
    | O -> (match m with
            | O -> true
            | S _ -> false)
    | S n' -> (match m with
               | O -> false
               | S m' -> eqb n' m')

  (** val leb : nat -> nat -> bool **)

  let rec leb n0 m =
    match n0 with
    | O -> true
    | S n' -> (match m with
               | O -> false
               | S m' -> leb n' m')

  (** val ltb : nat -> nat -> bool **)

  let ltb n0 m =
    leb (S n0) m
 end

(** val nth_error : 'a1 list -> nat -> 'a1 option **)

let rec nth_error l = function
| O -> (match l with
        | [] -> None
        | x :: _ -> Some x)
| S n1 -> (match l with
           | [] -> None
           | _ :: l0 -> nth_error l0 n1)

(** val rev : 'a1 list -> 'a1 list **)

let rec rev = function
| [] -> []
| x :: l' -> app (rev l') (x :: [])

(** val map : ('a1 -> 'a2) -> 'a1 list -> 'a2 list **)

let rec map f = function
| [] -> []
| a :: t -> (f a) :: (map f t)

(** val forallb : ('a1 -> bool) -> 'a1 list -> bool **)

let rec forallb f = function
| [] -> true
| a :: l0 -> (&&) (f a) (forallb f l0)

(** val filter : ('a1 -> bool) -> 'a1 list -> 'a1 list **)

let rec filter f = function
| [] -> []
| x :: l0 -> if f x then x :: (filter f l0) else filter f l0

(** val repeat : 'a1 -> nat -> 'a1 list **)

let rec repeat x = function
| O -> []
| S k -> x :: (repeat x k)

(** val ex_keep :
    (((((nat * n) * z) * z list) * z option) * positive) * bool **)

let ex_keep =
  ((((((O, N0), Z0), []), None), XH), true)

type skind =
| SCall
| SGenStart
| SResume
| SThrow
| SCloseUnstarted

type ekind =
| EReturn
| ERaise
| EYield
| EPending

type node =
| Node of nat * skind * items * ekind
and items =
| INil
| ICall of node * items
| IRet of items
| ILine of nat * items

type tool =
| Legacy
| Monitoring

type evk =
| KCall
| KRet
| KStart
| KResume
| KThrow
| KReturn
| KYield
| KUnwind
| KRaise
| KLine of nat

type event = evk * nat

type evclass =
| CStart
| CEnd
| COther

(** val classify : evk -> evclass **)

let classify = function
| KCall -> CStart
| KStart -> CStart
| KResume -> CStart
| KThrow -> CStart
| KRaise -> COther
| KLine _ -> COther
| _ -> CEnd

(** val start_cy : tool -> skind -> nat -> event list **)

let start_cy t s f =
  match t with
  | Legacy -> (KCall, f) :: []
  | Monitoring ->
    (match s with
     | SResume -> (KResume, f) :: []
     | SThrow -> (KResume, f) :: []
     | _ -> (KStart, f) :: [])

(** val end_ev : tool -> ekind -> nat -> event list **)

let end_ev t e f =
  match t with
  | Legacy -> (KRet, f) :: []
  | Monitoring ->
    (match e with
     | ERaise -> (KRaise, f) :: ((KUnwind, f) :: [])
     | EYield -> (KYield, f) :: []
     | _ -> (KReturn, f) :: [])

(** val end_cy : tool -> bool -> ekind -> nat -> event list **)

let end_cy t fx e f =
  match e with
  | EPending -> if fx then end_ev t EPending f else []
  | _ -> end_ev t e f

(** val ret_stmt_cy : tool -> bool -> nat -> event list **)

let ret_stmt_cy t fx f =
  if fx then [] else end_ev t EReturn f

(** val line_ev : bool -> nat -> nat -> event list **)

let line_ev lt l f =
  if lt then ((KLine l), f) :: [] else []

(** val ev_cy : tool -> bool -> bool -> node -> event list **)

let rec ev_cy t fx lt = function
| Node (f, s, b, e) ->
  app (start_cy t s f) (app (evs_cy t fx lt f b) (end_cy t fx e f))

(** val evs_cy : tool -> bool -> bool -> nat -> items -> event list **)

and evs_cy t fx lt f = function
| INil -> []
| ICall (n0, r) -> app (ev_cy t fx lt n0) (evs_cy t fx lt f r)
| IRet r -> app (ret_stmt_cy t fx f) (evs_cy t fx lt f r)
| ILine (l, r) -> app (line_ev lt l f) (evs_cy t fx lt f r)

(** val start_py : tool -> skind -> nat -> event list **)

let start_py t s f =
  match t with
  | Legacy -> (KCall, f) :: []
  | Monitoring ->
    (match s with
     | SResume -> (KResume, f) :: []
     | SThrow -> (KThrow, f) :: []
     | _ -> (KStart, f) :: [])

(** val ev_py : tool -> bool -> node -> event list **)

let rec ev_py t lt = function
| Node (f, s, b, e) ->
  (match s with
   | SCloseUnstarted -> []
   | _ -> app (start_py t s f) (app (evs_py t lt f b) (end_ev t e f)))

(** val evs_py : tool -> bool -> nat -> items -> event list **)

and evs_py t lt f = function
| INil -> []
| ICall (n0, r) -> app (ev_py t lt n0) (evs_py t lt f r)
| IRet r -> evs_py t lt f r
| ILine (l, r) -> app (line_ev lt l f) (evs_py t lt f r)

type shape =
| Sh of nat * shape list

(** val shape_of : node -> shape **)

let rec shape_of = function
| Node (f, _, b, _) -> Sh (f, (shapes_of b))

(** val shapes_of : items -> shape list **)

and shapes_of = function
| INil -> []
| ICall (n0, r) -> (shape_of n0) :: (shapes_of r)
| IRet r -> shapes_of r
| ILine (_, r) -> shapes_of r

(** val parse :
    event list -> shape list -> (nat * shape list) list -> shape list option **)

let rec parse evs cur stk =
  match evs with
  | [] -> (match stk with
           | [] -> Some (rev cur)
           | _ :: _ -> None)
  | e :: r ->
    let (k, f) = e in
    (match classify k with
     | CStart -> parse r [] ((f, cur) :: stk)
     | CEnd ->
       (match stk with
        | [] -> None
        | p :: stk' ->
          let (g, saved) = p in
          if Nat.eqb g f
          then parse r ((Sh (f, (rev cur))) :: saved) stk'
          else None)
     | COther ->
       (match stk with
        | [] -> None
        | p :: _ ->
          let (g, _) = p in if Nat.eqb g f then parse r cur stk else None))

(** val well_nested : event list -> bool **)

let well_nested evs =
  match parse evs [] [] with
  | Some _ -> true
  | None -> false

(** val shape_eqb : shape -> shape -> bool **)

let rec shape_eqb a b =
  let Sh (f, ka) = a in
  let Sh (g, kb) = b in
  (&&) (Nat.eqb f g)
    (let rec go x y =
       match x with
       | [] -> (match y with
                | [] -> true
                | _ :: _ -> false)
       | p :: x' ->
         (match y with
          | [] -> false
          | q :: y' -> (&&) (shape_eqb p q) (go x' y'))
     in go ka kb)

(** val nests_as : event list -> node -> bool **)

let nests_as evs n0 =
  match parse evs [] [] with
  | Some l ->
    (match l with
     | [] -> false
     | s :: l0 ->
       (match l0 with
        | [] -> shape_eqb s (shape_of n0)
        | _ :: _ -> false))
  | None -> false

(** val count_class : evclass -> event list -> nat **)

let count_class c evs =
  length
    (filter (fun e ->
      match classify (fst e) with
      | CStart -> (match c with
                   | CStart -> true
                   | _ -> false)
      | CEnd -> (match c with
                 | CEnd -> true
                 | _ -> false)
      | COther -> (match c with
                   | COther -> true
                   | _ -> false)) evs)

(** val size : node -> nat **)

let rec size = function
| Node (_, _, b, _) -> S (sizes b)

(** val sizes : items -> nat **)

and sizes = function
| INil -> O
| ICall (n0, r) -> add (size n0) (sizes r)
| IRet r -> sizes r
| ILine (_, r) -> sizes r

(** val clean : node -> bool **)

let rec clean = function
| Node (_, _, b, e) ->
  (&&) (cleans b) (match e with
                   | EPending -> false
                   | _ -> true)

(** val cleans : items -> bool **)

and cleans = function
| INil -> true
| ICall (n0, r) -> (&&) (clean n0) (cleans r)
| IRet _ -> false
| ILine (_, r) -> cleans r

(** val started : node -> bool **)

let rec started = function
| Node (_, s, b, _) ->
  (&&) (starteds b) (match s with
                     | SCloseUnstarted -> false
                     | _ -> true)

(** val starteds : items -> bool **)

and starteds = function
| INil -> true
| ICall (n0, r) -> (&&) (started n0) (starteds r)
| IRet r -> starteds r
| ILine (_, r) -> starteds r

(** val throw_as_resume : event -> event **)

let throw_as_resume e = match e with
| (e0, f) -> (match e0 with
              | KThrow -> (KResume, f)
              | _ -> e)

type fkind =
| KFunc of bool * bool
| KGen of bool * bool

type cvar = { cv_fall : (fkind -> bool); cv_wrap2 : bool }

(** val wrapped : fkind -> bool **)

let wrapped = function
| KFunc (_, w) -> w
| KGen (_, _) -> false

type stmt =
| SExpr
| SRaise
| SReturn
| SYield
| SIf of block * block
| SLoop of block * block
| STry of block * block
| SFin of block * block
and block =
| BNil
| BCons of stmt * block

type func = { f_kind : fkind; f_body : block; f_tflag : bool }

(** val is_term_s : stmt -> bool **)

let rec is_term_s = function
| SExpr -> false
| SYield -> false
| SIf (a, b) -> (&&) (is_term a) (is_term b)
| SLoop (_, els) -> is_term els
| STry (body, h) -> (&&) (is_term body) (is_term h)
| SFin (body, fin) -> (||) (is_term body) (is_term fin)
| _ -> true

(** val is_term : block -> bool **)

and is_term = function
| BNil -> false
| BCons (s, r) -> (||) (is_term_s s) (is_term r)

(** val clean_s : nat -> stmt -> bool **)

let rec clean_s d = function
| SReturn -> Nat.eqb d O
| SIf (a, b) -> (&&) (clean_b d a) (clean_b d b)
| SLoop (body, els) -> (&&) (clean_b d body) (clean_b d els)
| STry (body, h) -> (&&) (clean_b d body) (clean_b d h)
| SFin (body, fin) -> (&&) (clean_b (S d) body) (clean_b d fin)
| _ -> true

(** val clean_b : nat -> block -> bool **)

and clean_b d = function
| BNil -> true
| BCons (s, r) -> (&&) (clean_s d s) (clean_b d r)

type choice = { c_kids : nat; c_go : bool; c_exc : bool option }

type outcome =
| ONormal
| OReturn of bool
| ORaise of bool
| OAbandon
| OStuck

type tok =
| TStart of skind
| TKid
| TLine
| TRet
| TYield
| TUnwind

(** val call_part : choice -> tok list **)

let call_part c =
  repeat TKid c.c_kids

(** val is_stop : outcome -> bool **)

let is_stop = function
| OAbandon -> true
| OStuck -> true
| _ -> false

(** val exec_s :
    bool -> bool -> nat -> nat -> stmt -> choice list -> (tok
    list * outcome) * choice list **)

let rec exec_s fx gen n0 d s o =
  match n0 with
  | O -> (([], OStuck), o)
  | S n' ->
    (match s with
     | SExpr ->
       (match o with
        | [] -> (((TLine :: []), OStuck), [])
        | c :: o' ->
          (((TLine :: (call_part c)),
            (match c.c_exc with
             | Some k -> ORaise k
             | None -> ONormal)), o'))
     | SRaise -> (((TLine :: []), (ORaise true)), o)
     | SReturn ->
       if Nat.eqb d O
       then (((TLine :: (TRet :: [])), (OReturn false)), o)
       else if fx
            then (((TLine :: []), (OReturn true)), o)
            else (((TLine :: (TRet :: [])), (OReturn true)), o)
     | SYield ->
       if gen
       then (match o with
             | [] -> (((TLine :: (TYield :: [])), OAbandon), [])
             | c :: o' ->
               if c.c_go
               then (match c.c_exc with
                     | Some k ->
                       (((TLine :: (TYield :: ((TStart SThrow) :: []))),
                         (ORaise k)), o')
                     | None ->
                       (((TLine :: (TYield :: ((TStart SResume) :: []))),
                         ONormal), o'))
               else (((TLine :: (TYield :: [])), OAbandon), o'))
       else (((TLine :: []), OStuck), o)
     | SIf (a, b) ->
       (match o with
        | [] -> (((TLine :: []), OStuck), [])
        | c :: o' ->
          (match c.c_exc with
           | Some k -> (((TLine :: (call_part c)), (ORaise k)), o')
           | None ->
             let (p, o2) = exec_b fx gen n' d (if c.c_go then a else b) o' in
             let (t, out) = p in (((TLine :: (app (call_part c) t)), out), o2)))
     | SLoop (body, els) ->
       let (p, o2) = exec_l fx gen n' d body els o in
       let (t, out) = p in (((TLine :: t), out), o2)
     | STry (body, h) ->
       let (p, r1) = exec_b fx gen n' d body o in
       let (t1, o1) = p in
       (match o1 with
        | ORaise catchable ->
          if catchable
          then let (p0, r2) = exec_b fx gen n' d h r1 in
               let (t2, o2) = p0 in (((TLine :: (app t1 t2)), o2), r2)
          else (((TLine :: t1), o1), r1)
        | _ -> (((TLine :: t1), o1), r1))
     | SFin (body, fin) ->
       let (p, r1) = exec_b fx gen n' (S d) body o in
       let (t1, o1) = p in
       if is_stop o1
       then (((TLine :: t1), o1), r1)
       else let (p0, r2) = exec_b fx gen n' d fin r1 in
            let (t2, o2) = p0 in
            (((TLine :: (app t1 t2)),
            (match o2 with
             | ONormal -> o1
             | _ -> o2)), r2))

(** val exec_b :
    bool -> bool -> nat -> nat -> block -> choice list -> (tok
    list * outcome) * choice list **)

and exec_b fx gen n0 d b o =
  match n0 with
  | O -> (([], OStuck), o)
  | S n' ->
    (match b with
     | BNil -> (([], ONormal), o)
     | BCons (s, r) ->
       let (p, r1) = exec_s fx gen n' d s o in
       let (t1, o1) = p in
       (match o1 with
        | ONormal ->
          let (p0, r2) = exec_b fx gen n' d r r1 in
          let (t2, o2) = p0 in (((app t1 t2), o2), r2)
        | _ -> ((t1, o1), r1)))

(** val exec_l :
    bool -> bool -> nat -> nat -> block -> block -> choice list -> (tok
    list * outcome) * choice list **)

and exec_l fx gen n0 d body els o =
  match n0 with
  | O -> (([], OStuck), o)
  | S n' ->
    (match o with
     | [] -> (([], OStuck), [])
     | c :: o' ->
       (match c.c_exc with
        | Some k -> (((call_part c), (ORaise k)), o')
        | None ->
          if c.c_go
          then let (p, r1) = exec_b fx gen n' d body o' in
               let (t1, o1) = p in
               (match o1 with
                | ONormal ->
                  let (p0, r2) = exec_l fx gen n' d body els r1 in
                  let (t2, o2) = p0 in
                  (((app (call_part c) (app t1 t2)), o2), r2)
                | _ -> (((app (call_part c) t1), o1), r1))
          else let (p, r) = exec_b fx gen n' d els o' in
               let (t, out) = p in (((app (call_part c) t), out), r)))

(** val falloff : cvar -> fkind -> bool -> tok list **)

let falloff g k tflag =
  if (&&) (g.cv_fall k) (negb tflag) then TRet :: [] else []

(** val finish : cvar -> bool -> fkind -> bool -> outcome -> tok list **)

let finish g fx k tflag = function
| ONormal -> falloff g k tflag
| OReturn p -> if (&&) fx p then TRet :: [] else []
| ORaise _ ->
  TUnwind :: (if (&&) g.cv_wrap2 (wrapped k) then TUnwind :: [] else [])
| _ -> []

(** val gen_allowed : fkind -> bool **)

let gen_allowed = function
| KFunc (_, _) -> false
| KGen (i, _) -> negb i

(** val run :
    cvar -> bool -> func -> nat -> choice list -> tok list * outcome **)

let run g fx fn n0 o =
  let k = fn.f_kind in
  (match k with
   | KFunc (_, _) ->
     let (p, _) = exec_b fx false n0 O fn.f_body o in
     let (t, out) = p in
     (((TStart SCall) :: (app t (finish g fx k fn.f_tflag out))), out)
   | KGen (_, _) ->
     (match o with
      | [] -> ([], OStuck)
      | c :: o' ->
        (match c.c_exc with
         | Some kx ->
           (((TStart SCloseUnstarted) :: (TUnwind :: [])), (ORaise kx))
         | None ->
           let (p, _) = exec_b fx (gen_allowed k) n0 O fn.f_body o' in
           let (t, out) = p in
           (((TStart SGenStart) :: (app t (finish g fx k fn.f_tflag out))),
           out))))

(** val default_branch : tok list **)

let default_branch =
  (TStart SGenStart) :: (TRet :: [])

type etok =
| EMark
| EFall
| EGotoRet
| EErrLabel
| EIfExc
| EExc
| EUnw

(** val epilogue : cvar -> fkind -> bool -> etok list **)

let epilogue g k tflag =
  let fall = map (fun _ -> EFall) (falloff g k tflag) in
  let skip = if tflag then [] else EGotoRet :: [] in
  (match k with
   | KFunc (_, _) ->
     app (EMark :: [])
       (app fall (app skip (EErrLabel :: (EExc :: (EUnw :: [])))))
   | KGen (_, _) ->
     app fall
       (app (EMark :: [])
         (app skip (EErrLabel :: (EIfExc :: (EExc :: (EUnw :: [])))))))

(** val take_seg : tok list -> tok list **)

let rec take_seg = function
| [] -> []
| t :: r -> (match t with
             | TYield -> TYield :: []
             | _ -> t :: (take_seg r))

(** val drop_seg : tok list -> tok list **)

let rec drop_seg = function
| [] -> []
| t :: r -> (match t with
             | TYield -> r
             | _ -> drop_seg r)

(** val drop_segs : nat -> tok list -> tok list **)

let rec drop_segs k l =
  match k with
  | O -> l
  | S k' -> drop_segs k' (drop_seg l)

(** val seg_at : nat -> tok list -> tok list **)

let seg_at k l =
  take_seg (drop_segs k l)

(** val count_yield : tok list -> nat **)

let rec count_yield = function
| [] -> O
| t :: r -> (match t with
             | TYield -> S (count_yield r)
             | _ -> count_yield r)

(** val final : outcome -> bool **)

let final = function
| OAbandon -> false
| OStuck -> false
| _ -> true

(** val complete_seg : nat -> tok list -> outcome -> bool **)

let complete_seg k toks out =
  (||) (Nat.ltb k (count_yield toks))
    ((&&) (Nat.eqb k (count_yield toks)) (final out))

type xt =
| XT of nat * choice list * nat * nat * xts
and xts =
| XNil
| XCons of xt * xts

(** val tok_events : tool -> bool -> nat -> tok -> event list **)

let tok_events t lt f = function
| TStart s -> start_cy t s f
| TKid -> []
| TLine -> line_ev lt O f
| TRet -> end_ev t EReturn f
| TYield -> end_ev t EYield f
| TUnwind -> end_ev t ERaise f

(** val expand :
    tool -> bool -> nat -> tok list -> event list list -> event list **)

let rec expand t lt f seg kids =
  match seg with
  | [] -> []
  | k :: r ->
    (match k with
     | TKid ->
       (match kids with
        | [] -> expand t lt f r []
        | w :: ks -> app w (expand t lt f r ks))
     | _ -> app (tok_events t lt f k) (expand t lt f r kids))

(** val seg_of :
    cvar -> bool -> func list -> nat -> choice list -> nat -> nat -> tok list **)

let seg_of g fx prog f o fuel k =
  match nth_error prog f with
  | Some fn -> seg_at k (fst (run g fx fn fuel o))
  | None -> []

(** val word :
    cvar -> bool -> tool -> bool -> func list -> xt -> event list **)

let rec word g fx t lt prog = function
| XT (f, o, fuel, k, kids) ->
  expand t lt f (seg_of g fx prog f o fuel k) (words g fx t lt prog kids)

(** val words :
    cvar -> bool -> tool -> bool -> func list -> xts -> event list list **)

and words g fx t lt prog = function
| XNil -> []
| XCons (x, r) -> (word g fx t lt prog x) :: (words g fx t lt prog r)

(** val mids : tok list -> node list -> (items * ekind) option **)

let rec mids r kids =
  match r with
  | [] -> None
  | t :: r' ->
    (match t with
     | TStart _ -> None
     | TKid ->
       (match kids with
        | [] -> mids r' []
        | n0 :: ks ->
          (match mids r' ks with
           | Some p -> let (b, e) = p in Some ((ICall (n0, b)), e)
           | None -> None))
     | TLine ->
       (match mids r' kids with
        | Some p -> let (b, e) = p in Some ((ILine (O, b)), e)
        | None -> None)
     | TRet -> (match r' with
                | [] -> Some (INil, EReturn)
                | _ :: _ -> None)
     | TYield -> (match r' with
                  | [] -> Some (INil, EYield)
                  | _ :: _ -> None)
     | TUnwind -> (match r' with
                   | [] -> Some (INil, ERaise)
                   | _ :: _ -> None))

(** val seg_node : nat -> tok list -> node list -> node option **)

let seg_node f seg kids =
  match seg with
  | [] -> None
  | t :: r ->
    (match t with
     | TStart s ->
       (match mids r kids with
        | Some p -> let (b, e) = p in Some (Node (f, s, b, e))
        | None -> None)
     | _ -> None)

(** val to_node : cvar -> bool -> func list -> xt -> node option **)

let rec to_node g fx prog = function
| XT (f, o, fuel, k, kids) ->
  (match to_nodes g fx prog kids with
   | Some ns -> seg_node f (seg_of g fx prog f o fuel k) ns
   | None -> None)

(** val to_nodes : cvar -> bool -> func list -> xts -> node list option **)

and to_nodes g fx prog = function
| XNil -> Some []
| XCons (x, r) ->
  (match to_node g fx prog x with
   | Some n0 ->
     (match to_nodes g fx prog r with
      | Some ns -> Some (n0 :: ns)
      | None -> None)
   | None -> None)

(** val complete : cvar -> bool -> func list -> xt -> bool **)

let rec complete g fx prog = function
| XT (f, o, fuel, k, kids) ->
  (&&)
    (match nth_error prog f with
     | Some fn ->
       let (toks, out) = run g fx fn fuel o in complete_seg k toks out
     | None -> false) (completes g fx prog kids)

(** val completes : cvar -> bool -> func list -> xts -> bool **)

and completes g fx prog = function
| XNil -> true
| XCons (x, r) -> (&&) (complete g fx prog x) (completes g fx prog r)

(** val func_ok : cvar -> bool -> func -> bool **)

let func_ok g fx fn =
  (&&)
    ((&&) (implb fn.f_tflag (is_term fn.f_body))
      ((||) fx (clean_b O fn.f_body)))
    ((||) (negb g.cv_wrap2) (negb (wrapped fn.f_kind)))

(** val prog_ok : cvar -> bool -> func list -> bool **)

let prog_ok g fx prog =
  forallb (func_ok g fx) prog

(** val as_is : cvar **)

let as_is =
  { cv_fall = (fun _ -> true); cv_wrap2 = true }

(** val wrap_fixed : cvar **)

let wrap_fixed =
  { cv_fall = (fun _ -> true); cv_wrap2 = false }

(** val g_not_inlined : cvar **)

let g_not_inlined =
  { cv_fall = (fun k ->
    match k with
    | KFunc (_, _) -> true
    | KGen (inlined, _) -> if inlined then false else true); cv_wrap2 = true }
