
type nat =
| O
| S of nat

(** val fst : ('a1 * 'a2) -> 'a1 **)

let fst = function
| (x, _) -> x

(** val length : 'a1 list -> nat **)

let rec length = function
| [] -> O
| _ :: l' -> S (length l')

(** val app : 'a1 list -> 'a1 list -> 'a1 list **)

let rec app l m =
  match l with
  | [] -> m
  | a :: l1 -> a :: (app l1 m)

(** val add : nat -> nat -> nat **)

let rec add n0 m =
  match n0 with
  | O -> m
  | S p -> S (add p m)

type positive =
| XI of positive
| XO of positive
| XH

type n =
| N0
| Npos of positive

type z =
| Z0
| Zpos of positive
| Zneg of positive

module Nat =
 struct
  (** val eqb : nat -> nat -> bool **)

  let rec eqb n0 m =
    match n0 with
    | O -> (match m with
            | O -> true
            | S _ -> false)
    | S n' -> (match m with
               | O -> false
               | S m' -> eqb n' m')
 end

(** val rev : 'a1 list -> 'a1 list **)

let rec rev = function
| [] -> []
| x :: l' -> app (rev l') (x :: [])

(** val filter : ('a1 -> bool) -> 'a1 list -> 'a1 list **)

let rec filter f = function
| [] -> []
| x :: l0 -> if f x then x :: (filter f l0) else filter f l0

(** val ex_keep :
    (((((nat * n) * z) * z list) * z option) * positive) * bool **)

let ex_keep =
  ((((((O, N0), Z0), []), None), XH), true)

type skind =
| SCall
| SGenStart
| SResume
| SThrow
| SCloseUnstarted

type ekind =
| EReturn
| ERaise
| EYield
| EPending

type node =
| Node of nat * skind * items * ekind
and items =
| INil
| ICall of node * items
| IRet of items
| ILine of nat * items

type tool =
| Legacy
| Monitoring

type evk =
| KCall
| KRet
| KStart
| KResume
| KThrow
| KReturn
| KYield
| KUnwind
| KRaise
| KLine of nat

type event = evk * nat

type evclass =
| CStart
| CEnd
| COther

(** val classify : evk -> evclass **)

let classify = function
| KCall -> CStart
| KStart -> CStart
| KResume -> CStart
| KThrow -> CStart
| KRaise -> COther
| KLine _ -> COther
| _ -> CEnd

(** val start_cy : tool -> skind -> nat -> event list **)

let start_cy t s f =
  match t with
  | Legacy -> (KCall, f) :: []
  | Monitoring ->
    (match s with
     | SResume -> (KResume, f) :: []
     | SThrow -> (KResume, f) :: []
     | _ -> (KStart, f) :: [])

(** val end_ev : tool -> ekind -> nat -> event list **)

let end_ev t e f =
  match t with
  | Legacy -> (KRet, f) :: []
  | Monitoring ->
    (match e with
     | ERaise -> (KRaise, f) :: ((KUnwind, f) :: [])
     | EYield -> (KYield, f) :: []
     | _ -> (KReturn, f) :: [])

(** val end_cy : tool -> bool -> ekind -> nat -> event list **)

let end_cy t fx e f =
  match e with
  | EPending -> if fx then end_ev t EPending f else []
  | _ -> end_ev t e f

(** val ret_stmt_cy : tool -> bool -> nat -> event list **)

let ret_stmt_cy t fx f =
  if fx then [] else end_ev t EReturn f

(** val line_ev : bool -> nat -> nat -> event list **)

let line_ev lt l f =
  if lt then ((KLine l), f) :: [] else []

(** val ev_cy : tool -> bool -> bool -> node -> event list **)

let rec ev_cy t fx lt = function
| Node (f, s, b, e) ->
  app (start_cy t s f) (app (evs_cy t fx lt f b) (end_cy t fx e f))

(** val evs_cy : tool -> bool -> bool -> nat -> items -> event list **)

and evs_cy t fx lt f = function
| INil -> []
| ICall (n0, r) -> app (ev_cy t fx lt n0) (evs_cy t fx lt f r)
| IRet r -> app (ret_stmt_cy t fx f) (evs_cy t fx lt f r)
| ILine (l, r) -> app (line_ev lt l f) (evs_cy t fx lt f r)

(** val start_py : tool -> skind -> nat -> event list **)

let start_py t s f =
  match t with
  | Legacy -> (KCall, f) :: []
  | Monitoring ->
    (match s with
     | SResume -> (KResume, f) :: []
     | SThrow -> (KThrow, f) :: []
     | _ -> (KStart, f) :: [])

(** val ev_py : tool -> bool -> node -> event list **)

let rec ev_py t lt = function
| Node (f, s, b, e) ->
  (match s with
   | SCloseUnstarted -> []
   | _ -> app (start_py t s f) (app (evs_py t lt f b) (end_ev t e f)))

(** val evs_py : tool -> bool -> nat -> items -> event list **)

and evs_py t lt f = function
| INil -> []
| ICall (n0, r) -> app (ev_py t lt n0) (evs_py t lt f r)
| IRet r -> evs_py t lt f r
| ILine (l, r) -> app (line_ev lt l f) (evs_py t lt f r)

type shape =
| Sh of nat * shape list

(** val shape_of : node -> shape **)

let rec shape_of = function
| Node (f, _, b, _) -> Sh (f, (shapes_of b))

(** val shapes_of : items -> shape list **)

and shapes_of = function
| INil -> []
| ICall (n0, r) -> (shape_of n0) :: (shapes_of r)
| IRet r -> shapes_of r
| ILine (_, r) -> shapes_of r

(** val parse :
    event list -> shape list -> (nat * shape list) list -> shape list option **)

let rec parse evs cur stk =
  match evs with
  | [] -> (match stk with
           | [] -> Some (rev cur)
           | _ :: _ -> None)
  | e :: r ->
    let (k, f) = e in
    (match classify k with
     | CStart -> parse r [] ((f, cur) :: stk)
     | CEnd ->
       (match stk with
        | [] -> None
        | p :: stk' ->
          let (g, saved) = p in
          if Nat.eqb g f
          then parse r ((Sh (f, (rev cur))) :: saved) stk'
          else None)
     | COther ->
       (match stk with
        | [] -> None
        | p :: _ ->
          let (g, _) = p in if Nat.eqb g f then parse r cur stk else None))

(** val well_nested : event list -> bool **)

let well_nested evs =
  match parse evs [] [] with
  | Some _ -> true
  | None -> false

(** val shape_eqb : shape -> shape -> bool **)

let rec shape_eqb a b =
  let Sh (f, ka) = a in
  let Sh (g, kb) = b in
  (&&) (Nat.eqb f g)
    (let rec go x y =
       match x with
       | [] -> (match y with
                | [] -> true
                | _ :: _ -> false)
       | p :: x' ->
         (match y with
          | [] -> false
          | q :: y' -> (&&) (shape_eqb p q) (go x' y'))
     in go ka kb)

(** val nests_as : event list -> node -> bool **)

let nests_as evs n0 =
  match parse evs [] [] with
  | Some l ->
    (match l with
     | [] -> false
     | s :: l0 ->
       (match l0 with
        | [] -> shape_eqb s (shape_of n0)
        | _ :: _ -> false))
  | None -> false

(** val count_class : evclass -> event list -> nat **)

let count_class c evs =
  length
    (filter (fun e ->
      match classify (fst e) with
      | CStart -> (match c with
                   | CStart -> true
                   | _ -> false)
      | CEnd -> (match c with
                 | CEnd -> true
                 | _ -> false)
      | COther -> (match c with
                   | COther -> true
                   | _ -> false)) evs)

(** val size : node -> nat **)

let rec size = function
| Node (_, _, b, _) -> S (sizes b)

(** val sizes : items -> nat **)

and sizes = function
| INil -> O
| ICall (n0, r) -> add (size n0) (sizes r)
| IRet r -> sizes r
| ILine (_, r) -> sizes r

(** val clean : node -> bool **)

let rec clean = function
| Node (_, _, b, e) ->
  (&&) (cleans b) (match e with
                   | EPending -> false
                   | _ -> true)

(** val cleans : items -> bool **)

and cleans = function
| INil -> true
| ICall (n0, r) -> (&&) (clean n0) (cleans r)
| IRet _ -> false
| ILine (_, r) -> cleans r

(** val started : node -> bool **)

let rec started = function
| Node (_, s, b, _) ->
  (&&) (starteds b) (match s with
                     | SCloseUnstarted -> false
                     | _ -> true)

(** val starteds : items -> bool **)

and starteds = function
| INil -> true
| ICall (n0, r) -> (&&) (started n0) (starteds r)
| IRet r -> starteds r
| ILine (_, r) -> starteds r

(** val throw_as_resume : event -> event **)

let throw_as_resume e = match e with
| (e0, f) -> (match e0 with
              | KThrow -> (KResume, f)
              | _ -> e)
