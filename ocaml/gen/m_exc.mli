
val negb : bool -> bool

type nat =
| O
| S of nat

val fst : ('a1 * 'a2) -> 'a1

val snd : ('a1 * 'a2) -> 'a2

val length : 'a1 list -> nat

val app : 'a1 list -> 'a1 list -> 'a1 list

val add : nat -> nat -> nat

type positive =
| XI of positive
| XO of positive
| XH

type n =
| N0
| Npos of positive

type z =
| Z0
| Zpos of positive
| Zneg of positive

module Nat :
 sig
  val eqb : nat -> nat -> bool
 end

val nth : nat -> 'a1 list -> 'a1 -> 'a1

val filter : ('a1 -> bool) -> 'a1 list -> 'a1 list

val ex_keep : (((((nat * n) * z) * z list) * z option) * positive) * bool

val c_runtime : nat

val c_unbound : nat

type eobj = { e_cls : nat; e_user : bool; e_ctx : nat option;
              e_cause : nat option; e_supp : bool }

type event =
| EvLog of nat
| EvProbe of nat option * eobj list
| EvEnter of nat
| EvExit of nat * nat option * nat option * eobj list

type core = { heap : eobj list; env : (nat * nat) list; log : event list }

type state = { co : core; top : nat option; below : nat option;
               cur : nat option option; wx : bool }

val set_co : core -> state -> state

val set_top : nat option -> state -> state

val set_cur : nat option option -> state -> state

val set_wx : bool -> state -> state

val handled : state -> nat option

type oc =
| ONorm
| ORaise of nat
| ORet
| OBrk
| OCont
| OCrash

val get : eobj list -> nat -> eobj

val upd : eobj list -> nat -> (eobj -> eobj) -> eobj list

val with_ctx : nat option -> eobj -> eobj

val with_cause : nat option -> eobj -> eobj

val break_cycle : nat -> eobj list -> nat -> nat -> eobj list

val set_ctx : eobj list -> nat -> nat option -> eobj list

val add_log : event -> core -> core

val set_heap : eobj list -> core -> core

val alloc : nat -> bool -> core -> nat * core

val lookup : nat -> (nat * nat) list -> nat option

val unbind : nat -> core -> core

val bind : nat -> nat -> core -> core

val bind_opt : nat option -> nat -> core -> core

val unbind_opt : nat option -> core -> core

val raise_with : nat -> core -> nat option -> oc * core

val raise_internal : nat -> core -> nat option -> oc * core

type what =
| RNew of nat
| RVar of nat

type cause =
| NoCause
| FromNone
| FromNew of nat
| FromVar of nat

val do_raise : what -> cause -> core -> nat option -> oc * core

val lift : (core -> nat option -> oc * core) -> state -> oc * state

val logst : (core -> nat option -> event) -> state -> state

val ev_probe : core -> nat option -> event

val ev_exit : nat -> nat option -> core -> nat option -> event

val pat_matches : nat option -> nat -> bool

val cls_of : state -> nat -> nat

type exitk =
| XPass
| XSwallow
| XRaise of nat

type stmt =
| SSkip
| SLog of nat
| SProbe
| SRaise of what * cause
| SReraise
| SSeq of stmt * stmt
| STry of stmt * handlers * stmt
| SFinally of stmt * stmt
| SWith of nat * exitk * stmt
| SLoop of nat * stmt
| SReturn
| SBreak
| SContinue
and handlers =
| HNil
| HCons of nat option * nat option * stmt * handlers

val reraise_dynamic : state -> oc * state

val after : oc -> oc -> oc

val exec_ref : stmt -> state -> oc * state

val handle_ref : handlers -> nat -> state -> oc * state

type cstmt =
| CSkip
| CLog of nat
| CProbe
| CRaise of what * cause
| CReraise
| CSeq of cstmt * cstmt
| CTry of cstmt * chandlers * cstmt
| CFinally of bool * cstmt * cstmt
| CLoop of nat * cstmt
| CReturn
| CBreak
| CContinue
| CDel of nat
| CWithScope of nat * cstmt
| CExitExc of nat * exitk
| CExitNone of nat * exitk
and chandlers =
| CHNil
| CHCons of nat option * nat option * cstmt * chandlers

val desugar : stmt -> cstmt

val desugar_h : handlers -> chandlers

val trivial : cstmt -> bool

val reraise_sch : bool -> state -> oc * state

val exec_sch : bool -> bool -> cstmt -> state -> oc * state

val handle_sch :
  bool -> bool -> chandlers -> nat -> nat option -> state -> oc * state

val init_state : eobj list -> nat option -> nat option -> state

val run_ref : stmt -> eobj list -> nat option -> nat option -> oc * state

val run_sch :
  bool -> bool -> stmt -> eobj list -> nat option -> nat option -> oc * state

type label = nat

type cgs = { g_err : label; g_ret : label; g_brk : label; g_cont : label;
             g_next : label }

val set_err : label -> cgs -> cgs

val set_ret : label -> cgs -> cgs

val bump : nat -> cgs -> cgs

val restore : cgs -> cgs -> cgs

type trylabels = { t_our_err : label; t_exc_err : label; t_exc_ret : 
                   label; t_try_ret : label; t_try_brk : label;
                   t_try_cont : label; t_old_err : label; t_old_ret : 
                   label; t_old_brk : label; t_old_cont : label }

type finlabels = { f_new_cont : label; f_new_brk : label; f_new_ret : 
                   label; f_new_err : label; f_ex_cont : label;
                   f_ex_brk : label; f_ex_ret : label; f_ex_err : label;
                   f_old_cont : label; f_old_brk : label; f_old_ret : 
                   label; f_old_err : label }

type lcode =
| LSkip
| LLog of nat * label
| LProbe of label
| LRaise of what * cause * label
| LReraise of label
| LGoto of label
| LSeq of lcode * lcode
| LTry of trylabels * lcode * lhandlers * lcode
| LFinally of bool * finlabels * lcode * lcode * lcode * lcode * lcode * lcode
| LLoop of nat * label * label * lcode
| LDel of nat
| LWithScope of nat * label * lcode
| LExitExc of nat * exitk * label
| LExitNone of nat * exitk * label
and lhandlers =
| LHNil
| LHCons of nat option * nat option * bool * label * label * label * 
   label * lcode * lhandlers

val gen : bool -> cstmt -> cgs -> lcode * cgs

val gen_h : bool -> chandlers -> cgs -> lhandlers * cgs

type lx =
| XFall
| XJump of label * nat option
| XCrash

val err_to : label -> oc -> lx

val try_exits : trylabels -> nat option -> lx -> state -> lx * state

val fin_relabel : finlabels -> label -> label

val fin_copy : (lx * state) -> label -> nat option -> lx * state

val exec_lab : bool -> bool -> lcode -> state -> lx * state

val handle_lab :
  bool -> bool -> lhandlers -> nat -> trylabels -> nat option -> state ->
  lx * state

val g_fun : cgs

val untr : cgs -> lx -> oc

val run_lab :
  bool -> bool -> bool -> stmt -> eobj list -> nat option -> nat option ->
  oc * state

type astmt =
| ASkip
| ALog of nat
| AProbe
| ARaise of what * cause
| AReraise of nat option
| ASeq of astmt * astmt
| ATry of astmt * ahandlers * astmt
| AFinally of bool * nat * astmt * astmt * astmt
| ALoop of nat * astmt
| AReturn
| ABreak
| AContinue
| ADel of nat
| AWithScope of nat * astmt
| AExitExc of nat * exitk * nat option
| AExitNone of nat * exitk
and ahandlers =
| AHNil
| AHCons of nat option * nat option * nat option * astmt * ahandlers

val needs_exception : nat option -> cstmt -> bool

val fin_exc_vars : bool -> nat option -> nat -> nat option

val annot : bool -> cstmt -> nat option -> nat -> astmt * nat

val annot_h : bool -> chandlers -> nat option -> nat -> ahandlers * nat

type temps = nat -> nat option

val tset : temps -> nat -> nat option -> temps

val no_temps : temps

val reraise_a : bool -> nat option -> state -> temps -> (oc * state) * temps

val exec_a : bool -> bool -> astmt -> state -> temps -> (oc * state) * temps

val handle_a :
  bool -> bool -> ahandlers -> nat -> nat option -> state -> temps ->
  (oc * state) * temps

val run_tmp :
  bool -> bool -> bool -> stmt -> eobj list -> nat option -> nat option ->
  oc * state

type reader =
| RBare of nat option
| RWith of nat option

val readers : astmt -> reader list

val readers_h : ahandlers -> reader list

val resolve : bool -> stmt -> reader list
