
(** val negb : bool -> bool **)

let negb = function
| true -> false
| false -> true

type nat =
| O
| S of nat

(** val fst : ('a1 * 'a2) -> 'a1 **)

let fst = function
| (x, _) -> x

(** val snd : ('a1 * 'a2) -> 'a2 **)

let snd = function
| (_, y) -> y

(** val length : 'a1 list -> nat **)

let rec length = function
| [] -> O
| _ :: l' -> S (length l')

(** val app : 'a1 list -> 'a1 list -> 'a1 list **)

let rec app l m =
  match l with
  | [] -> m
  | a :: l1 -> a :: (app l1 m)

(** val add : nat -> nat -> nat **)

let rec add n0 m =
  match n0 with
  | O -> m
  | S p -> S (add p m)

type positive =
| XI of positive
| XO of positive
| XH

type n =
| N0
| Npos of positive

type z =
| Z0
| Zpos of positive
| Zneg of positive

(** val eqb : bool -> bool -> bool **)

let eqb b1 b2 =
  if b1 then b2 else if b2 then false else true

module Pos =
 struct
  (** val succ : positive -> positive **)

  let rec succ = function
  | XI p -> XO (succ p)
  | XO p -> XI p
  | XH -> XO XH

  (** val eqb : positive -> positive -> bool **)

  let rec eqb p q =
    match p with
    | XI p0 -> (match q with
                | XI q0 -> eqb p0 q0
                | _ -> false)
    | XO p0 -> (match q with
                | XO q0 -> eqb p0 q0
                | _ -> false)
    | XH -> (match q with
             | XH -> true
             | _ -> false)

  (** val iter_op : ('a1 -> 'a1 -> 'a1) -> positive -> 'a1 -> 'a1 **)

  let rec iter_op op p a =
    match p with
    | XI p0 -> op a (iter_op op p0 (op a a))
    | XO p0 -> iter_op op p0 (op a a)
    | XH -> a

  (** val to_nat : positive -> nat **)

  let to_nat x =
    iter_op add x (S O)

  (** val of_succ_nat : nat -> positive **)

  let rec of_succ_nat = function
  | O -> XH
  | S x -> succ (of_succ_nat x)
 end

module N =
 struct
  (** val eqb : n -> n -> bool **)

  let eqb n0 m =
    match n0 with
    | N0 -> (match m with
             | N0 -> true
             | Npos _ -> false)
    | Npos p -> (match m with
                 | N0 -> false
                 | Npos q -> Pos.eqb p q)

  (** val to_nat : n -> nat **)

  let to_nat = function
  | N0 -> O
  | Npos p -> Pos.to_nat p

  (** val of_nat : nat -> n **)

  let of_nat = function
  | O -> N0
  | S n' -> Npos (Pos.of_succ_nat n')
 end

(** val nth_error : 'a1 list -> nat -> 'a1 option **)

let rec nth_error l = function
| O -> (match l with
        | [] -> None
        | x :: _ -> Some x)
| S n1 -> (match l with
           | [] -> None
           | _ :: l0 -> nth_error l0 n1)

(** val map : ('a1 -> 'a2) -> 'a1 list -> 'a2 list **)

let rec map f = function
| [] -> []
| a :: t -> (f a) :: (map f t)

(** val flat_map : ('a1 -> 'a2 list) -> 'a1 list -> 'a2 list **)

let rec flat_map f = function
| [] -> []
| x :: t -> app (f x) (flat_map f t)

(** val combine : 'a1 list -> 'a2 list -> ('a1 * 'a2) list **)

let rec combine l l' =
  match l with
  | [] -> []
  | x :: tl ->
    (match l' with
     | [] -> []
     | y :: tl' -> (x, y) :: (combine tl tl'))

(** val ex_keep :
    (((((nat * n) * z) * z list) * z option) * positive) * bool **)

let ex_keep =
  ((((((O, N0), Z0), []), None), XH), true)

type value = n list

(** val enc_value : value -> n list **)

let enc_value v =
  (N.of_nat (length v)) :: v

(** val serialise : value list -> n list **)

let serialise vs =
  flat_map enc_value vs

type how =
| Hit
| Miss
| Bypass

(** val key :
    ('a2 -> 'a1 -> value) -> (n list -> 'a3) -> 'a1 list -> 'a2 -> 'a3 **)

let key get hash ks r =
  hash (serialise (map (get r) ks))

type ('k, 'out) store = ('k * 'out) list

(** val find :
    ('a1 -> 'a1 -> bool) -> 'a1 -> ('a1, 'a2) store -> 'a2 option **)

let rec find keqb k = function
| [] -> None
| p :: st' -> let (k', o) = p in if keqb k k' then Some o else find keqb k st'

(** val step :
    ('a2 -> 'a1 -> value) -> (n list -> 'a3) -> ('a3 -> 'a3 -> bool) -> ('a2
    -> 'a4) -> ('a4 -> bool) -> ('a2 -> bool) -> 'a1 list -> ('a3, 'a4) store
    -> 'a2 -> ('a3, 'a4) store * (how * 'a4) **)

let step get hash keqb compile ok bypass ks st r =
  if bypass r
  then (st, (Bypass, (compile r)))
  else (match find keqb (key get hash ks r) st with
        | Some o -> (st, (Hit, o))
        | None ->
          let o = compile r in
          ((if ok o then ((key get hash ks r), o) :: st else st), (Miss, o)))

(** val exec :
    ('a2 -> 'a1 -> value) -> (n list -> 'a3) -> ('a3 -> 'a3 -> bool) -> ('a2
    -> 'a4) -> ('a4 -> bool) -> ('a2 -> bool) -> 'a1 list -> ('a3, 'a4) store
    -> 'a2 list -> ('a3, 'a4) store * (how * 'a4) list **)

let rec exec get hash keqb compile ok bypass ks st = function
| [] -> (st, [])
| r :: h' ->
  let (st1, res) = step get hash keqb compile ok bypass ks st r in
  let (st2, rs) = exec get hash keqb compile ok bypass ks st1 h' in
  (st2, (res :: rs))

(** val run :
    ('a2 -> 'a1 -> value) -> (n list -> 'a3) -> ('a3 -> 'a3 -> bool) -> ('a2
    -> 'a4) -> ('a4 -> bool) -> ('a2 -> bool) -> 'a1 list -> 'a2 list ->
    (how * 'a4) list **)

let run get hash keqb compile ok bypass ks h =
  snd (exec get hash keqb compile ok bypass ks [] h)

(** val list_eqb : n list -> n list -> bool **)

let rec list_eqb a b =
  match a with
  | [] -> (match b with
           | [] -> true
           | _ :: _ -> false)
  | x :: a' ->
    (match b with
     | [] -> false
     | y :: b' -> (&&) (N.eqb x y) (list_eqb a' b'))

type creq = (bool * bool) * n list

(** val cget : creq -> n -> value **)

let cget r i =
  match nth_error (snd r) (N.to_nat i) with
  | Some v -> v :: []
  | None -> []

(** val run_concrete : n list -> n list -> creq list -> (how * bool) list **)

let run_concrete ks aff h =
  let fresh = fun r -> ((snd (fst r)), (serialise (map (cget r) aff))) in
  let out_eqb = fun a b ->
    (&&) (eqb (fst a) (fst b)) (list_eqb (snd a) (snd b))
  in
  let res =
    run cget (fun x -> x) list_eqb fresh (fun o -> negb (fst o)) (fun r ->
      fst (fst r)) ks h
  in
  map (fun p -> ((fst (fst p)),
    (negb (out_eqb (snd (fst p)) (fresh (snd p)))))) (combine res h)
