
(** val negb : bool -> bool **)

let negb = function
| true -> false
| false -> true

type nat =
| O
| S of nat

(** val option_map : ('a1 -> 'a2) -> 'a1 option -> 'a2 option **)

let option_map f = function
| Some a -> Some (f a)
| None -> None

(** val fst : ('a1 * 'a2) -> 'a1 **)

let fst = function
| (x, _) -> x

(** val snd : ('a1 * 'a2) -> 'a2 **)

let snd = function
| (_, y) -> y

(** val length : 'a1 list -> nat **)

let rec length = function
| [] -> O
| _ :: l' -> S (length l')

(** val app : 'a1 list -> 'a1 list -> 'a1 list **)

let rec app l m =
  match l with
  | [] -> m
  | a :: l1 -> a :: (app l1 m)

type comparison =
| Eq
| Lt
| Gt

(** val compOpp : comparison -> comparison **)

let compOpp = function
| Eq -> Eq
| Lt -> Gt
| Gt -> Lt

module Coq__1 = struct
 (** val add : nat -> nat -> nat **)
 let rec add n0 m =
   match n0 with
   | O -> m
   | S p -> S (add p m)
end
include Coq__1

(** val sub : nat -> nat -> nat **)

let rec sub n0 m =
  match n0 with
  | O -> n0
  | S k -> (match m with
            | O -> n0
            | S l -> sub k l)

type positive =
| XI of positive
| XO of positive
| XH

type n =
| N0
| Npos of positive

type z =
| Z0
| Zpos of positive
| Zneg of positive

module Nat =
 struct
  (** val sub : nat -> nat -> nat **)

  let rec sub n0 m =
    match n0 with
    | O -> n0
    | S k -> (match m with
              | O -> n0
              | S l -> sub k l)

  (** val eqb : nat -> nat -> bool **)

  let rec eqb n0 m =
    match n0 with
    | O -> (match m with
            | O -> true
            | S _ -> false)
    | S n' -> (match m with
               | O -> false
               | S m' -> eqb n' m')

  (** val leb : nat -> nat -> bool **)

  let rec leb n0 m =
    match n0 with
    | O -> true
    | S n' -> (match m with
               | O -> false
               | S m' -> leb n' m')

  (** val ltb : nat -> nat -> bool **)

  let ltb n0 m =
    leb (S n0) m

  (** val divmod : nat -> nat -> nat -> nat -> nat * nat **)

  let rec divmod x y q u =
    match x with
    | O -> (q, u)
    | S x' ->
      (match u with
       | O -> divmod x' y (S q) y
       | S u' -> divmod x' y q u')

  (** val modulo : nat -> nat -> nat **)

  let modulo x = function
  | O -> x
  | S y' -> sub y' (snd (divmod x y' O y'))

  (** val iter : nat -> ('a1 -> 'a1) -> 'a1 -> 'a1 **)

  let rec iter n0 f x =
    match n0 with
    | O -> x
    | S n1 -> f (iter n1 f x)
 end

module Pos =
 struct
  type mask =
  | IsNul
  | IsPos of positive
  | IsNeg
 end

module Coq_Pos =
 struct
  (** val succ : positive -> positive **)

  let rec succ = function
  | XI p -> XO (succ p)
  | XO p -> XI p
  | XH -> XO XH

  (** val add : positive -> positive -> positive **)

  let rec add x y =
    match x with
    | XI p ->
      (match y with
       | XI q -> XO (add_carry p q)
       | XO q -> XI (add p q)
       | XH -> XO (succ p))
    | XO p ->
      (match y with
       | XI q -> XI (add p q)
       | XO q -> XO (add p q)
       | XH -> XI p)
    | XH -> (match y with
             | XI q -> XO (succ q)
             | XO q -> XI q
             | XH -> XO XH)

  (** val add_carry : positive -> positive -> positive **)

  and add_carry x y =
    match x with
    | XI p ->
      (match y with
       | XI q -> XI (add_carry p q)
       | XO q -> XO (add_carry p q)
       | XH -> XI (succ p))
    | XO p ->
      (match y with
       | XI q -> XO (add_carry p q)
       | XO q -> XI (add p q)
       | XH -> XO (succ p))
    | XH ->
      (match y with
       | XI q -> XI (succ q)
       | XO q -> XO (succ q)
       | XH -> XI XH)

  (** val pred_double : positive -> positive **)

  let rec pred_double = function
  | XI p -> XI (XO p)
  | XO p -> XI (pred_double p)
  | XH -> XH

  (** val pred_N : positive -> n **)

  let pred_N = function
  | XI p -> Npos (XO p)
  | XO p -> Npos (pred_double p)
  | XH -> N0

  type mask = Pos.mask =
  | IsNul
  | IsPos of positive
  | IsNeg

  (** val succ_double_mask : mask -> mask **)

  let succ_double_mask = function
  | IsNul -> IsPos XH
  | IsPos p -> IsPos (XI p)
  | IsNeg -> IsNeg

  (** val double_mask : mask -> mask **)

  let double_mask = function
  | IsPos p -> IsPos (XO p)
  | x0 -> x0

  (** val double_pred_mask : positive -> mask **)

  let double_pred_mask = function
  | XI p -> IsPos (XO (XO p))
  | XO p -> IsPos (XO (pred_double p))
  | XH -> IsNul

  (** val sub_mask : positive -> positive -> mask **)

  let rec sub_mask x y =
    match x with
    | XI p ->
      (match y with
       | XI q -> double_mask (sub_mask p q)
       | XO q -> succ_double_mask (sub_mask p q)
       | XH -> IsPos (XO p))
    | XO p ->
      (match y with
       | XI q -> succ_double_mask (sub_mask_carry p q)
       | XO q -> double_mask (sub_mask p q)
       | XH -> IsPos (pred_double p))
    | XH -> (match y with
             | XH -> IsNul
             | _ -> IsNeg)

  (** val sub_mask_carry : positive -> positive -> mask **)

  and sub_mask_carry x y =
    match x with
    | XI p ->
      (match y with
       | XI q -> succ_double_mask (sub_mask_carry p q)
       | XO q -> double_mask (sub_mask p q)
       | XH -> IsPos (pred_double p))
    | XO p ->
      (match y with
       | XI q -> double_mask (sub_mask_carry p q)
       | XO q -> succ_double_mask (sub_mask_carry p q)
       | XH -> double_pred_mask p)
    | XH -> IsNeg

  (** val mul : positive -> positive -> positive **)

  let rec mul x y =
    match x with
    | XI p -> add y (XO (mul p y))
    | XO p -> XO (mul p y)
    | XH -> y

  (** val iter : ('a1 -> 'a1) -> 'a1 -> positive -> 'a1 **)

  let rec iter f x = function
  | XI n' -> f (iter f (iter f x n') n')
  | XO n' -> iter f (iter f x n') n'
  | XH -> f x

  (** val pow : positive -> positive -> positive **)

  let pow x =
    iter (mul x) XH

  (** val div2 : positive -> positive **)

  let div2 = function
  | XI p0 -> p0
  | XO p0 -> p0
  | XH -> XH

  (** val div2_up : positive -> positive **)

  let div2_up = function
  | XI p0 -> succ p0
  | XO p0 -> p0
  | XH -> XH

  (** val size : positive -> positive **)

  let rec size = function
  | XI p0 -> succ (size p0)
  | XO p0 -> succ (size p0)
  | XH -> XH

  (** val compare_cont : comparison -> positive -> positive -> comparison **)

  let rec compare_cont r x y =
    match x with
    | XI p ->
      (match y with
       | XI q -> compare_cont r p q
       | XO q -> compare_cont Gt p q
       | XH -> Gt)
    | XO p ->
      (match y with
       | XI q -> compare_cont Lt p q
       | XO q -> compare_cont r p q
       | XH -> Gt)
    | XH -> (match y with
             | XH -> r
             | _ -> Lt)

  (** val compare : positive -> positive -> comparison **)

  let compare =
    compare_cont Eq

  (** val eqb : positive -> positive -> bool **)

  let rec eqb p q =
    match p with
    | XI p0 -> (match q with
                | XI q0 -> eqb p0 q0
                | _ -> false)
    | XO p0 -> (match q with
                | XO q0 -> eqb p0 q0
                | _ -> false)
    | XH -> (match q with
             | XH -> true
             | _ -> false)

  (** val coq_Nsucc_double : n -> n **)

  let coq_Nsucc_double = function
  | N0 -> Npos XH
  | Npos p -> Npos (XI p)

  (** val coq_Ndouble : n -> n **)

  let coq_Ndouble = function
  | N0 -> N0
  | Npos p -> Npos (XO p)

  (** val coq_lor : positive -> positive -> positive **)

  let rec coq_lor p q =
    match p with
    | XI p0 ->
      (match q with
       | XI q0 -> XI (coq_lor p0 q0)
       | XO q0 -> XI (coq_lor p0 q0)
       | XH -> p)
    | XO p0 ->
      (match q with
       | XI q0 -> XI (coq_lor p0 q0)
       | XO q0 -> XO (coq_lor p0 q0)
       | XH -> XI p0)
    | XH -> (match q with
             | XO q0 -> XI q0
             | _ -> q)

  (** val coq_land : positive -> positive -> n **)

  let rec coq_land p q =
    match p with
    | XI p0 ->
      (match q with
       | XI q0 -> coq_Nsucc_double (coq_land p0 q0)
       | XO q0 -> coq_Ndouble (coq_land p0 q0)
       | XH -> Npos XH)
    | XO p0 ->
      (match q with
       | XI q0 -> coq_Ndouble (coq_land p0 q0)
       | XO q0 -> coq_Ndouble (coq_land p0 q0)
       | XH -> N0)
    | XH -> (match q with
             | XO _ -> N0
             | _ -> Npos XH)

  (** val ldiff : positive -> positive -> n **)

  let rec ldiff p q =
    match p with
    | XI p0 ->
      (match q with
       | XI q0 -> coq_Ndouble (ldiff p0 q0)
       | XO q0 -> coq_Nsucc_double (ldiff p0 q0)
       | XH -> Npos (XO p0))
    | XO p0 ->
      (match q with
       | XI q0 -> coq_Ndouble (ldiff p0 q0)
       | XO q0 -> coq_Ndouble (ldiff p0 q0)
       | XH -> Npos p)
    | XH -> (match q with
             | XO _ -> Npos XH
             | _ -> N0)

  (** val iter_op : ('a1 -> 'a1 -> 'a1) -> positive -> 'a1 -> 'a1 **)

  let rec iter_op op p a =
    match p with
    | XI p0 -> op a (iter_op op p0 (op a a))
    | XO p0 -> iter_op op p0 (op a a)
    | XH -> a

  (** val to_nat : positive -> nat **)

  let to_nat x =
    iter_op Coq__1.add x (S O)

  (** val of_succ_nat : nat -> positive **)

  let rec of_succ_nat = function
  | O -> XH
  | S x -> succ (of_succ_nat x)
 end

module N =
 struct
  (** val succ_double : n -> n **)

  let succ_double = function
  | N0 -> Npos XH
  | Npos p -> Npos (XI p)

  (** val double : n -> n **)

  let double = function
  | N0 -> N0
  | Npos p -> Npos (XO p)

  (** val succ_pos : n -> positive **)

  let succ_pos = function
  | N0 -> XH
  | Npos p -> Coq_Pos.succ p

  (** val add : n -> n -> n **)

  let add n0 m =
    match n0 with
    | N0 -> m
    | Npos p -> (match m with
                 | N0 -> n0
                 | Npos q -> Npos (Coq_Pos.add p q))

  (** val sub : n -> n -> n **)

  let sub n0 m =
    match n0 with
    | N0 -> N0
    | Npos n' ->
      (match m with
       | N0 -> n0
       | Npos m' ->
         (match Coq_Pos.sub_mask n' m' with
          | Coq_Pos.IsPos p -> Npos p
          | _ -> N0))

  (** val mul : n -> n -> n **)

  let mul n0 m =
    match n0 with
    | N0 -> N0
    | Npos p -> (match m with
                 | N0 -> N0
                 | Npos q -> Npos (Coq_Pos.mul p q))

  (** val compare : n -> n -> comparison **)

  let compare n0 m =
    match n0 with
    | N0 -> (match m with
             | N0 -> Eq
             | Npos _ -> Lt)
    | Npos n' -> (match m with
                  | N0 -> Gt
                  | Npos m' -> Coq_Pos.compare n' m')

  (** val eqb : n -> n -> bool **)

  let eqb n0 m =
    match n0 with
    | N0 -> (match m with
             | N0 -> true
             | Npos _ -> false)
    | Npos p -> (match m with
                 | N0 -> false
                 | Npos q -> Coq_Pos.eqb p q)

  (** val leb : n -> n -> bool **)

  let leb x y =
    match compare x y with
    | Gt -> false
    | _ -> true

  (** val ltb : n -> n -> bool **)

  let ltb x y =
    match compare x y with
    | Lt -> true
    | _ -> false

  (** val max : n -> n -> n **)

  let max n0 n' =
    match compare n0 n' with
    | Gt -> n0
    | _ -> n'

  (** val pow : n -> n -> n **)

  let pow n0 = function
  | N0 -> Npos XH
  | Npos p0 -> (match n0 with
                | N0 -> N0
                | Npos q -> Npos (Coq_Pos.pow q p0))

  (** val size : n -> n **)

  let size = function
  | N0 -> N0
  | Npos p -> Npos (Coq_Pos.size p)

  (** val pos_div_eucl : positive -> n -> n * n **)

  let rec pos_div_eucl a b =
    match a with
    | XI a' ->
      let (q, r) = pos_div_eucl a' b in
      let r' = succ_double r in
      if leb b r' then ((succ_double q), (sub r' b)) else ((double q), r')
    | XO a' ->
      let (q, r) = pos_div_eucl a' b in
      let r' = double r in
      if leb b r' then ((succ_double q), (sub r' b)) else ((double q), r')
    | XH ->
      (match b with
       | N0 -> (N0, (Npos XH))
       | Npos p -> (match p with
                    | XH -> ((Npos XH), N0)
                    | _ -> (N0, (Npos XH))))

  (** val div_eucl : n -> n -> n * n **)

  let div_eucl a b =
    match a with
    | N0 -> (N0, N0)
    | Npos na -> (match b with
                  | N0 -> (N0, a)
                  | Npos _ -> pos_div_eucl na b)

  (** val div : n -> n -> n **)

  let div a b =
    fst (div_eucl a b)

  (** val modulo : n -> n -> n **)

  let modulo a b =
    snd (div_eucl a b)

  (** val coq_lor : n -> n -> n **)

  let coq_lor n0 m =
    match n0 with
    | N0 -> m
    | Npos p -> (match m with
                 | N0 -> n0
                 | Npos q -> Npos (Coq_Pos.coq_lor p q))

  (** val coq_land : n -> n -> n **)

  let coq_land n0 m =
    match n0 with
    | N0 -> N0
    | Npos p -> (match m with
                 | N0 -> N0
                 | Npos q -> Coq_Pos.coq_land p q)

  (** val ldiff : n -> n -> n **)

  let ldiff n0 m =
    match n0 with
    | N0 -> N0
    | Npos p -> (match m with
                 | N0 -> n0
                 | Npos q -> Coq_Pos.ldiff p q)

  (** val to_nat : n -> nat **)

  let to_nat = function
  | N0 -> O
  | Npos p -> Coq_Pos.to_nat p

  (** val of_nat : nat -> n **)

  let of_nat = function
  | O -> N0
  | S n' -> Npos (Coq_Pos.of_succ_nat n')
 end

(** val tl : 'a1 list -> 'a1 list **)

let tl = function
| [] -> []
| _ :: m -> m

(** val nth : nat -> 'a1 list -> 'a1 -> 'a1 **)

let rec nth n0 l default =
  match n0 with
  | O -> (match l with
          | [] -> default
          | x :: _ -> x)
  | S m -> (match l with
            | [] -> default
            | _ :: t0 -> nth m t0 default)

(** val nth_error : 'a1 list -> nat -> 'a1 option **)

let rec nth_error l = function
| O -> (match l with
        | [] -> None
        | x :: _ -> Some x)
| S n1 -> (match l with
           | [] -> None
           | _ :: l0 -> nth_error l0 n1)

(** val rev : 'a1 list -> 'a1 list **)

let rec rev = function
| [] -> []
| x :: l' -> app (rev l') (x :: [])

(** val rev_append : 'a1 list -> 'a1 list -> 'a1 list **)

let rec rev_append l l' =
  match l with
  | [] -> l'
  | a :: l0 -> rev_append l0 (a :: l')

(** val rev' : 'a1 list -> 'a1 list **)

let rev' l =
  rev_append l []

(** val concat : 'a1 list list -> 'a1 list **)

let rec concat = function
| [] -> []
| x :: l0 -> app x (concat l0)

(** val map : ('a1 -> 'a2) -> 'a1 list -> 'a2 list **)

let rec map f = function
| [] -> []
| a :: t0 -> (f a) :: (map f t0)

(** val flat_map : ('a1 -> 'a2 list) -> 'a1 list -> 'a2 list **)

let rec flat_map f = function
| [] -> []
| x :: t0 -> app (f x) (flat_map f t0)

(** val fold_left : ('a1 -> 'a2 -> 'a1) -> 'a2 list -> 'a1 -> 'a1 **)

let rec fold_left f l a0 =
  match l with
  | [] -> a0
  | b :: t0 -> fold_left f t0 (f a0 b)

(** val fold_right : ('a2 -> 'a1 -> 'a1) -> 'a1 -> 'a2 list -> 'a1 **)

let rec fold_right f a0 = function
| [] -> a0
| b :: t0 -> f b (fold_right f a0 t0)

(** val existsb : ('a1 -> bool) -> 'a1 list -> bool **)

let rec existsb f = function
| [] -> false
| a :: l0 -> (||) (f a) (existsb f l0)

(** val forallb : ('a1 -> bool) -> 'a1 list -> bool **)

let rec forallb f = function
| [] -> true
| a :: l0 -> (&&) (f a) (forallb f l0)

(** val find : ('a1 -> bool) -> 'a1 list -> 'a1 option **)

let rec find f = function
| [] -> None
| x :: tl0 -> if f x then Some x else find f tl0

(** val firstn : nat -> 'a1 list -> 'a1 list **)

let rec firstn n0 l =
  match n0 with
  | O -> []
  | S n1 -> (match l with
             | [] -> []
             | a :: l0 -> a :: (firstn n1 l0))

(** val skipn : nat -> 'a1 list -> 'a1 list **)

let rec skipn n0 l =
  match n0 with
  | O -> l
  | S n1 -> (match l with
             | [] -> []
             | _ :: l0 -> skipn n1 l0)

module Z =
 struct
  (** val double : z -> z **)

  let double = function
  | Z0 -> Z0
  | Zpos p -> Zpos (XO p)
  | Zneg p -> Zneg (XO p)

  (** val succ_double : z -> z **)

  let succ_double = function
  | Z0 -> Zpos XH
  | Zpos p -> Zpos (XI p)
  | Zneg p -> Zneg (Coq_Pos.pred_double p)

  (** val pred_double : z -> z **)

  let pred_double = function
  | Z0 -> Zneg XH
  | Zpos p -> Zpos (Coq_Pos.pred_double p)
  | Zneg p -> Zneg (XI p)

  (** val pos_sub : positive -> positive -> z **)

  let rec pos_sub x y =
    match x with
    | XI p ->
      (match y with
       | XI q -> double (pos_sub p q)
       | XO q -> succ_double (pos_sub p q)
       | XH -> Zpos (XO p))
    | XO p ->
      (match y with
       | XI q -> pred_double (pos_sub p q)
       | XO q -> double (pos_sub p q)
       | XH -> Zpos (Coq_Pos.pred_double p))
    | XH ->
      (match y with
       | XI q -> Zneg (XO q)
       | XO q -> Zneg (Coq_Pos.pred_double q)
       | XH -> Z0)

  (** val add : z -> z -> z **)

  let add x y =
    match x with
    | Z0 -> y
    | Zpos x' ->
      (match y with
       | Z0 -> x
       | Zpos y' -> Zpos (Coq_Pos.add x' y')
       | Zneg y' -> pos_sub x' y')
    | Zneg x' ->
      (match y with
       | Z0 -> x
       | Zpos y' -> pos_sub y' x'
       | Zneg y' -> Zneg (Coq_Pos.add x' y'))

  (** val opp : z -> z **)

  let opp = function
  | Z0 -> Z0
  | Zpos x0 -> Zneg x0
  | Zneg x0 -> Zpos x0

  (** val sub : z -> z -> z **)

  let sub m n0 =
    add m (opp n0)

  (** val mul : z -> z -> z **)

  let mul x y =
    match x with
    | Z0 -> Z0
    | Zpos x' ->
      (match y with
       | Z0 -> Z0
       | Zpos y' -> Zpos (Coq_Pos.mul x' y')
       | Zneg y' -> Zneg (Coq_Pos.mul x' y'))
    | Zneg x' ->
      (match y with
       | Z0 -> Z0
       | Zpos y' -> Zneg (Coq_Pos.mul x' y')
       | Zneg y' -> Zpos (Coq_Pos.mul x' y'))

  (** val compare : z -> z -> comparison **)

  let compare x y =
    match x with
    | Z0 -> (match y with
             | Z0 -> Eq
             | Zpos _ -> Lt
             | Zneg _ -> Gt)
    | Zpos x' -> (match y with
                  | Zpos y' -> Coq_Pos.compare x' y'
                  | _ -> Gt)
    | Zneg x' ->
      (match y with
       | Zneg y' -> compOpp (Coq_Pos.compare x' y')
       | _ -> Lt)

  (** val leb : z -> z -> bool **)

  let leb x y =
    match compare x y with
    | Gt -> false
    | _ -> true

  (** val ltb : z -> z -> bool **)

  let ltb x y =
    match compare x y with
    | Lt -> true
    | _ -> false

  (** val geb : z -> z -> bool **)

  let geb x y =
    match compare x y with
    | Lt -> false
    | _ -> true

  (** val gtb : z -> z -> bool **)

  let gtb x y =
    match compare x y with
    | Gt -> true
    | _ -> false

  (** val eqb : z -> z -> bool **)

  let eqb x y =
    match x with
    | Z0 -> (match y with
             | Z0 -> true
             | _ -> false)
    | Zpos p -> (match y with
                 | Zpos q -> Coq_Pos.eqb p q
                 | _ -> false)
    | Zneg p -> (match y with
                 | Zneg q -> Coq_Pos.eqb p q
                 | _ -> false)

  (** val max : z -> z -> z **)

  let max n0 m =
    match compare n0 m with
    | Lt -> m
    | _ -> n0

  (** val min : z -> z -> z **)

  let min n0 m =
    match compare n0 m with
    | Gt -> m
    | _ -> n0

  (** val to_nat : z -> nat **)

  let to_nat = function
  | Zpos p -> Coq_Pos.to_nat p
  | _ -> O

  (** val to_N : z -> n **)

  let to_N = function
  | Zpos p -> Npos p
  | _ -> N0

  (** val of_nat : nat -> z **)

  let of_nat = function
  | O -> Z0
  | S n1 -> Zpos (Coq_Pos.of_succ_nat n1)

  (** val of_N : n -> z **)

  let of_N = function
  | N0 -> Z0
  | Npos p -> Zpos p

  (** val to_pos : z -> positive **)

  let to_pos = function
  | Zpos p -> p
  | _ -> XH

  (** val div2 : z -> z **)

  let div2 = function
  | Z0 -> Z0
  | Zpos p -> (match p with
               | XH -> Z0
               | _ -> Zpos (Coq_Pos.div2 p))
  | Zneg p -> Zneg (Coq_Pos.div2_up p)

  (** val shiftl : z -> z -> z **)

  let shiftl a = function
  | Z0 -> a
  | Zpos p -> Coq_Pos.iter (mul (Zpos (XO XH))) a p
  | Zneg p -> Coq_Pos.iter div2 a p

  (** val shiftr : z -> z -> z **)

  let shiftr a n0 =
    shiftl a (opp n0)

  (** val coq_lor : z -> z -> z **)

  let coq_lor a b =
    match a with
    | Z0 -> b
    | Zpos a0 ->
      (match b with
       | Z0 -> a
       | Zpos b0 -> Zpos (Coq_Pos.coq_lor a0 b0)
       | Zneg b0 -> Zneg (N.succ_pos (N.ldiff (Coq_Pos.pred_N b0) (Npos a0))))
    | Zneg a0 ->
      (match b with
       | Z0 -> a
       | Zpos b0 -> Zneg (N.succ_pos (N.ldiff (Coq_Pos.pred_N a0) (Npos b0)))
       | Zneg b0 ->
         Zneg
           (N.succ_pos (N.coq_land (Coq_Pos.pred_N a0) (Coq_Pos.pred_N b0))))

  (** val coq_land : z -> z -> z **)

  let coq_land a b =
    match a with
    | Z0 -> Z0
    | Zpos a0 ->
      (match b with
       | Z0 -> Z0
       | Zpos b0 -> of_N (Coq_Pos.coq_land a0 b0)
       | Zneg b0 -> of_N (N.ldiff (Npos a0) (Coq_Pos.pred_N b0)))
    | Zneg a0 ->
      (match b with
       | Z0 -> Z0
       | Zpos b0 -> of_N (N.ldiff (Npos b0) (Coq_Pos.pred_N a0))
       | Zneg b0 ->
         Zneg (N.succ_pos (N.coq_lor (Coq_Pos.pred_N a0) (Coq_Pos.pred_N b0))))
 end

(** val ex_keep :
    (((((nat * n) * z) * z list) * z option) * positive) * bool **)

let ex_keep =
  ((((((O, N0), Z0), []), None), XH), true)

(** val oct3 : n -> n list **)

let oct3 b =
  (Npos (XO (XO (XI (XI (XI (XO
    XH))))))) :: ((N.add (Npos (XO (XO (XO (XO (XI XH))))))
                    (N.div b (Npos (XO (XO (XO (XO (XO (XO XH))))))))) :: (
    (N.add (Npos (XO (XO (XO (XO (XI XH))))))
      (N.modulo (N.div b (Npos (XO (XO (XO XH))))) (Npos (XO (XO (XO XH)))))) :: (
    (N.add (Npos (XO (XO (XO (XO (XI XH))))))
      (N.modulo b (Npos (XO (XO (XO XH)))))) :: [])))

(** val esc_special : n -> n list **)

let esc_special b =
  if N.eqb b (Npos (XO (XO (XI (XI (XI (XO XH)))))))
  then (Npos (XO (XO (XI (XI (XI (XO XH))))))) :: ((Npos (XO (XO (XI (XI (XI
         (XO XH))))))) :: [])
  else if N.eqb b (Npos (XO (XI (XO (XO (XO XH))))))
       then (Npos (XO (XO (XI (XI (XI (XO XH))))))) :: ((Npos (XO (XI (XO (XO
              (XO XH)))))) :: [])
       else if N.eqb b (Npos (XI (XI (XI (XO (XO XH))))))
            then oct3 (Npos (XI (XI (XI (XO (XO XH))))))
            else if N.eqb b (Npos (XO (XI (XO XH))))
                 then (Npos (XO (XO (XI (XI (XI (XO XH))))))) :: ((Npos (XO
                        (XI (XI (XI (XO (XI XH))))))) :: [])
                 else if N.eqb b (Npos (XI (XO (XI XH))))
                      then (Npos (XO (XO (XI (XI (XI (XO XH))))))) :: ((Npos
                             (XO (XI (XO (XO (XI (XI XH))))))) :: [])
                      else if N.eqb b (Npos (XI (XO (XO XH))))
                           then (Npos (XO (XO (XI (XI (XI (XO
                                  XH))))))) :: ((Npos (XO (XO (XI (XO (XI (XI
                                  XH))))))) :: [])
                           else if N.ltb b (Npos (XO (XO (XO (XO (XO XH))))))
                                then oct3 b
                                else b :: []

(** val replace_specials : n list -> n list **)

let rec replace_specials = function
| [] -> []
| b :: r ->
  (match r with
   | [] -> esc_special b
   | b2 :: r2 ->
     if (&&) (N.eqb b (Npos (XI (XI (XI (XI (XI XH)))))))
          (N.eqb b2 (Npos (XI (XI (XI (XI (XI XH)))))))
     then app (oct3 (Npos (XI (XI (XI (XI (XI XH)))))))
            (app (oct3 (Npos (XI (XI (XI (XI (XI XH)))))))
              (replace_specials r2))
     else app (esc_special b) (replace_specials r))

(** val esc_high : n -> n list **)

let esc_high b =
  if N.leb (Npos (XI (XI (XI (XI (XI (XI XH))))))) b then oct3 b else b :: []

(** val is_ascii : n list -> bool **)

let is_ascii s =
  forallb (fun b -> N.ltb b (Npos (XO (XO (XO (XO (XO (XO (XO XH))))))))) s

(** val escape_byte_string : n list -> n list **)

let escape_byte_string bs =
  let s = replace_specials bs in if is_ascii s then s else flat_map esc_high s

type sres =
| Chunks of n list list
| OutOfFuel
| Unmodelled

(** val find_bs : n list -> nat option **)

let rec find_bs = function
| [] -> None
| c :: r ->
  if N.eqb c (Npos (XO (XO (XI (XI (XI (XO XH)))))))
  then Some O
  else option_map (fun x -> S x) (find_bs r)

(** val retreat : n list -> nat -> nat -> nat **)

let rec retreat t0 fallback e' =
  if N.eqb (nth e' t0 N0) (Npos (XO (XO (XI (XI (XI (XO XH)))))))
  then (match e' with
        | O -> fallback
        | S e'' -> retreat t0 fallback e'')
  else S e'

(** val chunk_end : n list -> nat -> nat **)

let chunk_end t0 limit =
  if Nat.ltb (sub limit (S (S (S (S O))))) (length t0)
  then (match find_bs
                (firstn (S (S (S (S O))))
                  (skipn (sub limit (S (S (S (S O))))) t0)) with
        | Some i ->
          retreat t0
            (sub (sub limit (Nat.modulo limit (S (S O)))) (S (S (S (S O)))))
            (add (sub limit (S (S (S (S (S O)))))) i)
        | None -> limit)
  else limit

(** val split_loop : nat -> n list -> nat -> sres **)

let rec split_loop fuel t0 limit =
  match fuel with
  | O -> OutOfFuel
  | S f ->
    (match t0 with
     | [] -> Chunks []
     | _ :: _ ->
       let e = chunk_end t0 limit in
       (match split_loop f (skipn e t0) limit with
        | Chunks cs -> Chunks ((firstn e t0) :: cs)
        | x -> x))

(** val split_chunks : n list -> nat -> sres **)

let split_chunks s limit =
  if Nat.ltb limit (S (S (S (S (S O)))))
  then Unmodelled
  else if Nat.ltb (length s) limit
       then Chunks (s :: [])
       else split_loop (S (length s)) s limit

(** val join_chunks : n list list -> n list **)

let rec join_chunks = function
| [] -> []
| c :: r ->
  (match r with
   | [] -> c
   | _ :: _ ->
     app c
       (app ((Npos (XO (XI (XO (XO (XO XH)))))) :: ((Npos (XO (XI (XO (XO (XO
         XH)))))) :: [])) (join_chunks r)))

(** val split_string_literal : n list -> nat -> n list option **)

let split_string_literal s limit =
  match split_chunks s limit with
  | Chunks cs -> Some (join_chunks cs)
  | _ -> None

(** val as_c_string_literal : n list -> nat -> n list option **)

let as_c_string_literal bs limit =
  match split_string_literal (escape_byte_string bs) limit with
  | Some v ->
    Some
      (app ((Npos (XO (XI (XO (XO (XO XH)))))) :: [])
        (app v ((Npos (XO (XI (XO (XO (XO XH)))))) :: [])))
  | None -> None

(** val is_oct : n -> bool **)

let is_oct c =
  (&&) (N.leb (Npos (XO (XO (XO (XO (XI XH)))))) c)
    (N.leb c (Npos (XI (XI (XI (XO (XI XH)))))))

(** val split_characters : n list -> n list list **)

let rec split_characters = function
| [] -> []
| x :: t1 ->
  if N.eqb x (Npos (XO (XO (XI (XI (XI (XO XH)))))))
  then (match t1 with
        | [] -> (x :: []) :: []
        | a :: t2 ->
          (match t2 with
           | [] -> (x :: (a :: [])) :: (split_characters t2)
           | b :: l ->
             (match l with
              | [] -> (x :: (a :: [])) :: (split_characters t2)
              | c :: r ->
                if (&&) ((&&) (is_oct a) (is_oct b)) (is_oct c)
                then (x :: (a :: (b :: (c :: [])))) :: (split_characters r)
                else (x :: (a :: [])) :: (split_characters t2))))
  else (x :: []) :: (split_characters t1)

(** val char_array_items : n list list -> n list **)

let rec char_array_items = function
| [] -> []
| c :: r ->
  (match r with
   | [] ->
     app ((Npos (XI (XI (XI (XO (XO XH)))))) :: [])
       (app c ((Npos (XI (XI (XI (XO (XO XH)))))) :: []))
   | _ :: _ ->
     app ((Npos (XI (XI (XI (XO (XO XH)))))) :: [])
       (app c
         (app ((Npos (XI (XI (XI (XO (XO XH)))))) :: [])
           (app ((Npos (XO (XO (XI (XI (XO XH)))))) :: [])
             (char_array_items r)))))

(** val char_array_form : n list -> n list **)

let char_array_form bs =
  char_array_items (split_characters (escape_byte_string bs))

(** val trigraph_char : n -> n option **)

let trigraph_char c =
  if N.eqb c (Npos (XI (XO (XI (XI (XI XH))))))
  then Some (Npos (XI (XI (XO (XO (XO XH))))))
  else if N.eqb c (Npos (XO (XO (XO (XI (XO XH))))))
       then Some (Npos (XI (XI (XO (XI (XI (XO XH)))))))
       else if N.eqb c (Npos (XI (XI (XI (XI (XO XH))))))
            then Some (Npos (XO (XO (XI (XI (XI (XO XH)))))))
            else if N.eqb c (Npos (XI (XO (XO (XI (XO XH))))))
                 then Some (Npos (XI (XO (XI (XI (XI (XO XH)))))))
                 else if N.eqb c (Npos (XI (XI (XI (XO (XO XH))))))
                      then Some (Npos (XO (XI (XI (XI (XI (XO XH)))))))
                      else if N.eqb c (Npos (XO (XO (XI (XI (XI XH))))))
                           then Some (Npos (XI (XI (XO (XI (XI (XI XH)))))))
                           else if N.eqb c (Npos (XI (XO (XO (XO (XO XH))))))
                                then Some (Npos (XO (XO (XI (XI (XI (XI
                                       XH)))))))
                                else if N.eqb c (Npos (XO (XI (XI (XI (XI
                                          XH))))))
                                     then Some (Npos (XI (XO (XI (XI (XI (XI
                                            XH)))))))
                                     else if N.eqb c (Npos (XI (XO (XI (XI
                                               (XO XH))))))
                                          then Some (Npos (XO (XI (XI (XI (XI
                                                 (XI XH)))))))
                                          else None

(** val phase1 : n list -> n list **)

let rec phase1 = function
| [] -> []
| a :: r ->
  (match r with
   | [] -> a :: (phase1 r)
   | b :: l ->
     (match l with
      | [] -> a :: (phase1 r)
      | c :: r3 ->
        if (&&) (N.eqb a (Npos (XI (XI (XI (XI (XI XH)))))))
             (N.eqb b (Npos (XI (XI (XI (XI (XI XH)))))))
        then (match trigraph_char c with
              | Some x -> x :: (phase1 r3)
              | None -> a :: (phase1 r))
        else a :: (phase1 r)))

(** val phase2 : n list -> n list **)

let rec phase2 = function
| [] -> []
| a :: r ->
  (match r with
   | [] -> a :: []
   | b :: r2 ->
     if (&&) (N.eqb a (Npos (XO (XO (XI (XI (XI (XO XH))))))))
          (N.eqb b (Npos (XO (XI (XO XH)))))
     then phase2 r2
     else a :: (phase2 r))

type rmode =
| MStr
| MChar
| MArr

type rstate =
| RStart
| ROut
| RSep
| RIn
| REsc
| ROct of n * nat
| RHex of n * nat

(** val delim : rmode -> n **)

let delim = function
| MStr -> Npos (XO (XI (XO (XO (XO XH)))))
| _ -> Npos (XI (XI (XI (XO (XO XH)))))

(** val is_ws : n -> bool **)

let is_ws c =
  (||)
    ((||) (N.eqb c (Npos (XO (XO (XO (XO (XO XH)))))))
      (N.eqb c (Npos (XI (XO (XO XH)))))) (N.eqb c (Npos (XO (XI (XO XH)))))

(** val hexval : n -> n option **)

let hexval c =
  if (&&) (N.leb (Npos (XO (XO (XO (XO (XI XH)))))) c)
       (N.leb c (Npos (XI (XO (XO (XI (XI XH)))))))
  then Some (N.sub c (Npos (XO (XO (XO (XO (XI XH)))))))
  else if (&&) (N.leb (Npos (XI (XO (XO (XO (XO (XO XH))))))) c)
            (N.leb c (Npos (XO (XI (XI (XO (XO (XO XH))))))))
       then Some (N.sub c (Npos (XI (XI (XI (XO (XI XH)))))))
       else if (&&) (N.leb (Npos (XI (XO (XO (XO (XO (XI XH))))))) c)
                 (N.leb c (Npos (XO (XI (XI (XO (XO (XI XH))))))))
            then Some (N.sub c (Npos (XI (XI (XI (XO (XI (XO XH))))))))
            else None

(** val emit_byte : n -> n list option **)

let emit_byte v =
  if N.ltb v (Npos (XO (XO (XO (XO (XO (XO (XO (XO XH)))))))))
  then Some (v :: [])
  else None

(** val in_step : rmode -> n -> (rstate * n list) option **)

let in_step m c =
  if N.eqb c (delim m)
  then Some (ROut, [])
  else if N.eqb c (Npos (XO (XO (XI (XI (XI (XO XH)))))))
       then Some (REsc, [])
       else if N.eqb c (Npos (XO (XI (XO XH))))
            then None
            else Some (RIn, (c :: []))

(** val esc_step : n -> (rstate * n list) option **)

let esc_step c =
  if (||)
       ((||)
         ((||) (N.eqb c (Npos (XI (XI (XI (XO (XO XH)))))))
           (N.eqb c (Npos (XO (XI (XO (XO (XO XH))))))))
         (N.eqb c (Npos (XI (XI (XI (XI (XI XH))))))))
       (N.eqb c (Npos (XO (XO (XI (XI (XI (XO XH))))))))
  then Some (RIn, (c :: []))
  else if N.eqb c (Npos (XI (XO (XO (XO (XO (XI XH)))))))
       then Some (RIn, ((Npos (XI (XI XH))) :: []))
       else if N.eqb c (Npos (XO (XI (XO (XO (XO (XI XH)))))))
            then Some (RIn, ((Npos (XO (XO (XO XH)))) :: []))
            else if N.eqb c (Npos (XO (XI (XI (XO (XO (XI XH)))))))
                 then Some (RIn, ((Npos (XO (XO (XI XH)))) :: []))
                 else if N.eqb c (Npos (XO (XI (XI (XI (XO (XI XH)))))))
                      then Some (RIn, ((Npos (XO (XI (XO XH)))) :: []))
                      else if N.eqb c (Npos (XO (XI (XO (XO (XI (XI XH)))))))
                           then Some (RIn, ((Npos (XI (XO (XI XH)))) :: []))
                           else if N.eqb c (Npos (XO (XO (XI (XO (XI (XI
                                     XH)))))))
                                then Some (RIn, ((Npos (XI (XO (XO
                                       XH)))) :: []))
                                else if N.eqb c (Npos (XO (XI (XI (XO (XI (XI
                                          XH)))))))
                                     then Some (RIn, ((Npos (XI (XI (XO
                                            XH)))) :: []))
                                     else if is_oct c
                                          then Some ((ROct
                                                 ((N.sub c (Npos (XO (XO (XO
                                                    (XO (XI XH))))))), (S
                                                 O))), [])
                                          else if N.eqb c (Npos (XO (XO (XO
                                                    (XI (XI (XI XH)))))))
                                               then Some ((RHex (N0, O)), [])
                                               else None

(** val flush_then : rmode -> n -> n -> (rstate * n list) option **)

let flush_then m v c =
  match emit_byte v with
  | Some o ->
    (match in_step m c with
     | Some p -> let (s, o2) = p in Some (s, (app o o2))
     | None -> None)
  | None -> None

(** val step : rmode -> rstate -> n -> (rstate * n list) option **)

let step m s c =
  match s with
  | RStart -> if N.eqb c (delim m) then Some (RIn, []) else None
  | ROut ->
    (match m with
     | MStr ->
       if N.eqb c (Npos (XO (XI (XO (XO (XO XH))))))
       then Some (RIn, [])
       else if is_ws c then Some (ROut, []) else None
     | MChar -> None
     | MArr ->
       if N.eqb c (Npos (XO (XO (XI (XI (XO XH))))))
       then Some (RSep, [])
       else None)
  | RSep ->
    if N.eqb c (Npos (XI (XI (XI (XO (XO XH))))))
    then Some (RIn, [])
    else None
  | RIn -> in_step m c
  | REsc -> esc_step c
  | ROct (v, k) ->
    if is_oct c
    then (match k with
          | O ->
            (match emit_byte
                     (N.add (N.mul (Npos (XO (XO (XO XH)))) v)
                       (N.sub c (Npos (XO (XO (XO (XO (XI XH)))))))) with
             | Some o -> Some (RIn, o)
             | None -> None)
          | S n0 ->
            (match n0 with
             | O ->
               Some ((ROct
                 ((N.add (N.mul (Npos (XO (XO (XO XH)))) v)
                    (N.sub c (Npos (XO (XO (XO (XO (XI XH)))))))), (S (S
                 O)))), [])
             | S _ ->
               (match emit_byte
                        (N.add (N.mul (Npos (XO (XO (XO XH)))) v)
                          (N.sub c (Npos (XO (XO (XO (XO (XI XH)))))))) with
                | Some o -> Some (RIn, o)
                | None -> None)))
    else flush_then m v c
  | RHex (v, k) ->
    (match hexval c with
     | Some d ->
       Some ((RHex ((N.add (N.mul (Npos (XO (XO (XO (XO XH))))) v) d), (S
         k))), [])
     | None -> (match k with
                | O -> None
                | S _ -> flush_then m v c))

(** val rd : rmode -> rstate -> n list -> n list option **)

let rec rd m s = function
| [] -> (match s with
         | ROut -> Some []
         | _ -> None)
| c :: r ->
  (match step m s c with
   | Some p ->
     let (s', o) = p in
     (match rd m s' r with
      | Some x -> Some (app o x)
      | None -> None)
   | None -> None)

(** val c_read : n list -> n list option **)

let c_read t0 =
  rd MStr RStart (phase2 (phase1 t0))

(** val c_read_chars : n list -> n list option **)

let c_read_chars t0 =
  rd MArr RStart (phase2 (phase1 t0))

module PositiveMap =
 struct
  type key = positive

  type 'a tree =
  | Leaf
  | Node of 'a tree * 'a option * 'a tree

  type 'a t = 'a tree

  (** val empty : 'a1 t **)

  let empty =
    Leaf

  (** val find : key -> 'a1 t -> 'a1 option **)

  let rec find i = function
  | Leaf -> None
  | Node (l, o, r) ->
    (match i with
     | XI ii -> find ii r
     | XO ii -> find ii l
     | XH -> o)

  (** val add : key -> 'a1 -> 'a1 t -> 'a1 t **)

  let rec add i v = function
  | Leaf ->
    (match i with
     | XI ii -> Node (Leaf, None, (add ii v Leaf))
     | XO ii -> Node ((add ii v Leaf), None, Leaf)
     | XH -> Node (Leaf, (Some v), Leaf))
  | Node (l, o, r) ->
    (match i with
     | XI ii -> Node (l, o, (add ii v r))
     | XO ii -> Node ((add ii v l), o, r)
     | XH -> Node (l, (Some v), r))
 end

(** val wINDOW_SIZE : z **)

let wINDOW_SIZE =
  Zpos (XO (XO (XO (XO (XO (XO (XO (XI (XO (XO (XO (XO (XO (XO
    XH))))))))))))))

type entry = z * z list

type table = entry list PositiveMap.t

(** val key3 : z list -> positive option **)

let key3 = function
| [] -> None
| a :: l0 ->
  (match l0 with
   | [] -> None
   | b :: l1 ->
     (match l1 with
      | [] -> None
      | c :: _ ->
        Some
          (Z.to_pos
            (Z.add
              (Z.add
                (Z.add
                  (Z.mul a (Zpos (XO (XO (XO (XO (XO (XO (XO (XO (XO (XO (XO
                    (XO (XO (XO (XO (XO XH))))))))))))))))))
                  (Z.mul b (Zpos (XO (XO (XO (XO (XO (XO (XO (XO XH)))))))))))
                c) (Zpos XH)))))

(** val tbl_find : positive -> table -> entry list option **)

let tbl_find =
  PositiveMap.find

(** val tbl_add : z -> z list -> table -> table **)

let tbl_add pos rest t0 =
  match key3 rest with
  | Some k ->
    let old = match tbl_find k t0 with
              | Some l -> l
              | None -> [] in
    PositiveMap.add k ((pos, (skipn (S (S (S O))) rest)) :: old) t0
  | None -> t0

(** val extend : z list -> z list -> z -> z -> z option **)

let rec extend a b m mx =
  if Z.ltb m mx
  then (match a with
        | [] -> None
        | x :: a' ->
          (match b with
           | [] -> None
           | y :: b' ->
             if Z.eqb x y then extend a' b' (Z.add m (Zpos XH)) mx else Some m))
  else Some m

(** val scan1_step :
    z -> z -> z -> z list -> (z * z) option -> entry -> (z * z) option **)

let scan1_step pos ws maxm rest3 st e =
  match st with
  | Some p ->
    let (best_len, _) = p in
    let (pp, t3) = e in
    if (||) (Z.ltb pp ws) (Z.geb pp pos)
    then st
    else (match extend t3 rest3 (Zpos (XI XH)) (Z.min maxm (Z.sub pos pp)) with
          | Some ml ->
            if Z.gtb ml best_len
            then if Z.ltb (Z.sub (Z.sub pos pp) ml) wINDOW_SIZE
                 then Some (ml, (Z.sub pos pp))
                 else st
            else st
          | None -> None)
  | None -> None

(** val scan2_step :
    z -> z -> z -> z -> z list -> z option -> entry -> z option **)

let scan2_step n0 pos ws maxm rest4 st e =
  match st with
  | Some nbl ->
    let (pp, t3) = e in
    if Z.ltb pp ws
    then st
    else (match extend t3 rest4 (Zpos (XI XH))
                  (Z.min (Z.min maxm (Z.sub pos pp))
                    (Z.sub (Z.sub n0 pos) (Zpos XH))) with
          | Some ml ->
            if Z.gtb ml nbl
            then if Z.ltb (Z.sub (Z.sub pos pp) nbl) wINDOW_SIZE
                 then Some ml
                 else st
            else st
          | None -> None)
  | None -> None

(** val find_longest_match : z -> z -> z list -> table -> (z * z) option **)

let find_longest_match n0 pos rest t0 =
  match key3 rest with
  | Some k ->
    let maxm =
      Z.min (Zpos (XO (XI (XO (XO (XO (XO (XO (XO XH))))))))) (Z.sub n0 pos)
    in
    let ws = Z.max Z0 (Z.sub (Z.sub pos wINDOW_SIZE) maxm) in
    (match tbl_find k t0 with
     | Some es ->
       (match fold_left (scan1_step pos ws maxm (skipn (S (S (S O))) rest))
                (rev' es) (Some (Z0, Z0)) with
        | Some p ->
          let (best_len, best_off) = p in
          if (&&) ((&&) (Z.ltb Z0 best_len) (Z.ltb best_len maxm))
               (Z.ltb (Z.add (Z.add pos best_len) (Zpos XH)) n0)
          then (match match key3 (tl rest) with
                      | Some k2 -> tbl_find k2 t0
                      | None -> None with
                | Some es2 ->
                  let ws2 =
                    Z.max Z0
                      (Z.sub (Z.sub (Z.add pos (Zpos XH)) wINDOW_SIZE) maxm)
                  in
                  (match fold_left
                           (scan2_step n0 pos ws2 maxm
                             (skipn (S (S (S (S O)))) rest)) (rev' es2) (Some
                           Z0) with
                   | Some nbl ->
                     if Z.gtb nbl (Z.add best_len (Zpos XH))
                     then Some (Z0, Z0)
                     else Some (best_off, best_len)
                   | None -> None)
                | None -> Some (best_off, best_len))
          else Some (best_off, best_len)
        | None -> None)
     | None -> Some (Z0, Z0))
  | None -> Some (Z0, Z0)

(** val encode_match : z -> z -> z list option **)

let encode_match offset0 length0 =
  let offset = Z.sub offset0 length0 in
  if (||) (Z.ltb length0 (Zpos (XI XH))) (Z.ltb offset Z0)
  then None
  else if Z.leb offset (Zpos (XI (XI (XI (XI (XI (XI XH)))))))
       then Some (offset :: ((Z.sub length0 (Zpos (XI XH))) :: []))
       else let offset1 =
              Z.sub offset (Zpos (XO (XO (XO (XO (XO (XO (XO XH))))))))
            in
            let length_bits = Z.sub length0 (Zpos (XI XH)) in
            if (&&) (Z.ltb length_bits (Zpos (XO (XO (XO (XO (XO XH)))))))
                 (Z.ltb offset1 (Zpos (XO (XO (XO (XO (XO (XO (XO (XO (XO
                   XH)))))))))))
            then Some
                   ((Z.coq_lor
                      (Z.coq_land offset1 (Zpos (XI (XI (XI (XI (XI (XI
                        XH)))))))) (Zpos (XO (XO (XO (XO (XO (XO (XO
                      XH))))))))) :: ((Z.coq_lor
                                        (Z.shiftr
                                          (Z.coq_land offset1 (Zpos (XO (XO
                                            (XO (XO (XO (XO (XO (XI
                                            XH)))))))))) (Zpos (XO XH)))
                                        length_bits) :: []))
            else if (&&) (Z.gtb length0 (Zpos (XI XH)))
                      (Z.ltb offset1 (Zpos (XO (XO (XO (XO (XO (XO (XO (XO
                        (XO (XO (XO (XO (XO (XO XH))))))))))))))))
                 then Some
                        ((Z.coq_lor
                           (Z.coq_land offset1 (Zpos (XI (XI (XI (XI (XI (XI
                             XH)))))))) (Zpos (XO (XO (XO (XO (XO (XO (XO
                           XH))))))))) :: ((Z.coq_lor
                                             (Z.coq_land
                                               (Z.shiftr offset1 (Zpos (XI
                                                 (XI XH)))) (Zpos (XI (XI (XI
                                               (XI (XI (XI XH)))))))) (Zpos
                                             (XO (XO (XO (XO (XO (XO (XO
                                             XH))))))))) :: (length_bits :: [])))
                 else None

type token =
| TLit of z
| TRef of z * z * z list

(** val tok_loop :
    z -> table -> z list -> z -> z -> token list -> token list option **)

let rec tok_loop n0 t0 rest pos skip acc =
  match rest with
  | [] -> Some (rev' acc)
  | b :: rest' ->
    if Z.ltb Z0 skip
    then tok_loop n0 t0 rest' (Z.add pos (Zpos XH)) (Z.sub skip (Zpos XH)) acc
    else (match find_longest_match n0 pos rest t0 with
          | Some p ->
            let (off, len) = p in
            let t' = tbl_add pos rest t0 in
            (match encode_match off len with
             | Some bytes ->
               tok_loop n0 t' rest' (Z.add pos (Zpos XH))
                 (Z.sub len (Zpos XH)) ((TRef ((Z.sub off len), len,
                 bytes)) :: acc)
             | None ->
               tok_loop n0 t' rest' (Z.add pos (Zpos XH)) Z0 ((TLit b) :: acc))
          | None -> None)

(** val tokenize : z list -> token list option **)

let tokenize data =
  tok_loop (Z.of_nat (length data)) PositiveMap.empty data Z0 Z0 []

type pstate = { p_done : z list; p_cur : z list; p_flags : z }

(** val pack_init : pstate **)

let pack_init =
  { p_done = []; p_cur = []; p_flags = (Zpos (XO (XO (XO (XO (XO (XO (XO (XO
    (XO (XO (XO (XO (XO (XO (XO (XO (XI (XI (XI (XI (XI (XI (XI
    XH)))))))))))))))))))))))) }

(** val tok_flag : token -> z **)

let tok_flag = function
| TLit _ -> Zpos XH
| TRef (_, _, _) -> Z0

(** val tok_bytes : token -> z list **)

let tok_bytes = function
| TLit b -> b :: []
| TRef (_, _, bs) -> bs

(** val flags_upd : z -> z -> z **)

let flags_upd flag flags =
  Z.coq_lor (Z.shiftl flag (Zpos (XI (XI XH)))) (Z.shiftr flags (Zpos XH))

(** val pack_step : pstate -> token -> pstate **)

let pack_step st t0 =
  let cur = rev_append (tok_bytes t0) st.p_cur in
  let flags = flags_upd (tok_flag t0) st.p_flags in
  if Z.ltb flags (Zpos (XO (XO (XO (XO (XO (XO (XO (XO (XO (XO (XO (XO (XO
       (XO (XO (XO XH)))))))))))))))))
  then { p_done =
         (app cur
           ((Z.coq_land flags (Zpos (XI (XI (XI (XI (XI (XI (XI XH))))))))) :: st.p_done));
         p_cur = []; p_flags = (Zpos (XO (XO (XO (XO (XO (XO (XO (XO (XO (XO
         (XO (XO (XO (XO (XO (XO (XI (XI (XI (XI (XI (XI (XI
         XH)))))))))))))))))))))))) }
  else { p_done = st.p_done; p_cur = cur; p_flags = flags }

(** val pad_flags : z -> z **)

let pad_flags flags =
  Nat.iter (S (S (S (S (S (S (S (S O)))))))) (fun f ->
    if Z.geb f (Zpos (XO (XO (XO (XO (XO (XO (XO (XO (XO (XO (XO (XO (XO (XO
         (XO (XO XH)))))))))))))))))
    then Z.shiftr f (Zpos XH)
    else f) flags

(** val pack_finish : pstate -> z list **)

let pack_finish st =
  match st.p_cur with
  | [] -> rev' st.p_done
  | _ :: _ ->
    rev'
      (app st.p_cur
        ((Z.coq_land (pad_flags st.p_flags) (Zpos (XI (XI (XI (XI (XI (XI (XI
           XH))))))))) :: st.p_done))

(** val pack : token list -> z list **)

let pack toks =
  pack_finish (fold_left pack_step toks pack_init)

(** val compress : z list -> z list option **)

let compress data = match data with
| [] -> Some []
| _ :: _ ->
  (match tokenize data with
   | Some toks -> Some (pack toks)
   | None -> None)

type dres =
| DOk of z list * z
| OOB_src_read
| OOB_dst_write
| OOB_dst_ref

(** val dec_next :
    z -> (z -> z -> z list -> z -> dres) -> z -> z -> z list -> z -> dres **)

let dec_next dst_len k flags pos outr out_pos =
  if Z.geb out_pos dst_len
  then DOk ((rev' outr), pos)
  else k (Z.shiftr flags (Zpos XH)) pos outr out_pos

(** val dec_copy :
    z -> (z -> z -> z list -> z -> dres) -> z -> z -> z -> z -> z list -> z
    -> dres **)

let dec_copy dst_len k flags pos eo ml0 outr out_pos =
  let ml = Z.add ml0 (Zpos (XI XH)) in
  if Z.ltb out_pos (Z.add eo ml)
  then OOB_dst_ref
  else if Z.ltb dst_len (Z.add out_pos ml)
       then OOB_dst_write
       else dec_next dst_len k flags pos
              (app (firstn (Z.to_nat ml) (skipn (Z.to_nat eo) outr)) outr)
              (Z.add out_pos ml)

(** val dec : z -> z list -> z -> z -> z list -> z -> dres **)

let rec dec dst_len src flags pos outr out_pos =
  match src with
  | [] -> OOB_src_read
  | b0 :: s1 ->
    if Z.eqb
         (Z.coq_land flags (Zpos (XO (XO (XO (XO (XO (XO (XO (XO XH))))))))))
         Z0
    then dec dst_len s1
           (Z.coq_lor b0 (Zpos (XO (XO (XO (XO (XO (XO (XO (XO (XI (XI (XI
             (XI (XI (XI (XI XH))))))))))))))))) (Z.add pos (Zpos XH)) outr
           out_pos
    else if negb (Z.eqb (Z.coq_land flags (Zpos XH)) Z0)
         then if Z.ltb out_pos dst_len
              then dec_next dst_len (dec dst_len s1) flags
                     (Z.add pos (Zpos XH)) (b0 :: outr)
                     (Z.add out_pos (Zpos XH))
              else OOB_dst_write
         else (match s1 with
               | [] -> OOB_src_read
               | hi :: s2 ->
                 if Z.eqb
                      (Z.coq_land b0 (Zpos (XO (XO (XO (XO (XO (XO (XO
                        XH))))))))) Z0
                 then dec_copy dst_len (dec dst_len s2) flags
                        (Z.add pos (Zpos (XO XH))) b0 hi outr out_pos
                 else if Z.eqb
                           (Z.coq_land hi (Zpos (XO (XO (XO (XO (XO (XO (XO
                             XH))))))))) Z0
                      then dec_copy dst_len (dec dst_len s2) flags
                             (Z.add pos (Zpos (XO XH)))
                             (Z.add (Zpos (XO (XO (XO (XO (XO (XO (XO
                               XH))))))))
                               (Z.coq_lor
                                 (Z.coq_land (Z.shiftl hi (Zpos (XO XH)))
                                   (Zpos (XO (XO (XO (XO (XO (XO (XO (XI
                                   XH))))))))))
                                 (Z.coq_land b0 (Zpos (XI (XI (XI (XI (XI (XI
                                   XH))))))))))
                             (Z.coq_land hi (Zpos (XI (XI (XI (XI XH))))))
                             outr out_pos
                      else (match s2 with
                            | [] -> OOB_src_read
                            | l3 :: s3 ->
                              dec_copy dst_len (dec dst_len s3) flags
                                (Z.add pos (Zpos (XI XH)))
                                (Z.add (Zpos (XO (XO (XO (XO (XO (XO (XO
                                  XH))))))))
                                  (Z.coq_lor
                                    (Z.shiftl
                                      (Z.coq_land hi (Zpos (XI (XI (XI (XI
                                        (XI (XI XH)))))))) (Zpos (XI (XI
                                      XH))))
                                    (Z.coq_land b0 (Zpos (XI (XI (XI (XI (XI
                                      (XI XH)))))))))) l3 outr out_pos))

(** val decompress : z list -> z -> dres **)

let decompress src dst_len =
  dec dst_len src Z0 Z0 [] Z0

type sres0 =
| SOk of z list
| SRuntimeError
| SOob of dres

(** val decompress_string : z list -> z -> z -> sres0 **)

let decompress_string s clen ulen =
  match decompress s ulen with
  | DOk (out, consumed) ->
    if Z.eqb consumed clen then SOk out else SRuntimeError
  | x -> SOob x

(** val is_octd : n -> bool **)

let is_octd c =
  (&&) (N.leb (Npos (XO (XO (XO (XO (XI XH)))))) c)
    (N.leb c (Npos (XI (XI (XI (XO (XI XH)))))))

(** val is_hexd : n -> bool **)

let is_hexd c =
  (||)
    ((||)
      ((&&) (N.leb (Npos (XO (XO (XO (XO (XI XH)))))) c)
        (N.leb c (Npos (XI (XO (XO (XI (XI XH))))))))
      ((&&) (N.leb (Npos (XI (XO (XO (XO (XO (XO XH))))))) c)
        (N.leb c (Npos (XO (XI (XI (XO (XO (XO XH))))))))))
    ((&&) (N.leb (Npos (XI (XO (XO (XO (XO (XI XH))))))) c)
      (N.leb c (Npos (XO (XI (XI (XO (XO (XI XH)))))))))

(** val hexv : n -> n **)

let hexv c =
  if N.leb c (Npos (XI (XO (XO (XI (XI XH))))))
  then N.sub c (Npos (XO (XO (XO (XO (XI XH))))))
  else if N.leb c (Npos (XO (XI (XI (XO (XO (XO XH)))))))
       then N.sub c (Npos (XI (XI (XI (XO (XI XH))))))
       else N.sub c (Npos (XI (XI (XI (XO (XI (XO XH)))))))

(** val is_namech : n -> bool **)

let is_namech c =
  (||)
    ((||)
      ((||)
        ((&&) (N.leb (Npos (XI (XO (XO (XO (XO (XI XH))))))) c)
          (N.leb c (Npos (XO (XI (XO (XI (XI (XI XH)))))))))
        ((&&) (N.leb (Npos (XI (XO (XO (XO (XO (XO XH))))))) c)
          (N.leb c (Npos (XO (XI (XO (XI (XI (XO XH))))))))))
      (N.eqb c (Npos (XI (XO (XI (XI (XO XH))))))))
    (N.eqb c (Npos (XO (XO (XO (XO (XO XH)))))))

(** val is_esc2 : n -> bool **)

let is_esc2 c =
  existsb (N.eqb c) ((Npos (XO (XI (XO XH)))) :: ((Npos (XO (XO (XI (XI (XI
    (XO XH))))))) :: ((Npos (XI (XI (XI (XO (XO XH)))))) :: ((Npos (XO (XI
    (XO (XO (XO XH)))))) :: ((Npos (XI (XO (XO (XO (XO (XI
    XH))))))) :: ((Npos (XO (XI (XO (XO (XO (XI XH))))))) :: ((Npos (XO (XI
    (XI (XO (XO (XI XH))))))) :: ((Npos (XO (XI (XI (XI (XO (XI
    XH))))))) :: ((Npos (XO (XI (XO (XO (XI (XI XH))))))) :: ((Npos (XO (XO
    (XI (XO (XI (XI XH))))))) :: ((Npos (XO (XI (XI (XO (XI (XI
    XH))))))) :: ((Npos (XO (XI (XI (XI (XO (XO XH))))))) :: ((Npos (XO (XO
    (XO (XI (XI (XI XH))))))) :: ((Npos (XI (XO (XI (XO (XI (XI
    XH))))))) :: ((Npos (XI (XO (XI (XO (XI (XO XH))))))) :: [])))))))))))))))

(** val is_abfnrtv : n -> bool **)

let is_abfnrtv c =
  existsb (N.eqb c) ((Npos (XI (XO (XO (XO (XO (XI XH))))))) :: ((Npos (XO
    (XI (XO (XO (XO (XI XH))))))) :: ((Npos (XO (XI (XI (XO (XO (XI
    XH))))))) :: ((Npos (XO (XI (XI (XI (XO (XI XH))))))) :: ((Npos (XO (XI
    (XO (XO (XI (XI XH))))))) :: ((Npos (XO (XO (XI (XO (XI (XI
    XH))))))) :: ((Npos (XO (XI (XI (XO (XI (XI XH))))))) :: [])))))))

(** val ctrl_of : n -> n **)

let ctrl_of c =
  if N.eqb c (Npos (XI (XO (XO (XO (XO (XI XH)))))))
  then Npos (XI (XI XH))
  else if N.eqb c (Npos (XO (XI (XO (XO (XO (XI XH)))))))
       then Npos (XO (XO (XO XH)))
       else if N.eqb c (Npos (XO (XI (XI (XO (XO (XI XH)))))))
            then Npos (XO (XO (XI XH)))
            else if N.eqb c (Npos (XO (XI (XI (XI (XO (XI XH)))))))
                 then Npos (XO (XI (XO XH)))
                 else if N.eqb c (Npos (XO (XI (XO (XO (XI (XI XH)))))))
                      then Npos (XI (XO (XI XH)))
                      else if N.eqb c (Npos (XO (XO (XI (XO (XI (XI XH)))))))
                           then Npos (XI (XO (XO XH)))
                           else Npos (XI (XI (XO XH)))

(** val is_surrogate : n -> bool **)

let is_surrogate c =
  (&&)
    (N.leb (Npos (XO (XO (XO (XO (XO (XO (XO (XO (XO (XO (XO (XI (XI (XO (XI
      XH)))))))))))))))) c)
    (N.leb c (Npos (XI (XI (XI (XI (XI (XI (XI (XI (XI (XI (XI (XI (XI (XO
      (XI XH)))))))))))))))))

(** val is_scalar : n -> bool **)

let is_scalar c =
  (&&)
    (N.ltb c (Npos (XO (XO (XO (XO (XO (XO (XO (XO (XO (XO (XO (XO (XO (XO
      (XO (XO (XI (XO (XO (XO XH)))))))))))))))))))))) (negb (is_surrogate c))

(** val span_upto : (n -> bool) -> nat -> n list -> n list * n list **)

let rec span_upto p n0 l =
  match n0 with
  | O -> ([], l)
  | S n' ->
    (match l with
     | [] -> ([], l)
     | c :: r ->
       if p c then let (a, b) = span_upto p n' r in ((c :: a), b) else ([], l))

(** val span_all : (n -> bool) -> n list -> n list * n list **)

let rec span_all p l = match l with
| [] -> ([], [])
| c :: r ->
  if p c then let (a, b) = span_all p r in ((c :: a), b) else ([], l)

(** val take_exact :
    (n -> bool) -> nat -> n list -> (n list * n list) option **)

let take_exact p n0 l =
  let (a, b) = span_upto p n0 l in
  if Nat.eqb (length a) n0 then Some (a, b) else None

(** val lex_named : n list -> (n list * n list) option **)

let lex_named = function
| [] -> None
| c :: r1 ->
  if N.eqb c (Npos (XI (XI (XO (XI (XI (XI XH)))))))
  then let (nm, r2) = span_all is_namech r1 in
       (match r2 with
        | [] -> None
        | d :: r3 ->
          if N.eqb d (Npos (XI (XO (XI (XI (XI (XI XH)))))))
          then Some (((Npos (XI (XI (XO (XI (XI (XI
                 XH))))))) :: (app nm ((Npos (XI (XO (XI (XI (XI (XI
                                XH))))))) :: []))), r3)
          else None)
  else None

(** val lex_escape : n list -> n list * n list **)

let lex_escape l = match l with
| [] -> (((Npos (XO (XO (XI (XI (XI (XO XH))))))) :: []), [])
| c :: r ->
  if is_octd c
  then let (ds, r') = span_upto is_octd (S (S O)) r in
       (((Npos (XO (XO (XI (XI (XI (XO XH))))))) :: (c :: ds)), r')
  else if N.eqb c (Npos (XO (XI (XI (XI (XO (XO XH)))))))
       then (match lex_named r with
             | Some p ->
               let (t0, r') = p in
               (((Npos (XO (XO (XI (XI (XI (XO XH))))))) :: ((Npos (XO (XI
               (XI (XI (XO (XO XH))))))) :: t0)), r')
             | None ->
               (((Npos (XO (XO (XI (XI (XI (XO XH))))))) :: ((Npos (XO (XI
                 (XI (XI (XO (XO XH))))))) :: [])), r))
       else if N.eqb c (Npos (XI (XO (XI (XO (XI (XI XH)))))))
            then (match take_exact is_hexd (S (S (S (S O)))) r with
                  | Some p ->
                    let (h, r') = p in
                    (((Npos (XO (XO (XI (XI (XI (XO XH))))))) :: ((Npos (XI
                    (XO (XI (XO (XI (XI XH))))))) :: h)), r')
                  | None ->
                    (((Npos (XO (XO (XI (XI (XI (XO XH))))))) :: ((Npos (XI
                      (XO (XI (XO (XI (XI XH))))))) :: [])), r))
            else if N.eqb c (Npos (XO (XO (XO (XI (XI (XI XH)))))))
                 then (match take_exact is_hexd (S (S O)) r with
                       | Some p ->
                         let (h, r') = p in
                         (((Npos (XO (XO (XI (XI (XI (XO XH))))))) :: ((Npos
                         (XO (XO (XO (XI (XI (XI XH))))))) :: h)), r')
                       | None ->
                         (((Npos (XO (XO (XI (XI (XI (XO XH))))))) :: ((Npos
                           (XO (XO (XO (XI (XI (XI XH))))))) :: [])), r))
                 else if N.eqb c (Npos (XI (XO (XI (XO (XI (XO XH)))))))
                      then (match take_exact is_hexd (S (S (S (S (S (S (S (S
                                    O)))))))) r with
                            | Some p ->
                              let (h, r') = p in
                              (((Npos (XO (XO (XI (XI (XI (XO
                              XH))))))) :: ((Npos (XI (XO (XI (XO (XI (XO
                              XH))))))) :: h)), r')
                            | None ->
                              (((Npos (XO (XO (XI (XI (XI (XO
                                XH))))))) :: ((Npos (XI (XO (XI (XO (XI (XO
                                XH))))))) :: [])), r))
                      else if is_esc2 c
                           then (((Npos (XO (XO (XI (XI (XI (XO
                                  XH))))))) :: (c :: [])), r)
                           else (((Npos (XO (XO (XI (XI (XI (XO
                                  XH))))))) :: []), l)

type kind =
| KStr
| KUni
| KBytes
| KChar

(** val kind_is_text : kind -> bool **)

let kind_is_text = function
| KStr -> true
| KUni -> true
| _ -> false

type action =
| AChars of n list
| ACharval of n
| AUescape of n * n list
| ANothing
| AError
| AFatal
| AUnmodelled

(** val of_base : n -> n list -> n **)

let of_base b ds =
  fold_left (fun a d -> N.add (N.mul a b) (hexv d)) ds N0

(** val append_escape_sequence : kind -> n list -> action **)

let append_escape_sequence k esc = match esc with
| [] -> AChars ((Npos (XO (XO (XI (XI (XI (XO XH))))))) :: [])
| _ :: l ->
  (match l with
   | [] -> AChars ((Npos (XO (XO (XI (XI (XI (XO XH))))))) :: [])
   | c :: rest ->
     if is_octd c
     then ACharval (of_base (Npos (XO (XO (XO XH)))) (c :: rest))
     else if (||)
               ((||) (N.eqb c (Npos (XI (XI (XI (XO (XO XH)))))))
                 (N.eqb c (Npos (XO (XI (XO (XO (XO XH))))))))
               (N.eqb c (Npos (XO (XO (XI (XI (XI (XO XH))))))))
          then AChars (c :: [])
          else if is_abfnrtv c
               then AChars ((ctrl_of c) :: [])
               else if N.eqb c (Npos (XO (XI (XO XH))))
                    then ANothing
                    else if N.eqb c (Npos (XO (XO (XO (XI (XI (XI XH)))))))
                         then if Nat.eqb (length esc) (S (S (S (S O))))
                              then ACharval
                                     (of_base (Npos (XO (XO (XO (XO XH)))))
                                       rest)
                              else AError
                         else if (&&)
                                   ((||)
                                     ((||)
                                       (N.eqb c (Npos (XO (XI (XI (XI (XO (XO
                                         XH))))))))
                                       (N.eqb c (Npos (XI (XO (XI (XO (XI (XO
                                         XH)))))))))
                                     (N.eqb c (Npos (XI (XO (XI (XO (XI (XI
                                       XH))))))))) (kind_is_text k)
                              then if N.eqb c (Npos (XO (XI (XI (XI (XO (XO
                                        XH)))))))
                                   then if Nat.leb (length esc) (S (S O))
                                        then AError
                                        else AUnmodelled
                                   else if (||)
                                             (Nat.eqb (length esc) (S (S (S
                                               (S (S (S O)))))))
                                             (Nat.eqb (length esc) (S (S (S
                                               (S (S (S (S (S (S (S
                                               O)))))))))))
                                        then let v =
                                               of_base (Npos (XO (XO (XO (XO
                                                 XH))))) rest
                                             in
                                             if N.ltb (Npos (XI (XI (XI (XI
                                                  (XI (XI (XI (XI (XI (XI (XI
                                                  (XI (XI (XI (XI (XI (XO (XO
                                                  (XO (XO
                                                  XH))))))))))))))))))))) v
                                             then AFatal
                                             else AUescape (v, esc)
                                        else AError
                              else AChars esc)

(** val enc_char : n -> n list **)

let enc_char c =
  if N.ltb c (Npos (XO (XO (XO (XO (XO (XO (XO XH))))))))
  then c :: []
  else if N.ltb c (Npos (XO (XO (XO (XO (XO (XO (XO (XO (XO (XO (XO
            XH))))))))))))
       then (N.add (Npos (XO (XO (XO (XO (XO (XO (XI XH))))))))
              (N.div c (Npos (XO (XO (XO (XO (XO (XO XH))))))))) :: (
              (N.add (Npos (XO (XO (XO (XO (XO (XO (XO XH))))))))
                (N.modulo c (Npos (XO (XO (XO (XO (XO (XO XH))))))))) :: [])
       else if N.ltb c (Npos (XO (XO (XO (XO (XO (XO (XO (XO (XO (XO (XO (XO
                 (XO (XO (XO (XO XH)))))))))))))))))
            then (N.add (Npos (XO (XO (XO (XO (XO (XI (XI XH))))))))
                   (N.div c (Npos (XO (XO (XO (XO (XO (XO (XO (XO (XO (XO (XO
                     (XO XH))))))))))))))) :: ((N.add (Npos (XO (XO (XO (XO
                                                 (XO (XO (XO XH))))))))
                                                 (N.modulo
                                                   (N.div c (Npos (XO (XO (XO
                                                     (XO (XO (XO XH))))))))
                                                   (Npos (XO (XO (XO (XO (XO
                                                   (XO XH))))))))) :: (
                   (N.add (Npos (XO (XO (XO (XO (XO (XO (XO XH))))))))
                     (N.modulo c (Npos (XO (XO (XO (XO (XO (XO XH))))))))) :: []))
            else (N.add (Npos (XO (XO (XO (XO (XI (XI (XI XH))))))))
                   (N.div c (Npos (XO (XO (XO (XO (XO (XO (XO (XO (XO (XO (XO
                     (XO (XO (XO (XO (XO (XO (XO XH))))))))))))))))))))) :: (
                   (N.add (Npos (XO (XO (XO (XO (XO (XO (XO XH))))))))
                     (N.modulo
                       (N.div c (Npos (XO (XO (XO (XO (XO (XO (XO (XO (XO (XO
                         (XO (XO XH)))))))))))))) (Npos (XO (XO (XO (XO (XO
                       (XO XH))))))))) :: ((N.add (Npos (XO (XO (XO (XO (XO
                                             (XO (XO XH))))))))
                                             (N.modulo
                                               (N.div c (Npos (XO (XO (XO (XO
                                                 (XO (XO XH)))))))) (Npos (XO
                                               (XO (XO (XO (XO (XO XH))))))))) :: (
                   (N.add (Npos (XO (XO (XO (XO (XO (XO (XO XH))))))))
                     (N.modulo c (Npos (XO (XO (XO (XO (XO (XO XH))))))))) :: [])))

type bstate = { st_err : bool; st_nonascii : bool; st_b : n list;
                st_u : n list }

(** val st0 : bstate **)

let st0 =
  { st_err = false; st_nonascii = false; st_b = []; st_u = [] }

type dres0 =
| DOk0 of n list option * n list option
| DError
| DInternal
| DUnmodelled
| DOutOfFuel

(** val b_append : n list -> n list -> n list **)

let b_append cs b =
  rev_append (flat_map enc_char cs) b

type sres1 =
| SNext of bstate
| SStop of dres0

(** val do_action : bool -> kind -> action -> bstate -> sres1 **)

let do_action fx_oct k a s =
  match a with
  | AChars cs ->
    SNext { st_err = s.st_err; st_nonascii = s.st_nonascii; st_b =
      (b_append cs s.st_b); st_u = (rev_append cs s.st_u) }
  | ACharval n0 ->
    (match k with
     | KUni ->
       SNext { st_err = s.st_err; st_nonascii = s.st_nonascii; st_b = s.st_b;
         st_u = (n0 :: s.st_u) }
     | _ ->
       if (||) (N.ltb n0 (Npos (XO (XO (XO (XO (XO (XO (XO (XO XH))))))))))
            fx_oct
       then SNext { st_err = s.st_err; st_nonascii = s.st_nonascii; st_b =
              ((N.modulo n0 (Npos (XO (XO (XO (XO (XO (XO (XO (XO XH)))))))))) :: s.st_b);
              st_u = (n0 :: s.st_u) }
       else SStop DInternal)
  | AUescape (n0, txt) ->
    SNext { st_err = s.st_err; st_nonascii = s.st_nonascii; st_b =
      (b_append txt s.st_b); st_u = (n0 :: s.st_u) }
  | ANothing -> SNext s
  | AError ->
    SNext { st_err = true; st_nonascii = s.st_nonascii; st_b = s.st_b; st_u =
      s.st_u }
  | AFatal -> SStop DError
  | AUnmodelled -> SStop DUnmodelled

(** val finish : kind -> bstate -> dres0 **)

let finish k s =
  match k with
  | KStr ->
    if s.st_err
    then DError
    else DOk0 ((if s.st_nonascii then None else Some (rev' s.st_b)), (Some
           (rev' s.st_u)))
  | KUni -> if s.st_err then DError else DOk0 (None, (Some (rev' s.st_u)))
  | KBytes ->
    if (||) s.st_nonascii s.st_err
    then DError
    else DOk0 ((Some (rev' s.st_b)), None)
  | KChar ->
    if (||) s.st_err (negb (Nat.eqb (length s.st_b) (S O)))
    then DError
    else DOk0 ((Some (rev' s.st_b)), None)

(** val dec0 : nat -> bool -> kind -> bool -> n list -> bstate -> dres0 **)

let rec dec0 fuel fx_oct k raw body s =
  match fuel with
  | O -> DOutOfFuel
  | S f ->
    (match body with
     | [] -> finish k s
     | c :: r ->
       if N.eqb c (Npos (XO (XO (XI (XI (XI (XO XH)))))))
       then let (esc, r') = lex_escape r in
            let a = if raw then AChars esc else append_escape_sequence k esc
            in
            (match do_action fx_oct k a s with
             | SNext s' -> dec0 f fx_oct k raw r' s'
             | SStop d -> d)
       else dec0 f fx_oct k raw r { st_err = s.st_err; st_nonascii =
              ((||) s.st_nonascii
                (N.leb (Npos (XO (XO (XO (XO (XO (XO (XO XH)))))))) c));
              st_b = (b_append (c :: []) s.st_b); st_u = (c :: s.st_u) })

(** val decode : bool -> kind -> bool -> n list -> dres0 **)

let decode fx_oct k raw body =
  dec0 (S (length body)) fx_oct k raw body st0

type pyres =
| PyValue of n list
| PyReject
| PyNotBody
| PyNamed

(** val pcons : n -> pyres -> pyres **)

let pcons c r = match r with
| PyValue v -> PyValue (c :: v)
| _ -> r

(** val simple_escape : n -> n option **)

let simple_escape e =
  if N.eqb e (Npos (XO (XO (XI (XI (XI (XO XH)))))))
  then Some (Npos (XO (XO (XI (XI (XI (XO XH)))))))
  else if N.eqb e (Npos (XI (XI (XI (XO (XO XH))))))
       then Some (Npos (XI (XI (XI (XO (XO XH))))))
       else if N.eqb e (Npos (XO (XI (XO (XO (XO XH))))))
            then Some (Npos (XO (XI (XO (XO (XO XH))))))
            else if N.eqb e (Npos (XI (XO (XO (XO (XO (XI XH)))))))
                 then Some (Npos (XI (XI XH)))
                 else if N.eqb e (Npos (XO (XI (XO (XO (XO (XI XH)))))))
                      then Some (Npos (XO (XO (XO XH))))
                      else if N.eqb e (Npos (XO (XI (XI (XO (XO (XI XH)))))))
                           then Some (Npos (XO (XO (XI XH))))
                           else if N.eqb e (Npos (XO (XI (XI (XI (XO (XI
                                     XH)))))))
                                then Some (Npos (XO (XI (XO XH))))
                                else if N.eqb e (Npos (XO (XI (XO (XO (XI (XI
                                          XH)))))))
                                     then Some (Npos (XI (XO (XI XH))))
                                     else if N.eqb e (Npos (XO (XO (XI (XO
                                               (XI (XI XH)))))))
                                          then Some (Npos (XI (XO (XO XH))))
                                          else if N.eqb e (Npos (XO (XI (XI
                                                    (XO (XI (XI XH)))))))
                                               then Some (Npos (XI (XI (XO
                                                      XH))))
                                               else None

(** val hex2 : n -> n -> n **)

let hex2 a b =
  N.add (N.mul (Npos (XO (XO (XO (XO XH))))) (hexv a)) (hexv b)

(** val hex4 : n -> n -> n -> n -> n **)

let hex4 a b c d =
  N.add (N.mul (Npos (XO (XO (XO (XO (XO (XO (XO (XO XH))))))))) (hex2 a b))
    (hex2 c d)

(** val has_rbrace : n list -> bool **)

let rec has_rbrace = function
| [] -> false
| c :: r ->
  (||) (N.eqb c (Npos (XI (XO (XI (XI (XI (XI XH)))))))) (has_rbrace r)

(** val py_lit : bool -> n list -> pyres **)

let rec py_lit t0 = function
| [] -> PyValue []
| c :: r ->
  if (&&) (negb t0) (N.leb (Npos (XO (XO (XO (XO (XO (XO (XO XH)))))))) c)
  then PyReject
  else if negb (N.eqb c (Npos (XO (XO (XI (XI (XI (XO XH))))))))
       then pcons c (py_lit t0 r)
       else (match r with
             | [] -> PyNotBody
             | e :: r1 ->
               if N.eqb e (Npos (XO (XI (XO XH))))
               then py_lit t0 r1
               else (match simple_escape e with
                     | Some v -> pcons v (py_lit t0 r1)
                     | None ->
                       if is_octd e
                       then (match r1 with
                             | [] ->
                               pcons
                                 (N.sub e (Npos (XO (XO (XO (XO (XI XH)))))))
                                 (py_lit t0 r1)
                             | d2 :: r2 ->
                               if is_octd d2
                               then (match r2 with
                                     | [] ->
                                       pcons
                                         (N.add
                                           (N.mul (Npos (XO (XO (XO XH))))
                                             (N.sub e (Npos (XO (XO (XO (XO
                                               (XI XH))))))))
                                           (N.sub d2 (Npos (XO (XO (XO (XO
                                             (XI XH)))))))) (py_lit t0 r2)
                                     | d3 :: r3 ->
                                       if is_octd d3
                                       then let v =
                                              N.add
                                                (N.add
                                                  (N.mul (Npos (XO (XO (XO
                                                    (XO (XO (XO XH)))))))
                                                    (N.sub e (Npos (XO (XO
                                                      (XO (XO (XI XH))))))))
                                                  (N.mul (Npos (XO (XO (XO
                                                    XH))))
                                                    (N.sub d2 (Npos (XO (XO
                                                      (XO (XO (XI XH)))))))))
                                                (N.sub d3 (Npos (XO (XO (XO
                                                  (XO (XI XH)))))))
                                            in
                                            pcons
                                              (if t0
                                               then v
                                               else N.modulo v (Npos (XO (XO
                                                      (XO (XO (XO (XO (XO (XO
                                                      XH))))))))))
                                              (py_lit t0 r3)
                                       else pcons
                                              (N.add
                                                (N.mul (Npos (XO (XO (XO
                                                  XH))))
                                                  (N.sub e (Npos (XO (XO (XO
                                                    (XO (XI XH))))))))
                                                (N.sub d2 (Npos (XO (XO (XO
                                                  (XO (XI XH))))))))
                                              (py_lit t0 r2))
                               else pcons
                                      (N.sub e (Npos (XO (XO (XO (XO (XI
                                        XH))))))) (py_lit t0 r1))
                       else if N.eqb e (Npos (XO (XO (XO (XI (XI (XI XH)))))))
                            then (match r1 with
                                  | [] -> PyReject
                                  | h1 :: l0 ->
                                    (match l0 with
                                     | [] -> PyReject
                                     | h2 :: r2 ->
                                       if (&&) (is_hexd h1) (is_hexd h2)
                                       then pcons (hex2 h1 h2) (py_lit t0 r2)
                                       else PyReject))
                            else if (&&) t0
                                      (N.eqb e (Npos (XI (XO (XI (XO (XI (XI
                                        XH))))))))
                                 then (match r1 with
                                       | [] -> PyReject
                                       | h1 :: l0 ->
                                         (match l0 with
                                          | [] -> PyReject
                                          | h2 :: l1 ->
                                            (match l1 with
                                             | [] -> PyReject
                                             | h3 :: l2 ->
                                               (match l2 with
                                                | [] -> PyReject
                                                | h4 :: r2 ->
                                                  if (&&)
                                                       ((&&)
                                                         ((&&) (is_hexd h1)
                                                           (is_hexd h2))
                                                         (is_hexd h3))
                                                       (is_hexd h4)
                                                  then pcons
                                                         (hex4 h1 h2 h3 h4)
                                                         (py_lit t0 r2)
                                                  else PyReject))))
                                 else if (&&) t0
                                           (N.eqb e (Npos (XI (XO (XI (XO (XI
                                             (XO XH))))))))
                                      then (match r1 with
                                            | [] -> PyReject
                                            | h1 :: l0 ->
                                              (match l0 with
                                               | [] -> PyReject
                                               | h2 :: l1 ->
                                                 (match l1 with
                                                  | [] -> PyReject
                                                  | h3 :: l2 ->
                                                    (match l2 with
                                                     | [] -> PyReject
                                                     | h4 :: l3 ->
                                                       (match l3 with
                                                        | [] -> PyReject
                                                        | h5 :: l4 ->
                                                          (match l4 with
                                                           | [] -> PyReject
                                                           | h6 :: l5 ->
                                                             (match l5 with
                                                              | [] -> PyReject
                                                              | h7 :: l6 ->
                                                                (match l6 with
                                                                 | [] ->
                                                                   PyReject
                                                                 | h8 :: r2 ->
                                                                   if 
                                                                    (&&)
                                                                    ((&&)
                                                                    ((&&)
                                                                    ((&&)
                                                                    ((&&)
                                                                    ((&&)
                                                                    ((&&)
                                                                    (is_hexd
                                                                    h1)
                                                                    (is_hexd
                                                                    h2))
                                                                    (is_hexd
                                                                    h3))
                                                                    (is_hexd
                                                                    h4))
                                                                    (is_hexd
                                                                    h5))
                                                                    (is_hexd
                                                                    h6))
                                                                    (is_hexd
                                                                    h7))
                                                                    (is_hexd
                                                                    h8)
                                                                   then 
                                                                    let v =
                                                                    N.add
                                                                    (N.mul
                                                                    (Npos (XO
                                                                    (XO (XO
                                                                    (XO (XO
                                                                    (XO (XO
                                                                    (XO (XO
                                                                    (XO (XO
                                                                    (XO (XO
                                                                    (XO (XO
                                                                    (XO
                                                                    XH)))))))))))))))))
                                                                    (hex4 h1
                                                                    h2 h3 h4))
                                                                    (hex4 h5
                                                                    h6 h7 h8)
                                                                    in
                                                                    if 
                                                                    N.ltb v
                                                                    (Npos (XO
                                                                    (XO (XO
                                                                    (XO (XO
                                                                    (XO (XO
                                                                    (XO (XO
                                                                    (XO (XO
                                                                    (XO (XO
                                                                    (XO (XO
                                                                    (XO (XI
                                                                    (XO (XO
                                                                    (XO
                                                                    XH)))))))))))))))))))))
                                                                    then 
                                                                    pcons v
                                                                    (py_lit
                                                                    t0 r2)
                                                                    else 
                                                                    PyReject
                                                                   else 
                                                                    PyReject))))))))
                                      else if (&&) t0
                                                (N.eqb e (Npos (XO (XI (XI
                                                  (XI (XO (XO XH))))))))
                                           then (match r1 with
                                                 | [] -> PyReject
                                                 | b :: r2 ->
                                                   if (&&)
                                                        (N.eqb b (Npos (XI
                                                          (XI (XO (XI (XI (XI
                                                          XH))))))))
                                                        (has_rbrace r2)
                                                   then PyNamed
                                                   else PyReject)
                                           else pcons (Npos (XO (XO (XI (XI
                                                  (XI (XO XH)))))))
                                                  (py_lit t0 r)))

(** val py_text : n list -> pyres **)

let py_text =
  py_lit true

(** val py_bytes : n list -> pyres **)

let py_bytes =
  py_lit false

(** val py_raw : bool -> n list -> pyres **)

let rec py_raw ascii_only = function
| [] -> PyValue []
| c :: r ->
  if (&&) ascii_only (N.leb (Npos (XO (XO (XO (XO (XO (XO (XO XH)))))))) c)
  then PyReject
  else if negb (N.eqb c (Npos (XO (XO (XI (XI (XI (XO XH))))))))
       then pcons c (py_raw ascii_only r)
       else (match r with
             | [] -> PyNotBody
             | e :: r1 ->
               if (&&) ascii_only
                    (N.leb (Npos (XO (XO (XO (XO (XO (XO (XO XH)))))))) e)
               then PyReject
               else pcons (Npos (XO (XO (XI (XI (XI (XO XH)))))))
                      (pcons e (py_raw ascii_only r1)))

(** val one_char : pyres -> pyres **)

let one_char r = match r with
| PyValue v -> if Nat.eqb (length v) (S O) then PyValue v else PyReject
| _ -> r

(** val py_value : kind -> bool -> n list -> pyres **)

let py_value k raw body =
  match k with
  | KBytes -> if raw then py_raw true body else py_bytes body
  | KChar -> one_char (if raw then py_raw true body else py_bytes body)
  | _ -> if raw then py_raw false body else py_text body

(** val visible : kind -> dres0 -> n list option **)

let visible k = function
| DOk0 (b, u) -> if kind_is_text k then u else b
| _ -> None

(** val big_octal : n list -> bool **)

let rec big_octal = function
| [] -> false
| c :: r ->
  if N.eqb c (Npos (XO (XO (XI (XI (XI (XO XH)))))))
  then (match r with
        | [] -> false
        | e :: r1 ->
          (||)
            ((&&)
              ((&&) (is_octd e) (N.leb (Npos (XO (XO (XI (XO (XI XH)))))) e))
              (match r1 with
               | [] -> false
               | d2 :: l0 ->
                 (match l0 with
                  | [] -> false
                  | d3 :: _ -> (&&) (is_octd d2) (is_octd d3))))
            (big_octal r1))
  else big_octal r

(** val encode_utf8 : n list -> n list option **)

let encode_utf8 cs =
  if forallb is_scalar cs then Some (flat_map enc_char cs) else None

(** val is_cont : n -> bool **)

let is_cont b =
  (&&) (N.leb (Npos (XO (XO (XO (XO (XO (XO (XO XH)))))))) b)
    (N.leb b (Npos (XI (XI (XI (XI (XI (XI (XO XH)))))))))

(** val ocons : n -> n list option -> n list option **)

let ocons c = function
| Some v -> Some (c :: v)
| None -> None

(** val decode_utf8 : n list -> n list option **)

let rec decode_utf8 = function
| [] -> Some []
| b0 :: r ->
  if N.ltb b0 (Npos (XO (XO (XO (XO (XO (XO (XO XH))))))))
  then ocons b0 (decode_utf8 r)
  else if N.ltb b0 (Npos (XO (XI (XO (XO (XO (XO (XI XH))))))))
       then None
       else if N.ltb b0 (Npos (XO (XO (XO (XO (XO (XI (XI XH))))))))
            then (match r with
                  | [] -> None
                  | b1 :: r1 ->
                    if is_cont b1
                    then ocons
                           (N.add
                             (N.mul
                               (N.sub b0 (Npos (XO (XO (XO (XO (XO (XO (XI
                                 XH))))))))) (Npos (XO (XO (XO (XO (XO (XO
                               XH))))))))
                             (N.sub b1 (Npos (XO (XO (XO (XO (XO (XO (XO
                               XH)))))))))) (decode_utf8 r1)
                    else None)
            else if N.ltb b0 (Npos (XO (XO (XO (XO (XI (XI (XI XH))))))))
                 then (match r with
                       | [] -> None
                       | b1 :: l ->
                         (match l with
                          | [] -> None
                          | b2 :: r2 ->
                            if (&&)
                                 ((&&)
                                   (N.leb
                                     (if N.eqb b0 (Npos (XO (XO (XO (XO (XO
                                           (XI (XI XH))))))))
                                      then Npos (XO (XO (XO (XO (XO (XI (XO
                                             XH)))))))
                                      else Npos (XO (XO (XO (XO (XO (XO (XO
                                             XH)))))))) b1)
                                   (N.leb b1
                                     (if N.eqb b0 (Npos (XI (XO (XI (XI (XO
                                           (XI (XI XH))))))))
                                      then Npos (XI (XI (XI (XI (XI (XO (XO
                                             XH)))))))
                                      else Npos (XI (XI (XI (XI (XI (XI (XO
                                             XH)))))))))) (is_cont b2)
                            then ocons
                                   (N.add
                                     (N.add
                                       (N.mul
                                         (N.sub b0 (Npos (XO (XO (XO (XO (XO
                                           (XI (XI XH))))))))) (Npos (XO (XO
                                         (XO (XO (XO (XO (XO (XO (XO (XO (XO
                                         (XO XH))))))))))))))
                                       (N.mul
                                         (N.sub b1 (Npos (XO (XO (XO (XO (XO
                                           (XO (XO XH))))))))) (Npos (XO (XO
                                         (XO (XO (XO (XO XH)))))))))
                                     (N.sub b2 (Npos (XO (XO (XO (XO (XO (XO
                                       (XO XH)))))))))) (decode_utf8 r2)
                            else None))
                 else if N.ltb b0 (Npos (XI (XO (XI (XO (XI (XI (XI XH))))))))
                      then (match r with
                            | [] -> None
                            | b1 :: l ->
                              (match l with
                               | [] -> None
                               | b2 :: l0 ->
                                 (match l0 with
                                  | [] -> None
                                  | b3 :: r3 ->
                                    if (&&)
                                         ((&&)
                                           ((&&)
                                             (N.leb
                                               (if N.eqb b0 (Npos (XO (XO (XO
                                                     (XO (XI (XI (XI
                                                     XH))))))))
                                                then Npos (XO (XO (XO (XO (XI
                                                       (XO (XO XH)))))))
                                                else Npos (XO (XO (XO (XO (XO
                                                       (XO (XO XH)))))))) b1)
                                             (N.leb b1
                                               (if N.eqb b0 (Npos (XO (XO (XI
                                                     (XO (XI (XI (XI
                                                     XH))))))))
                                                then Npos (XI (XI (XI (XI (XO
                                                       (XO (XO XH)))))))
                                                else Npos (XI (XI (XI (XI (XI
                                                       (XI (XO XH))))))))))
                                           (is_cont b2)) (is_cont b3)
                                    then ocons
                                           (N.add
                                             (N.add
                                               (N.add
                                                 (N.mul
                                                   (N.sub b0 (Npos (XO (XO
                                                     (XO (XO (XI (XI (XI
                                                     XH))))))))) (Npos (XO
                                                   (XO (XO (XO (XO (XO (XO
                                                   (XO (XO (XO (XO (XO (XO
                                                   (XO (XO (XO (XO (XO
                                                   XH))))))))))))))))))))
                                                 (N.mul
                                                   (N.sub b1 (Npos (XO (XO
                                                     (XO (XO (XO (XO (XO
                                                     XH))))))))) (Npos (XO
                                                   (XO (XO (XO (XO (XO (XO
                                                   (XO (XO (XO (XO (XO
                                                   XH)))))))))))))))
                                               (N.mul
                                                 (N.sub b2 (Npos (XO (XO (XO
                                                   (XO (XO (XO (XO XH)))))))))
                                                 (Npos (XO (XO (XO (XO (XO
                                                 (XO XH)))))))))
                                             (N.sub b3 (Npos (XO (XO (XO (XO
                                               (XO (XO (XO XH))))))))))
                                           (decode_utf8 r3)
                                    else None)))
                      else None

(** val hexdig : n -> n **)

let hexdig d =
  if N.ltb d (Npos (XO (XI (XO XH))))
  then N.add (Npos (XO (XO (XO (XO (XI XH)))))) d
  else N.add (Npos (XI (XI (XI (XO (XI (XO XH))))))) d

(** val uesc_char : n -> n list **)

let uesc_char c =
  if N.eqb c (Npos (XO (XO (XI (XI (XI (XO XH)))))))
  then (Npos (XO (XO (XI (XI (XI (XO XH))))))) :: ((Npos (XO (XO (XI (XI (XI
         (XO XH))))))) :: [])
  else if N.eqb c (Npos (XI (XO (XO XH))))
       then (Npos (XO (XO (XI (XI (XI (XO XH))))))) :: ((Npos (XO (XO (XI (XO
              (XI (XI XH))))))) :: [])
       else if N.eqb c (Npos (XO (XI (XO XH))))
            then (Npos (XO (XO (XI (XI (XI (XO XH))))))) :: ((Npos (XO (XI
                   (XI (XI (XO (XI XH))))))) :: [])
            else if N.eqb c (Npos (XI (XO (XI XH))))
                 then (Npos (XO (XO (XI (XI (XI (XO XH))))))) :: ((Npos (XO
                        (XI (XO (XO (XI (XI XH))))))) :: [])
                 else if (&&) (N.leb (Npos (XO (XO (XO (XO (XO XH)))))) c)
                           (N.ltb c (Npos (XI (XI (XI (XI (XI (XI XH))))))))
                      then c :: []
                      else if N.ltb c (Npos (XO (XO (XO (XO (XO (XO (XO (XO
                                XH)))))))))
                           then (Npos (XO (XO (XI (XI (XI (XO
                                  XH))))))) :: ((Npos (XO (XO (XO (XI (XI (XI
                                  XH))))))) :: ((hexdig
                                                  (N.div c (Npos (XO (XO (XO
                                                    (XO XH))))))) :: (
                                  (hexdig
                                    (N.modulo c (Npos (XO (XO (XO (XO XH))))))) :: [])))
                           else if N.ltb c (Npos (XO (XO (XO (XO (XO (XO (XO
                                     (XO (XO (XO (XO (XO (XO (XO (XO (XO
                                     XH)))))))))))))))))
                                then (Npos (XO (XO (XI (XI (XI (XO
                                       XH))))))) :: ((Npos (XI (XO (XI (XO
                                       (XI (XI
                                       XH))))))) :: ((hexdig
                                                       (N.div c (Npos (XO (XO
                                                         (XO (XO (XO (XO (XO
                                                         (XO (XO (XO (XO (XO
                                                         XH))))))))))))))) :: (
                                       (hexdig
                                         (N.modulo
                                           (N.div c (Npos (XO (XO (XO (XO (XO
                                             (XO (XO (XO XH)))))))))) (Npos
                                           (XO (XO (XO (XO XH))))))) :: (
                                       (hexdig
                                         (N.modulo
                                           (N.div c (Npos (XO (XO (XO (XO
                                             XH)))))) (Npos (XO (XO (XO (XO
                                           XH))))))) :: ((hexdig
                                                           (N.modulo c (Npos
                                                             (XO (XO (XO (XO
                                                             XH))))))) :: [])))))
                                else (Npos (XO (XO (XI (XI (XI (XO
                                       XH))))))) :: ((Npos (XI (XO (XI (XO
                                       (XI (XO
                                       XH))))))) :: ((hexdig
                                                       (N.div c (Npos (XO (XO
                                                         (XO (XO (XO (XO (XO
                                                         (XO (XO (XO (XO (XO
                                                         (XO (XO (XO (XO (XO
                                                         (XO (XO (XO (XO (XO
                                                         (XO (XO (XO (XO (XO
                                                         (XO
                                                         XH))))))))))))))))))))))))))))))) :: (
                                       (hexdig
                                         (N.modulo
                                           (N.div c (Npos (XO (XO (XO (XO (XO
                                             (XO (XO (XO (XO (XO (XO (XO (XO
                                             (XO (XO (XO (XO (XO (XO (XO (XO
                                             (XO (XO (XO
                                             XH))))))))))))))))))))))))))
                                           (Npos (XO (XO (XO (XO XH))))))) :: (
                                       (hexdig
                                         (N.modulo
                                           (N.div c (Npos (XO (XO (XO (XO (XO
                                             (XO (XO (XO (XO (XO (XO (XO (XO
                                             (XO (XO (XO (XO (XO (XO (XO
                                             XH)))))))))))))))))))))) (Npos
                                           (XO (XO (XO (XO XH))))))) :: (
                                       (hexdig
                                         (N.modulo
                                           (N.div c (Npos (XO (XO (XO (XO (XO
                                             (XO (XO (XO (XO (XO (XO (XO (XO
                                             (XO (XO (XO XH))))))))))))))))))
                                           (Npos (XO (XO (XO (XO XH))))))) :: (
                                       (hexdig
                                         (N.modulo
                                           (N.div c (Npos (XO (XO (XO (XO (XO
                                             (XO (XO (XO (XO (XO (XO (XO
                                             XH)))))))))))))) (Npos (XO (XO
                                           (XO (XO XH))))))) :: ((hexdig
                                                                   (N.modulo
                                                                    (N.div c
                                                                    (Npos (XO
                                                                    (XO (XO
                                                                    (XO (XO
                                                                    (XO (XO
                                                                    (XO
                                                                    XH))))))))))
                                                                    (Npos (XO
                                                                    (XO (XO
                                                                    (XO
                                                                    XH))))))) :: (
                                       (hexdig
                                         (N.modulo
                                           (N.div c (Npos (XO (XO (XO (XO
                                             XH)))))) (Npos (XO (XO (XO (XO
                                           XH))))))) :: ((hexdig
                                                           (N.modulo c (Npos
                                                             (XO (XO (XO (XO
                                                             XH))))))) :: [])))))))))

(** val uesc_encode : n list -> n list **)

let uesc_encode cs =
  flat_map uesc_char cs

(** val unicode_escape_decode : n list -> n list option **)

let unicode_escape_decode bs =
  match py_text bs with
  | PyValue v -> Some v
  | _ -> None

(** val contains_surrogates : n list -> bool **)

let contains_surrogates cs =
  existsb is_surrogate cs

(** val max_list : n list -> n **)

let max_list l =
  fold_right N.max N0 l

(** val bit_length : n -> n **)

let bit_length =
  N.size

(** val index_width : bool -> n list -> n **)

let index_width fx_width idx =
  let w = bit_length (max_list idx) in
  if fx_width then N.max (Npos XH) w else w

type cindex =
| INone
| IDecl of n * n list
| ICompileError

(** val index_decl : bool -> n list -> cindex **)

let index_decl fx_width idx = match idx with
| [] -> INone
| _ :: _ ->
  let w = index_width fx_width idx in
  if (||) (N.eqb w N0) (N.ltb (Npos (XO (XO (XO (XO (XO XH)))))) w)
  then ICompileError
  else IDecl (w, (map (fun v -> N.modulo v (N.pow (Npos (XO XH)) w)) idx))

type table0 = { t_str : cindex; t_bytes : cindex; t_data : n list }

(** val nlen : n list -> n **)

let nlen l =
  N.of_nat (length l)

(** val encode_all : n list list -> n list list option **)

let rec encode_all = function
| [] -> Some []
| t0 :: r ->
  (match encode_utf8 t0 with
   | Some b ->
     (match encode_all r with
      | Some br -> Some (b :: br)
      | None -> None)
   | None -> None)

type genres =
| GOk of table0
| GEncodeError
| GCompileError

(** val gen_table : bool -> n list list -> n list list -> genres **)

let gen_table fx_width texts bstrs =
  match encode_all texts with
  | Some enc ->
    let si = index_decl fx_width (map nlen enc) in
    let bi = index_decl fx_width (map nlen bstrs) in
    (match si with
     | ICompileError -> GCompileError
     | _ ->
       (match bi with
        | ICompileError -> GCompileError
        | _ ->
          GOk { t_str = si; t_bytes = bi; t_data =
            (app (concat enc) (concat bstrs)) }))
  | None -> GEncodeError

(** val unpack_loop :
    (n list -> n list option) -> n list -> n list -> (n list list * n list)
    option **)

let rec unpack_loop dec1 idx data =
  match idx with
  | [] -> Some ([], data)
  | n0 :: idx' ->
    let k = N.to_nat n0 in
    if Nat.ltb (length data) k
    then None
    else (match dec1 (firstn k data) with
          | Some s ->
            (match unpack_loop dec1 idx' (skipn k data) with
             | Some p -> let (ss, rest) = p in Some ((s :: ss), rest)
             | None -> None)
          | None -> None)

(** val stored_of : cindex -> n list **)

let stored_of = function
| IDecl (_, st) -> st
| _ -> []

(** val unpack_table :
    table0 -> n list -> (n list list * n list list) option **)

let unpack_table t0 data =
  match unpack_loop decode_utf8 (stored_of t0.t_str) data with
  | Some p ->
    let (texts, rest) = p in
    (match unpack_loop (fun b -> Some b) (stored_of t0.t_bytes) rest with
     | Some p0 -> let (bstrs, _) = p0 in Some (texts, bstrs)
     | None -> None)
  | None -> None

type codec = { ext_compress : (n -> n list -> n list option);
               ext_decompress : (n -> n list -> n list option) }

(** val lzss_compress : n list -> n list option **)

let lzss_compress data =
  match compress (map Z.of_N data) with
  | Some c -> Some (map Z.to_N c)
  | None -> None

(** val compress_with : codec -> n -> n list -> n list option **)

let compress_with cd a data =
  if N.eqb a (Npos (XO (XI (XO (XI (XI (XO XH)))))))
  then lzss_compress data
  else cd.ext_compress a data

(** val select_loop :
    codec -> n list -> n list -> n option -> (n * n list) list **)

let rec select_loop cd algs data min_seen =
  match algs with
  | [] -> []
  | a :: rest ->
    (match compress_with cd a data with
     | Some c ->
       let sz = nlen c in
       if N.ltb (nlen data)
            (N.add sz (Npos (XO (XO (XO (XI (XO (XO (XI XH)))))))))
       then select_loop cd rest data min_seen
       else let better =
              match min_seen with
              | Some m -> N.ltb sz m
              | None -> true
            in
            if better
            then (a, c) :: (select_loop cd rest data (Some sz))
            else if N.eqb a (Npos (XO (XI (XO (XI (XI (XO XH)))))))
                 then (a, c) :: (select_loop cd rest data min_seen)
                 else select_loop cd rest data min_seen
     | None -> select_loop cd rest data min_seen)

(** val compressions : codec -> n list -> (n * n list) list **)

let compressions cd data =
  select_loop cd ((Npos (XO (XI (XO (XI (XI (XO XH))))))) :: ((Npos
    XH) :: ((Npos (XO XH)) :: ((Npos (XI XH)) :: [])))) data None

(** val default_compression : (n * n list) list -> z **)

let default_compression comps =
  if existsb (fun p -> N.eqb (fst p) (Npos (XO (XI (XO (XI (XI (XO XH))))))))
       comps
  then Zpos (XO (XI (XO (XI (XI (XO XH))))))
  else Z0

(** val guard : n -> z -> bool -> bool **)

let guard a m py314 =
  if N.eqb a (Npos (XI XH))
  then (&&) (Z.eqb m (Zpos (XI XH))) py314
  else if N.eqb a (Npos (XO (XI (XO (XI (XI (XO XH)))))))
       then (&&) (Z.ltb Z0 m)
              (Z.leb m (Zpos (XO (XI (XO (XI (XI (XO XH))))))))
       else Z.eqb m (Z.of_N a)

(** val choose : (n * n list) list -> z -> bool -> (n * n list) option **)

let choose comps m py314 =
  find (fun p -> guard (fst p) m py314) (rev comps)

(** val c_array_of : bool -> n list -> n list option **)

let c_array_of msvc bs =
  if (&&) msvc
       (N.leb (Npos (XO (XO (XO (XO (XO (XO (XO (XO (XO (XO (XO (XO (XO (XO
         (XO (XO XH))))))))))))))))) (nlen bs))
  then c_read_chars (char_array_form bs)
  else (match as_c_string_literal bs (S (S (S (S (S (S (S (S (S (S (S (S (S
                (S (S (S (S (S (S (S (S (S (S (S (S (S (S (S (S (S (S (S (S
                (S (S (S (S (S (S (S (S (S (S (S (S (S (S (S (S (S (S (S (S
                (S (S (S (S (S (S (S (S (S (S (S (S (S (S (S (S (S (S (S (S
                (S (S (S (S (S (S (S (S (S (S (S (S (S (S (S (S (S (S (S (S
                (S (S (S (S (S (S (S (S (S (S (S (S (S (S (S (S (S (S (S (S
                (S (S (S (S (S (S (S (S (S (S (S (S (S (S (S (S (S (S (S (S
                (S (S (S (S (S (S (S (S (S (S (S (S (S (S (S (S (S (S (S (S
                (S (S (S (S (S (S (S (S (S (S (S (S (S (S (S (S (S (S (S (S
                (S (S (S (S (S (S (S (S (S (S (S (S (S (S (S (S (S (S (S (S
                (S (S (S (S (S (S (S (S (S (S (S (S (S (S (S (S (S (S (S (S
                (S (S (S (S (S (S (S (S (S (S (S (S (S (S (S (S (S (S (S (S
                (S (S (S (S (S (S (S (S (S (S (S (S (S (S (S (S (S (S (S (S
                (S (S (S (S (S (S (S (S (S (S (S (S (S (S (S (S (S (S (S (S
                (S (S (S (S (S (S (S (S (S (S (S (S (S (S (S (S (S (S (S (S
                (S (S (S (S (S (S (S (S (S (S (S (S (S (S (S (S (S (S (S (S
                (S (S (S (S (S (S (S (S (S (S (S (S (S (S (S (S (S (S (S (S
                (S (S (S (S (S (S (S (S (S (S (S (S (S (S (S (S (S (S (S (S
                (S (S (S (S (S (S (S (S (S (S (S (S (S (S (S (S (S (S (S (S
                (S (S (S (S (S (S (S (S (S (S (S (S (S (S (S (S (S (S (S (S
                (S (S (S (S (S (S (S (S (S (S (S (S (S (S (S (S (S (S (S (S
                (S (S (S (S (S (S (S (S (S (S (S (S (S (S (S (S (S (S (S (S
                (S (S (S (S (S (S (S (S (S (S (S (S (S (S (S (S (S (S (S (S
                (S (S (S (S (S (S (S (S (S (S (S (S (S (S (S (S (S (S (S (S
                (S (S (S (S (S (S (S (S (S (S (S (S (S (S (S (S (S (S (S (S
                (S (S (S (S (S (S (S (S (S (S (S (S (S (S (S (S (S (S (S (S
                (S (S (S (S (S (S (S (S (S (S (S (S (S (S (S (S (S (S (S (S
                (S (S (S (S (S (S (S (S (S (S (S (S (S (S (S (S (S (S (S (S
                (S (S (S (S (S (S (S (S (S (S (S (S (S (S (S (S (S (S (S (S
                (S (S (S (S (S (S (S (S (S (S (S (S (S (S (S (S (S (S (S (S
                (S (S (S (S (S (S (S (S (S (S (S (S (S (S (S (S (S (S (S (S
                (S (S (S (S (S (S (S (S (S (S (S (S (S (S (S (S (S (S (S (S
                (S (S (S (S (S (S (S (S (S (S (S (S (S (S (S (S (S (S (S (S
                (S (S (S (S (S (S (S (S (S (S (S (S (S (S (S (S (S (S (S (S
                (S (S (S (S (S (S (S (S (S (S (S (S (S (S (S (S (S (S (S (S
                (S (S (S (S (S (S (S (S (S (S (S (S (S (S (S (S (S (S (S (S
                (S (S (S (S (S (S (S (S (S (S (S (S (S (S (S (S (S (S (S (S
                (S (S (S (S (S (S (S (S (S (S (S (S (S (S (S (S (S (S (S (S
                (S (S (S (S (S (S (S (S (S (S (S (S (S (S (S (S (S (S (S (S
                (S (S (S (S (S (S (S (S (S (S (S (S (S (S (S (S (S (S (S (S
                (S (S (S (S (S (S (S (S (S (S (S (S (S (S (S (S (S (S (S (S
                (S (S (S (S (S (S (S (S (S (S (S (S (S (S (S (S (S (S (S (S
                (S (S (S (S (S (S (S (S (S (S (S (S (S (S (S (S (S (S (S (S
                (S (S (S (S (S (S (S (S (S (S (S (S (S (S (S (S (S (S (S (S
                (S (S (S (S (S (S (S (S (S (S (S (S (S (S (S (S (S (S (S (S
                (S (S (S (S (S (S (S (S (S (S (S (S (S (S (S (S (S (S (S (S
                (S (S (S (S (S (S (S (S (S (S (S (S (S (S (S (S (S (S (S (S
                (S (S (S (S (S (S (S (S (S (S (S (S (S (S (S (S (S (S (S (S
                (S (S (S (S (S (S (S (S (S (S (S (S (S (S (S (S (S (S (S (S
                (S (S (S (S (S (S (S (S (S (S (S (S (S (S (S (S (S (S (S (S
                (S (S (S (S (S (S (S (S (S (S (S (S (S (S (S (S (S (S (S (S
                (S (S (S (S (S (S (S (S (S (S (S (S (S (S (S (S (S (S (S (S
                (S (S (S (S (S (S (S (S (S (S (S (S (S (S (S (S (S (S (S (S
                (S (S (S (S (S (S (S (S (S (S (S (S (S (S (S (S (S (S (S (S
                (S (S (S (S (S (S (S (S (S (S (S (S (S (S (S (S (S (S (S (S
                (S (S (S (S (S (S (S (S (S (S (S (S (S (S (S (S (S (S (S (S
                (S (S (S (S (S (S (S (S (S (S (S (S (S (S (S (S (S (S (S (S
                (S (S (S (S (S (S (S (S (S (S (S (S (S (S (S (S (S (S (S (S
                (S (S (S (S (S (S (S (S (S (S (S (S (S (S (S (S (S (S (S (S
                (S (S (S (S (S (S (S (S (S (S (S (S (S (S (S (S (S (S (S (S
                (S (S (S (S (S (S (S (S (S (S (S (S (S (S (S (S (S (S (S (S
                (S (S (S (S (S (S (S (S (S (S (S (S (S (S (S (S (S (S (S (S
                (S (S (S (S (S (S (S (S (S (S (S (S (S (S (S (S (S (S (S (S
                (S (S (S (S (S (S (S (S (S (S (S (S (S (S (S (S (S (S (S (S
                (S (S (S (S (S (S (S (S (S (S (S (S (S (S (S (S (S (S (S (S
                (S (S (S (S (S (S (S (S (S (S (S (S (S (S (S (S (S (S (S (S
                (S (S (S (S (S (S (S (S (S (S (S (S (S (S (S (S (S (S (S (S
                (S (S (S (S (S (S (S (S (S (S (S (S (S (S (S (S (S (S (S (S
                (S (S (S (S (S (S (S (S (S (S (S (S (S (S (S (S (S (S (S (S
                (S (S (S (S (S (S (S (S (S (S (S (S (S (S (S (S (S (S (S (S
                (S (S (S (S (S (S (S (S (S (S (S (S (S (S (S (S (S (S (S (S
                (S (S (S (S (S (S (S (S (S (S (S (S (S (S (S (S (S (S (S (S
                (S (S (S (S (S (S (S (S (S (S (S (S (S (S (S (S (S (S (S (S
                (S (S (S (S (S (S (S (S (S (S (S (S (S (S (S (S (S (S (S (S
                (S (S (S (S (S (S (S (S (S (S (S (S (S (S (S (S (S (S (S (S
                (S (S (S (S (S (S (S (S (S (S (S (S (S (S (S (S (S (S (S (S
                (S (S (S (S (S (S (S (S (S (S (S (S (S (S (S (S (S (S (S (S
                (S (S (S (S (S (S (S (S (S (S (S (S (S (S (S (S (S (S (S (S
                (S (S (S (S (S (S (S (S (S (S (S (S (S (S (S (S (S (S (S (S
                (S (S (S (S (S (S (S (S (S (S (S (S (S (S (S (S (S (S (S (S
                (S (S (S (S (S (S (S (S (S (S (S (S (S (S (S (S (S (S (S (S
                (S (S (S (S (S (S (S (S (S (S (S (S (S (S (S (S (S (S (S (S
                (S (S (S (S (S (S (S (S (S (S (S (S (S (S (S (S (S (S (S (S
                (S (S (S (S (S (S (S (S (S (S (S (S (S (S (S (S (S (S (S (S
                (S (S (S (S (S (S (S (S (S (S (S (S (S (S (S (S (S (S (S (S
                (S (S (S (S (S (S (S (S (S (S (S (S (S (S (S (S (S (S (S (S
                (S (S (S (S (S (S (S (S (S (S (S (S (S (S (S (S (S (S (S (S
                (S (S (S (S (S (S (S (S (S (S (S (S (S (S (S (S (S (S (S (S
                (S (S (S (S (S (S (S (S (S (S (S (S (S (S (S (S (S (S (S (S
                (S (S (S (S (S (S (S (S (S (S (S (S (S (S (S (S (S (S (S (S
                (S (S (S (S (S (S (S (S (S (S (S (S (S (S (S (S (S (S (S (S
                (S (S (S (S (S (S (S (S (S (S (S (S (S (S (S (S (S (S (S (S
                (S (S (S (S (S (S (S (S (S (S (S (S (S (S (S (S (S (S (S (S
                (S (S (S (S (S (S (S (S (S (S (S (S (S (S (S (S (S (S (S (S
                (S (S (S (S (S (S (S (S (S (S (S (S (S (S (S (S (S (S (S (S
                (S (S (S (S (S (S (S (S (S (S (S (S (S (S (S (S (S (S (S (S
                (S (S (S (S (S (S (S (S (S (S (S (S (S (S (S (S (S (S (S (S
                (S (S (S (S (S (S (S (S (S (S (S (S (S (S (S (S (S (S (S (S
                (S (S (S (S (S (S (S (S (S (S (S (S (S (S (S (S (S (S (S (S
                (S (S (S (S (S (S (S (S (S (S (S (S (S (S (S (S (S (S (S (S
                (S (S (S (S (S (S (S
                O)))))))))))))))))))))))))))))))))))))))))))))))))))))))))))))))))))))))))))))))))))))))))))))))))))))))))))))))))))))))))))))))))))))))))))))))))))))))))))))))))))))))))))))))))))))))))))))))))))))))))))))))))))))))))))))))))))))))))))))))))))))))))))))))))))))))))))))))))))))))))))))))))))))))))))))))))))))))))))))))))))))))))))))))))))))))))))))))))))))))))))))))))))))))))))))))))))))))))))))))))))))))))))))))))))))))))))))))))))))))))))))))))))))))))))))))))))))))))))))))))))))))))))))))))))))))))))))))))))))))))))))))))))))))))))))))))))))))))))))))))))))))))))))))))))))))))))))))))))))))))))))))))))))))))))))))))))))))))))))))))))))))))))))))))))))))))))))))))))))))))))))))))))))))))))))))))))))))))))))))))))))))))))))))))))))))))))))))))))))))))))))))))))))))))))))))))))))))))))))))))))))))))))))))))))))))))))))))))))))))))))))))))))))))))))))))))))))))))))))))))))))))))))))))))))))))))))))))))))))))))))))))))))))))))))))))))))))))))))))))))))))))))))))))))))))))))))))))))))))))))))))))))))))))))))))))))))))))))))))))))))))))))))))))))))))))))))))))))))))))))))))))))))))))))))))))))))))))))))))))))))))))))))))))))))))))))))))))))))))))))))))))))))))))))))))))))))))))))))))))))))))))))))))))))))))))))))))))))))))))))))))))))))))))))))))))))))))))))))))))))))))))))))))))))))))))))))))))))))))))))))))))))))))))))))))))))))))))))))))))))))))))))))))))))))))))))))))))))))))))))))))))))))))))))))))))))))))))))))))))))))))))))))))))))))))))))))))))))))))))))))))))))))))))))))))))))))))))))))))))))))))))))))))))))))))))))))))))))))))))))))))))))))))))))))))))))))))))))))))))))))))))))))))))))))))))))))))))))))))))))))))))))))))))))))))))))))))))))))))))))))))))))))))))))))))))))))))))))))))))))))))))))))))))))))))))))))))))))))))))))))))))))))))))))))))))))))))))))))))))))))))))))))))))))))))))))))))))))))))))))))))))))))))))))))))))))))))))))))))))))))))))))))))))))))))))))))))))))))))))))))))))))))))))))))))))))))))))))))))))))))))))))))))))))))))))))))))))))))))))) with
        | Some txt -> c_read txt
        | None -> None)

type image = { im_table : table0; im_comps : (n * n list) list; im_len : 
               n; im_data : n list }

(** val gen_image :
    bool -> codec -> n list list -> n list list -> image option **)

let gen_image fx_width cd texts bstrs =
  match gen_table fx_width texts bstrs with
  | GOk t0 ->
    Some { im_table = t0; im_comps = (compressions cd t0.t_data); im_len =
      (nlen t0.t_data); im_data = t0.t_data }
  | _ -> None

(** val init_data :
    codec -> bool -> bool -> z option -> image -> n list option **)

let init_data cd msvc py314 user_macro im =
  let m =
    match user_macro with
    | Some m -> m
    | None -> default_compression im.im_comps
  in
  (match choose im.im_comps m py314 with
   | Some p ->
     let (a, c) = p in
     (match c_array_of msvc c with
      | Some cbytes ->
        if N.eqb a (Npos (XO (XI (XO (XI (XI (XO XH)))))))
        then (match decompress_string (map Z.of_N cbytes) (Z.of_N (nlen c))
                      (Z.of_N im.im_len) with
              | SOk out -> Some (map Z.to_N out)
              | _ -> None)
        else cd.ext_decompress a cbytes
      | None -> None)
   | None -> c_array_of msvc im.im_data)

(** val init_table :
    codec -> bool -> bool -> z option -> image -> (n list list * n list list)
    option **)

let init_table cd msvc py314 user_macro im =
  match init_data cd msvc py314 user_macro im with
  | Some data -> unpack_table im.im_table data
  | None -> None

type pyobj =
| PStr of n list
| PBytes of n list

type cref =
| RText of nat
| RBytes of nat
| RUstr of nat

type lit = { l_kind : kind; l_raw : bool; l_body : n list }

type consts = { c_texts : n list list; c_bstrs : n list list;
                c_ustrs : n list list; c_refs : cref list }

(** val collect : bool -> lit list -> consts -> consts option **)

let rec collect fx_oct ls acc =
  match ls with
  | [] -> Some acc
  | l :: r ->
    (match visible l.l_kind (decode fx_oct l.l_kind l.l_raw l.l_body) with
     | Some v ->
       if kind_is_text l.l_kind
       then if contains_surrogates v
            then collect fx_oct r { c_texts = acc.c_texts; c_bstrs =
                   acc.c_bstrs; c_ustrs =
                   (app acc.c_ustrs ((uesc_encode v) :: [])); c_refs =
                   (app acc.c_refs ((RUstr (length acc.c_ustrs)) :: [])) }
            else collect fx_oct r { c_texts = (app acc.c_texts (v :: []));
                   c_bstrs = acc.c_bstrs; c_ustrs = acc.c_ustrs; c_refs =
                   (app acc.c_refs ((RText (length acc.c_texts)) :: [])) }
       else collect fx_oct r { c_texts = acc.c_texts; c_bstrs =
              (app acc.c_bstrs (v :: [])); c_ustrs = acc.c_ustrs; c_refs =
              (app acc.c_refs ((RBytes (length acc.c_bstrs)) :: [])) }
     | None -> None)

(** val consts0 : consts **)

let consts0 =
  { c_texts = []; c_bstrs = []; c_ustrs = []; c_refs = [] }

(** val init_ustr : n list -> n list option **)

let init_ustr esc =
  match as_c_string_literal esc (S (S (S (S (S (S (S (S (S (S (S (S (S (S (S
          (S (S (S (S (S (S (S (S (S (S (S (S (S (S (S (S (S (S (S (S (S (S
          (S (S (S (S (S (S (S (S (S (S (S (S (S (S (S (S (S (S (S (S (S (S
          (S (S (S (S (S (S (S (S (S (S (S (S (S (S (S (S (S (S (S (S (S (S
          (S (S (S (S (S (S (S (S (S (S (S (S (S (S (S (S (S (S (S (S (S (S
          (S (S (S (S (S (S (S (S (S (S (S (S (S (S (S (S (S (S (S (S (S (S
          (S (S (S (S (S (S (S (S (S (S (S (S (S (S (S (S (S (S (S (S (S (S
          (S (S (S (S (S (S (S (S (S (S (S (S (S (S (S (S (S (S (S (S (S (S
          (S (S (S (S (S (S (S (S (S (S (S (S (S (S (S (S (S (S (S (S (S (S
          (S (S (S (S (S (S (S (S (S (S (S (S (S (S (S (S (S (S (S (S (S (S
          (S (S (S (S (S (S (S (S (S (S (S (S (S (S (S (S (S (S (S (S (S (S
          (S (S (S (S (S (S (S (S (S (S (S (S (S (S (S (S (S (S (S (S (S (S
          (S (S (S (S (S (S (S (S (S (S (S (S (S (S (S (S (S (S (S (S (S (S
          (S (S (S (S (S (S (S (S (S (S (S (S (S (S (S (S (S (S (S (S (S (S
          (S (S (S (S (S (S (S (S (S (S (S (S (S (S (S (S (S (S (S (S (S (S
          (S (S (S (S (S (S (S (S (S (S (S (S (S (S (S (S (S (S (S (S (S (S
          (S (S (S (S (S (S (S (S (S (S (S (S (S (S (S (S (S (S (S (S (S (S
          (S (S (S (S (S (S (S (S (S (S (S (S (S (S (S (S (S (S (S (S (S (S
          (S (S (S (S (S (S (S (S (S (S (S (S (S (S (S (S (S (S (S (S (S (S
          (S (S (S (S (S (S (S (S (S (S (S (S (S (S (S (S (S (S (S (S (S (S
          (S (S (S (S (S (S (S (S (S (S (S (S (S (S (S (S (S (S (S (S (S (S
          (S (S (S (S (S (S (S (S (S (S (S (S (S (S (S (S (S (S (S (S (S (S
          (S (S (S (S (S (S (S (S (S (S (S (S (S (S (S (S (S (S (S (S (S (S
          (S (S (S (S (S (S (S (S (S (S (S (S (S (S (S (S (S (S (S (S (S (S
          (S (S (S (S (S (S (S (S (S (S (S (S (S (S (S (S (S (S (S (S (S (S
          (S (S (S (S (S (S (S (S (S (S (S (S (S (S (S (S (S (S (S (S (S (S
          (S (S (S (S (S (S (S (S (S (S (S (S (S (S (S (S (S (S (S (S (S (S
          (S (S (S (S (S (S (S (S (S (S (S (S (S (S (S (S (S (S (S (S (S (S
          (S (S (S (S (S (S (S (S (S (S (S (S (S (S (S (S (S (S (S (S (S (S
          (S (S (S (S (S (S (S (S (S (S (S (S (S (S (S (S (S (S (S (S (S (S
          (S (S (S (S (S (S (S (S (S (S (S (S (S (S (S (S (S (S (S (S (S (S
          (S (S (S (S (S (S (S (S (S (S (S (S (S (S (S (S (S (S (S (S (S (S
          (S (S (S (S (S (S (S (S (S (S (S (S (S (S (S (S (S (S (S (S (S (S
          (S (S (S (S (S (S (S (S (S (S (S (S (S (S (S (S (S (S (S (S (S (S
          (S (S (S (S (S (S (S (S (S (S (S (S (S (S (S (S (S (S (S (S (S (S
          (S (S (S (S (S (S (S (S (S (S (S (S (S (S (S (S (S (S (S (S (S (S
          (S (S (S (S (S (S (S (S (S (S (S (S (S (S (S (S (S (S (S (S (S (S
          (S (S (S (S (S (S (S (S (S (S (S (S (S (S (S (S (S (S (S (S (S (S
          (S (S (S (S (S (S (S (S (S (S (S (S (S (S (S (S (S (S (S (S (S (S
          (S (S (S (S (S (S (S (S (S (S (S (S (S (S (S (S (S (S (S (S (S (S
          (S (S (S (S (S (S (S (S (S (S (S (S (S (S (S (S (S (S (S (S (S (S
          (S (S (S (S (S (S (S (S (S (S (S (S (S (S (S (S (S (S (S (S (S (S
          (S (S (S (S (S (S (S (S (S (S (S (S (S (S (S (S (S (S (S (S (S (S
          (S (S (S (S (S (S (S (S (S (S (S (S (S (S (S (S (S (S (S (S (S (S
          (S (S (S (S (S (S (S (S (S (S (S (S (S (S (S (S (S (S (S (S (S (S
          (S (S (S (S (S (S (S (S (S (S (S (S (S (S (S (S (S (S (S (S (S (S
          (S (S (S (S (S (S (S (S (S (S (S (S (S (S (S (S (S (S (S (S (S (S
          (S (S (S (S (S (S (S (S (S (S (S (S (S (S (S (S (S (S (S (S (S (S
          (S (S (S (S (S (S (S (S (S (S (S (S (S (S (S (S (S (S (S (S (S (S
          (S (S (S (S (S (S (S (S (S (S (S (S (S (S (S (S (S (S (S (S (S (S
          (S (S (S (S (S (S (S (S (S (S (S (S (S (S (S (S (S (S (S (S (S (S
          (S (S (S (S (S (S (S (S (S (S (S (S (S (S (S (S (S (S (S (S (S (S
          (S (S (S (S (S (S (S (S (S (S (S (S (S (S (S (S (S (S (S (S (S (S
          (S (S (S (S (S (S (S (S (S (S (S (S (S (S (S (S (S (S (S (S (S (S
          (S (S (S (S (S (S (S (S (S (S (S (S (S (S (S (S (S (S (S (S (S (S
          (S (S (S (S (S (S (S (S (S (S (S (S (S (S (S (S (S (S (S (S (S (S
          (S (S (S (S (S (S (S (S (S (S (S (S (S (S (S (S (S (S (S (S (S (S
          (S (S (S (S (S (S (S (S (S (S (S (S (S (S (S (S (S (S (S (S (S (S
          (S (S (S (S (S (S (S (S (S (S (S (S (S (S (S (S (S (S (S (S (S (S
          (S (S (S (S (S (S (S (S (S (S (S (S (S (S (S (S (S (S (S (S (S (S
          (S (S (S (S (S (S (S (S (S (S (S (S (S (S (S (S (S (S (S (S (S (S
          (S (S (S (S (S (S (S (S (S (S (S (S (S (S (S (S (S (S (S (S (S (S
          (S (S (S (S (S (S (S (S (S (S (S (S (S (S (S (S (S (S (S (S (S (S
          (S (S (S (S (S (S (S (S (S (S (S (S (S (S (S (S (S (S (S (S (S (S
          (S (S (S (S (S (S (S (S (S (S (S (S (S (S (S (S (S (S (S (S (S (S
          (S (S (S (S (S (S (S (S (S (S (S (S (S (S (S (S (S (S (S (S (S (S
          (S (S (S (S (S (S (S (S (S (S (S (S (S (S (S (S (S (S (S (S (S (S
          (S (S (S (S (S (S (S (S (S (S (S (S (S (S (S (S (S (S (S (S (S (S
          (S (S (S (S (S (S (S (S (S (S (S (S (S (S (S (S (S (S (S (S (S (S
          (S (S (S (S (S (S (S (S (S (S (S (S (S (S (S (S (S (S (S (S (S (S
          (S (S (S (S (S (S (S (S (S (S (S (S (S (S (S (S (S (S (S (S (S (S
          (S (S (S (S (S (S (S (S (S (S (S (S (S (S (S (S (S (S (S (S (S (S
          (S (S (S (S (S (S (S (S (S (S (S (S (S (S (S (S (S (S (S (S (S (S
          (S (S (S (S (S (S (S (S (S (S (S (S (S (S (S (S (S (S (S (S (S (S
          (S (S (S (S (S (S (S (S (S (S (S (S (S (S (S (S (S (S (S (S (S (S
          (S (S (S (S (S (S (S (S (S (S (S (S (S (S (S (S (S (S (S (S (S (S
          (S (S (S (S (S (S (S (S (S (S (S (S (S (S (S (S (S (S (S (S (S (S
          (S (S (S (S (S (S (S (S (S (S (S (S (S (S (S (S (S (S (S (S (S (S
          (S (S (S (S (S (S (S (S (S (S (S (S (S (S (S (S (S (S (S (S (S (S
          (S (S (S (S (S (S (S (S (S (S (S (S (S (S (S (S (S (S (S (S (S (S
          (S (S (S (S (S (S (S (S (S (S (S (S (S (S (S (S (S (S (S (S (S (S
          (S (S (S (S (S (S (S (S (S (S (S (S (S (S (S (S (S (S (S (S (S (S
          (S (S (S (S (S (S (S (S (S (S (S (S (S (S (S (S (S (S (S (S (S (S
          (S (S (S (S (S (S (S (S (S (S (S (S (S (S (S (S (S (S (S (S (S (S
          (S (S (S (S (S (S (S (S (S (S (S (S (S (S (S (S (S (S (S (S (S (S
          (S (S (S (S (S (S (S (S (S (S (S (S (S (S (S (S (S (S (S (S (S (S
          (S (S (S (S (S (S (S (S (S (S (S (S (S (S (S (S (S (S (S (S (S (S
          (S (S (S (S (S (S (S (S (S (S (S (S (S (S (S (S (S (S (S (S (S (S
          (S (S (S (S (S (S (S (S (S (S (S (S (S (S (S (S (S (S (S (S (S (S
          (S (S (S (S (S (S (S (S (S (S (S (S (S (S (S (S (S (S (S (S (S (S
          (S (S (S (S (S (S (S (S (S (S (S (S (S (S (S (S (S (S (S (S (S (S
          (S (S (S (S (S
          O)))))))))))))))))))))))))))))))))))))))))))))))))))))))))))))))))))))))))))))))))))))))))))))))))))))))))))))))))))))))))))))))))))))))))))))))))))))))))))))))))))))))))))))))))))))))))))))))))))))))))))))))))))))))))))))))))))))))))))))))))))))))))))))))))))))))))))))))))))))))))))))))))))))))))))))))))))))))))))))))))))))))))))))))))))))))))))))))))))))))))))))))))))))))))))))))))))))))))))))))))))))))))))))))))))))))))))))))))))))))))))))))))))))))))))))))))))))))))))))))))))))))))))))))))))))))))))))))))))))))))))))))))))))))))))))))))))))))))))))))))))))))))))))))))))))))))))))))))))))))))))))))))))))))))))))))))))))))))))))))))))))))))))))))))))))))))))))))))))))))))))))))))))))))))))))))))))))))))))))))))))))))))))))))))))))))))))))))))))))))))))))))))))))))))))))))))))))))))))))))))))))))))))))))))))))))))))))))))))))))))))))))))))))))))))))))))))))))))))))))))))))))))))))))))))))))))))))))))))))))))))))))))))))))))))))))))))))))))))))))))))))))))))))))))))))))))))))))))))))))))))))))))))))))))))))))))))))))))))))))))))))))))))))))))))))))))))))))))))))))))))))))))))))))))))))))))))))))))))))))))))))))))))))))))))))))))))))))))))))))))))))))))))))))))))))))))))))))))))))))))))))))))))))))))))))))))))))))))))))))))))))))))))))))))))))))))))))))))))))))))))))))))))))))))))))))))))))))))))))))))))))))))))))))))))))))))))))))))))))))))))))))))))))))))))))))))))))))))))))))))))))))))))))))))))))))))))))))))))))))))))))))))))))))))))))))))))))))))))))))))))))))))))))))))))))))))))))))))))))))))))))))))))))))))))))))))))))))))))))))))))))))))))))))))))))))))))))))))))))))))))))))))))))))))))))))))))))))))))))))))))))))))))))))))))))))))))))))))))))))))))))))))))))))))))))))))))))))))))))))))))))))))))))))))))))))))))))))))))))))))))))))))))))))))))))))))))))))))))))))))))))))))))))))))))))))))))))))))))))))))))))))))))))))))))))))))))))))))))))))))))))))))))))))))))))))))))))))))))))))))))))))))))))))))))))))))))))))))))))))))))))))))))))))))))))))))))))))))))))))) with
  | Some txt ->
    (match c_read txt with
     | Some bs -> unicode_escape_decode bs
     | None -> None)
  | None -> None

(** val map_opt : ('a1 -> 'a2 option) -> 'a1 list -> 'a2 list option **)

let rec map_opt f = function
| [] -> Some []
| a :: r ->
  (match f a with
   | Some b ->
     (match map_opt f r with
      | Some br -> Some (b :: br)
      | None -> None)
   | None -> None)

(** val resolve :
    n list list -> n list list -> n list list -> cref -> pyobj option **)

let resolve texts bstrs ustrs = function
| RText i -> option_map (fun x -> PStr x) (nth_error texts i)
| RBytes i -> option_map (fun x -> PBytes x) (nth_error bstrs i)
| RUstr i -> option_map (fun x -> PStr x) (nth_error ustrs i)

(** val run_module :
    bool -> bool -> codec -> bool -> bool -> z option -> lit list -> pyobj
    list option **)

let run_module fx_oct fx_width cd msvc py314 user_macro ls =
  match collect fx_oct ls consts0 with
  | Some cs ->
    (match gen_image fx_width cd cs.c_texts cs.c_bstrs with
     | Some im ->
       (match init_table cd msvc py314 user_macro im with
        | Some p ->
          let (texts, bstrs) = p in
          (match map_opt init_ustr cs.c_ustrs with
           | Some ustrs -> map_opt (resolve texts bstrs ustrs) cs.c_refs
           | None -> None)
        | None -> None)
     | None -> None)
  | None -> None

(** val py_object : lit -> pyobj option **)

let py_object l =
  match py_value l.l_kind l.l_raw l.l_body with
  | PyValue v -> Some (if kind_is_text l.l_kind then PStr v else PBytes v)
  | _ -> None

(** val id_codec : codec **)

let id_codec =
  { ext_compress = (fun a d ->
    if (||) (N.eqb a (Npos XH)) (N.eqb a (Npos (XO XH)))
    then Some (a :: d)
    else None); ext_decompress = (fun a c ->
    match c with
    | [] -> None
    | x :: d -> if N.eqb x a then Some d else None) }

type rform =
| F7
| F9
| F14

(** val ref_fields : z list -> (((rform * z) * z) * z list) option **)

let ref_fields = function
| [] -> None
| lo :: l ->
  (match l with
   | [] -> None
   | hi :: r ->
     if Z.eqb (Z.coq_land lo (Zpos (XO (XO (XO (XO (XO (XO (XO XH))))))))) Z0
     then Some (((F7, lo), (Z.add hi (Zpos (XI XH)))), r)
     else if Z.eqb
               (Z.coq_land hi (Zpos (XO (XO (XO (XO (XO (XO (XO XH))))))))) Z0
          then Some (((F9,
                 (Z.add (Zpos (XO (XO (XO (XO (XO (XO (XO XH))))))))
                   (Z.coq_lor
                     (Z.coq_land (Z.shiftl hi (Zpos (XO XH))) (Zpos (XO (XO
                       (XO (XO (XO (XO (XO (XI XH))))))))))
                     (Z.coq_land lo (Zpos (XI (XI (XI (XI (XI (XI XH))))))))))),
                 (Z.add (Z.coq_land hi (Zpos (XI (XI (XI (XI XH)))))) (Zpos
                   (XI XH)))), r)
          else (match r with
                | [] -> None
                | l3 :: r' ->
                  Some (((F14,
                    (Z.add (Zpos (XO (XO (XO (XO (XO (XO (XO XH))))))))
                      (Z.coq_lor
                        (Z.shiftl
                          (Z.coq_land hi (Zpos (XI (XI (XI (XI (XI (XI
                            XH)))))))) (Zpos (XI (XI XH))))
                        (Z.coq_land lo (Zpos (XI (XI (XI (XI (XI (XI
                          XH))))))))))), (Z.add l3 (Zpos (XI XH)))), r')))

(** val form_of : z -> z -> rform option **)

let form_of eo len =
  if (||) (Z.ltb len (Zpos (XI XH))) (Z.ltb eo Z0)
  then None
  else if Z.leb eo (Zpos (XI (XI (XI (XI (XI (XI XH)))))))
       then Some F7
       else if (&&)
                 (Z.ltb (Z.sub len (Zpos (XI XH))) (Zpos (XO (XO (XO (XO (XO
                   XH)))))))
                 (Z.ltb
                   (Z.sub eo (Zpos (XO (XO (XO (XO (XO (XO (XO XH)))))))))
                   (Zpos (XO (XO (XO (XO (XO (XO (XO (XO (XO XH)))))))))))
            then Some F9
            else if (&&) (Z.gtb len (Zpos (XI XH)))
                      (Z.ltb
                        (Z.sub eo (Zpos (XO (XO (XO (XO (XO (XO (XO
                          XH))))))))) (Zpos (XO (XO (XO (XO (XO (XO (XO (XO
                        (XO (XO (XO (XO (XO (XO XH))))))))))))))))
                 then Some F14
                 else None

(** val lzss_unpack :
    table0 -> n list -> (n list list * n list list) option **)

let lzss_unpack t0 c =
  match decompress_string (map Z.of_N c) (Z.of_N (nlen c))
          (Z.of_N (nlen t0.t_data)) with
  | SOk out -> unpack_table t0 (map Z.to_N out)
  | _ -> None

(** val refs_of : token list -> ((z * z) * z) list **)

let rec refs_of = function
| [] -> []
| t0 :: r ->
  (match t0 with
   | TLit _ -> refs_of r
   | TRef (eo, len, bs) -> (((Z.of_nat (length bs)), eo), len) :: (refs_of r))
