
(** val negb : bool -> bool **)

let negb = function
| true -> false
| false -> true

type nat =
| O
| S of nat

(** val option_map : ('a1 -> 'a2) -> 'a1 option -> 'a2 option **)

let option_map f = function
| Some a -> Some (f a)
| None -> None

(** val fst : ('a1 * 'a2) -> 'a1 **)

let fst = function
| (x, _) -> x

(** val snd : ('a1 * 'a2) -> 'a2 **)

let snd = function
| (_, y) -> y

(** val length : 'a1 list -> nat **)

let rec length = function
| [] -> O
| _ :: l' -> S (length l')

(** val app : 'a1 list -> 'a1 list -> 'a1 list **)

let rec app l m =
  match l with
  | [] -> m
  | a :: l1 -> a :: (app l1 m)

type comparison =
| Eq
| Lt
| Gt

(** val compOpp : comparison -> comparison **)

let compOpp = function
| Eq -> Eq
| Lt -> Gt
| Gt -> Lt

type positive =
| XI of positive
| XO of positive
| XH

type n =
| N0
| Npos of positive

type z =
| Z0
| Zpos of positive
| Zneg of positive

(** val eqb : bool -> bool -> bool **)

let eqb b1 b2 =
  if b1 then b2 else if b2 then false else true

module Nat =
 struct
  (** val eqb : nat -> nat -> bool **)

  let rec eqb n0 m =
    match n0 with
    | O -> (match m with
            | O -> true
            | S _ -> false)
    | S n' -> (match m with
               | O -> false
               | S m' -> eqb n' m')

  (** val leb : nat -> nat -> bool **)

  let rec leb n0 m =
    match n0 with
    | O -> true
    | S n' -> (match m with
               | O -> false
               | S m' -> leb n' m')
 end

module Pos =
 struct
  (** val succ : positive -> positive **)

  let rec succ = function
  | XI p -> XO (succ p)
  | XO p -> XI p
  | XH -> XO XH

  (** val add : positive -> positive -> positive **)

  let rec add x y =
    match x with
    | XI p ->
      (match y with
       | XI q -> XO (add_carry p q)
       | XO q -> XI (add p q)
       | XH -> XO (succ p))
    | XO p ->
      (match y with
       | XI q -> XI (add p q)
       | XO q -> XO (add p q)
       | XH -> XI p)
    | XH -> (match y with
             | XI q -> XO (succ q)
             | XO q -> XI q
             | XH -> XO XH)

  (** val add_carry : positive -> positive -> positive **)

  and add_carry x y =
    match x with
    | XI p ->
      (match y with
       | XI q -> XI (add_carry p q)
       | XO q -> XO (add_carry p q)
       | XH -> XI (succ p))
    | XO p ->
      (match y with
       | XI q -> XO (add_carry p q)
       | XO q -> XI (add p q)
       | XH -> XO (succ p))
    | XH ->
      (match y with
       | XI q -> XI (succ q)
       | XO q -> XO (succ q)
       | XH -> XI XH)

  (** val pred_double : positive -> positive **)

  let rec pred_double = function
  | XI p -> XI (XO p)
  | XO p -> XI (pred_double p)
  | XH -> XH

  (** val mul : positive -> positive -> positive **)

  let rec mul x y =
    match x with
    | XI p -> add y (XO (mul p y))
    | XO p -> XO (mul p y)
    | XH -> y

  (** val iter : ('a1 -> 'a1) -> 'a1 -> positive -> 'a1 **)

  let rec iter f x = function
  | XI n' -> f (iter f (iter f x n') n')
  | XO n' -> iter f (iter f x n') n'
  | XH -> f x

  (** val compare_cont : comparison -> positive -> positive -> comparison **)

  let rec compare_cont r x y =
    match x with
    | XI p ->
      (match y with
       | XI q -> compare_cont r p q
       | XO q -> compare_cont Gt p q
       | XH -> Gt)
    | XO p ->
      (match y with
       | XI q -> compare_cont Lt p q
       | XO q -> compare_cont r p q
       | XH -> Gt)
    | XH -> (match y with
             | XH -> r
             | _ -> Lt)

  (** val compare : positive -> positive -> comparison **)

  let compare =
    compare_cont Eq

  (** val eqb : positive -> positive -> bool **)

  let rec eqb p q =
    match p with
    | XI p0 -> (match q with
                | XI q0 -> eqb p0 q0
                | _ -> false)
    | XO p0 -> (match q with
                | XO q0 -> eqb p0 q0
                | _ -> false)
    | XH -> (match q with
             | XH -> true
             | _ -> false)

  (** val of_succ_nat : nat -> positive **)

  let rec of_succ_nat = function
  | O -> XH
  | S x -> succ (of_succ_nat x)
 end

module N =
 struct
  (** val compare : n -> n -> comparison **)

  let compare n0 m =
    match n0 with
    | N0 -> (match m with
             | N0 -> Eq
             | Npos _ -> Lt)
    | Npos n' -> (match m with
                  | N0 -> Gt
                  | Npos m' -> Pos.compare n' m')

  (** val eqb : n -> n -> bool **)

  let eqb n0 m =
    match n0 with
    | N0 -> (match m with
             | N0 -> true
             | Npos _ -> false)
    | Npos p -> (match m with
                 | N0 -> false
                 | Npos q -> Pos.eqb p q)

  (** val leb : n -> n -> bool **)

  let leb x y =
    match compare x y with
    | Gt -> false
    | _ -> true

  (** val ltb : n -> n -> bool **)

  let ltb x y =
    match compare x y with
    | Lt -> true
    | _ -> false

  (** val max : n -> n -> n **)

  let max n0 n' =
    match compare n0 n' with
    | Gt -> n0
    | _ -> n'
 end

module Z =
 struct
  (** val double : z -> z **)

  let double = function
  | Z0 -> Z0
  | Zpos p -> Zpos (XO p)
  | Zneg p -> Zneg (XO p)

  (** val succ_double : z -> z **)

  let succ_double = function
  | Z0 -> Zpos XH
  | Zpos p -> Zpos (XI p)
  | Zneg p -> Zneg (Pos.pred_double p)

  (** val pred_double : z -> z **)

  let pred_double = function
  | Z0 -> Zneg XH
  | Zpos p -> Zpos (Pos.pred_double p)
  | Zneg p -> Zneg (XI p)

  (** val pos_sub : positive -> positive -> z **)

  let rec pos_sub x y =
    match x with
    | XI p ->
      (match y with
       | XI q -> double (pos_sub p q)
       | XO q -> succ_double (pos_sub p q)
       | XH -> Zpos (XO p))
    | XO p ->
      (match y with
       | XI q -> pred_double (pos_sub p q)
       | XO q -> double (pos_sub p q)
       | XH -> Zpos (Pos.pred_double p))
    | XH ->
      (match y with
       | XI q -> Zneg (XO q)
       | XO q -> Zneg (Pos.pred_double q)
       | XH -> Z0)

  (** val add : z -> z -> z **)

  let add x y =
    match x with
    | Z0 -> y
    | Zpos x' ->
      (match y with
       | Z0 -> x
       | Zpos y' -> Zpos (Pos.add x' y')
       | Zneg y' -> pos_sub x' y')
    | Zneg x' ->
      (match y with
       | Z0 -> x
       | Zpos y' -> pos_sub y' x'
       | Zneg y' -> Zneg (Pos.add x' y'))

  (** val opp : z -> z **)

  let opp = function
  | Z0 -> Z0
  | Zpos x0 -> Zneg x0
  | Zneg x0 -> Zpos x0

  (** val sub : z -> z -> z **)

  let sub m n0 =
    add m (opp n0)

  (** val mul : z -> z -> z **)

  let mul x y =
    match x with
    | Z0 -> Z0
    | Zpos x' ->
      (match y with
       | Z0 -> Z0
       | Zpos y' -> Zpos (Pos.mul x' y')
       | Zneg y' -> Zneg (Pos.mul x' y'))
    | Zneg x' ->
      (match y with
       | Z0 -> Z0
       | Zpos y' -> Zneg (Pos.mul x' y')
       | Zneg y' -> Zpos (Pos.mul x' y'))

  (** val pow_pos : z -> positive -> z **)

  let pow_pos z0 =
    Pos.iter (mul z0) (Zpos XH)

  (** val pow : z -> z -> z **)

  let pow x = function
  | Z0 -> Zpos XH
  | Zpos p -> pow_pos x p
  | Zneg _ -> Z0

  (** val compare : z -> z -> comparison **)

  let compare x y =
    match x with
    | Z0 -> (match y with
             | Z0 -> Eq
             | Zpos _ -> Lt
             | Zneg _ -> Gt)
    | Zpos x' -> (match y with
                  | Zpos y' -> Pos.compare x' y'
                  | _ -> Gt)
    | Zneg x' ->
      (match y with
       | Zneg y' -> compOpp (Pos.compare x' y')
       | _ -> Lt)

  (** val leb : z -> z -> bool **)

  let leb x y =
    match compare x y with
    | Gt -> false
    | _ -> true

  (** val ltb : z -> z -> bool **)

  let ltb x y =
    match compare x y with
    | Lt -> true
    | _ -> false

  (** val eqb : z -> z -> bool **)

  let eqb x y =
    match x with
    | Z0 -> (match y with
             | Z0 -> true
             | _ -> false)
    | Zpos p -> (match y with
                 | Zpos q -> Pos.eqb p q
                 | _ -> false)
    | Zneg p -> (match y with
                 | Zneg q -> Pos.eqb p q
                 | _ -> false)

  (** val to_N : z -> n **)

  let to_N = function
  | Zpos p -> Npos p
  | _ -> N0

  (** val of_nat : nat -> z **)

  let of_nat = function
  | O -> Z0
  | S n1 -> Zpos (Pos.of_succ_nat n1)

  (** val of_N : n -> z **)

  let of_N = function
  | N0 -> Z0
  | Npos p -> Zpos p

  (** val pos_div_eucl : positive -> z -> z * z **)

  let rec pos_div_eucl a b =
    match a with
    | XI a' ->
      let (q, r) = pos_div_eucl a' b in
      let r' = add (mul (Zpos (XO XH)) r) (Zpos XH) in
      if ltb r' b
      then ((mul (Zpos (XO XH)) q), r')
      else ((add (mul (Zpos (XO XH)) q) (Zpos XH)), (sub r' b))
    | XO a' ->
      let (q, r) = pos_div_eucl a' b in
      let r' = mul (Zpos (XO XH)) r in
      if ltb r' b
      then ((mul (Zpos (XO XH)) q), r')
      else ((add (mul (Zpos (XO XH)) q) (Zpos XH)), (sub r' b))
    | XH -> if leb (Zpos (XO XH)) b then (Z0, (Zpos XH)) else ((Zpos XH), Z0)

  (** val div_eucl : z -> z -> z * z **)

  let div_eucl a b =
    match a with
    | Z0 -> (Z0, Z0)
    | Zpos a' ->
      (match b with
       | Z0 -> (Z0, a)
       | Zpos _ -> pos_div_eucl a' b
       | Zneg b' ->
         let (q, r) = pos_div_eucl a' (Zpos b') in
         (match r with
          | Z0 -> ((opp q), Z0)
          | _ -> ((opp (add q (Zpos XH))), (add b r))))
    | Zneg a' ->
      (match b with
       | Z0 -> (Z0, a)
       | Zpos _ ->
         let (q, r) = pos_div_eucl a' b in
         (match r with
          | Z0 -> ((opp q), Z0)
          | _ -> ((opp (add q (Zpos XH))), (sub b r)))
       | Zneg b' -> let (q, r) = pos_div_eucl a' (Zpos b') in (q, (opp r)))

  (** val div : z -> z -> z **)

  let div a b =
    let (q, _) = div_eucl a b in q

  (** val modulo : z -> z -> z **)

  let modulo a b =
    let (_, r) = div_eucl a b in r
 end

(** val map : ('a1 -> 'a2) -> 'a1 list -> 'a2 list **)

let rec map f = function
| [] -> []
| a :: t -> (f a) :: (map f t)

(** val fold_right : ('a2 -> 'a1 -> 'a1) -> 'a1 -> 'a2 list -> 'a1 **)

let rec fold_right f a0 = function
| [] -> a0
| b :: t -> f b (fold_right f a0 t)

(** val existsb : ('a1 -> bool) -> 'a1 list -> bool **)

let rec existsb f = function
| [] -> false
| a :: l0 -> (||) (f a) (existsb f l0)

(** val forallb : ('a1 -> bool) -> 'a1 list -> bool **)

let rec forallb f = function
| [] -> true
| a :: l0 -> (&&) (f a) (forallb f l0)

(** val combine : 'a1 list -> 'a2 list -> ('a1 * 'a2) list **)

let rec combine l l' =
  match l with
  | [] -> []
  | x :: tl ->
    (match l' with
     | [] -> []
     | y :: tl' -> (x, y) :: (combine tl tl'))

(** val firstn : nat -> 'a1 list -> 'a1 list **)

let rec firstn n0 l =
  match n0 with
  | O -> []
  | S n1 -> (match l with
             | [] -> []
             | a :: l0 -> a :: (firstn n1 l0))

(** val ex_keep :
    (((((nat * n) * z) * z list) * z option) * positive) * bool **)

let ex_keep =
  ((((((O, N0), Z0), []), None), XH), true)

(** val min_int : z -> bool -> z **)

let min_int w = function
| true -> Z.opp (Z.pow (Zpos (XO XH)) (Z.sub w (Zpos XH)))
| false -> Z0

(** val max_int : z -> bool -> z **)

let max_int w = function
| true -> Z.sub (Z.pow (Zpos (XO XH)) (Z.sub w (Zpos XH))) (Zpos XH)
| false -> Z.sub (Z.pow (Zpos (XO XH)) w) (Zpos XH)

(** val in_rangeb : z -> bool -> z -> bool **)

let in_rangeb w s v =
  (&&) (Z.leb (min_int w s) v) (Z.leb v (max_int w s))

(** val is_cont : z -> bool **)

let is_cont b =
  (&&) (Z.leb (Zpos (XO (XO (XO (XO (XO (XO (XO XH)))))))) b)
    (Z.leb b (Zpos (XI (XI (XI (XI (XI (XI (XO XH)))))))))

(** val is_surrogate : z -> bool **)

let is_surrogate cp =
  (&&)
    (Z.leb (Zpos (XO (XO (XO (XO (XO (XO (XO (XO (XO (XO (XO (XI (XI (XO (XI
      XH)))))))))))))))) cp)
    (Z.leb cp (Zpos (XI (XI (XI (XI (XI (XI (XI (XI (XI (XI (XI (XI (XI (XO
      (XI XH)))))))))))))))))

(** val utf8_decode : z list -> z list option **)

let rec utf8_decode = function
| [] -> Some []
| b0 :: r ->
  if (||) (Z.ltb b0 Z0)
       (Z.ltb (Zpos (XI (XI (XI (XI (XI (XI (XI XH)))))))) b0)
  then None
  else if Z.ltb b0 (Zpos (XO (XO (XO (XO (XO (XO (XO XH))))))))
       then option_map (fun x -> b0 :: x) (utf8_decode r)
       else if Z.ltb b0 (Zpos (XO (XI (XO (XO (XO (XO (XI XH))))))))
            then None
            else if Z.ltb b0 (Zpos (XO (XO (XO (XO (XO (XI (XI XH))))))))
                 then (match r with
                       | [] -> None
                       | b1 :: r1 ->
                         if is_cont b1
                         then option_map (fun x ->
                                (Z.add
                                  (Z.mul
                                    (Z.sub b0 (Zpos (XO (XO (XO (XO (XO (XO
                                      (XI XH))))))))) (Zpos (XO (XO (XO (XO
                                    (XO (XO XH))))))))
                                  (Z.sub b1 (Zpos (XO (XO (XO (XO (XO (XO (XO
                                    XH)))))))))) :: x) (utf8_decode r1)
                         else None)
                 else if Z.ltb b0 (Zpos (XO (XO (XO (XO (XI (XI (XI XH))))))))
                      then (match r with
                            | [] -> None
                            | b1 :: l0 ->
                              (match l0 with
                               | [] -> None
                               | b2 :: r2 ->
                                 let cp =
                                   Z.add
                                     (Z.add
                                       (Z.mul
                                         (Z.sub b0 (Zpos (XO (XO (XO (XO (XO
                                           (XI (XI XH))))))))) (Zpos (XO (XO
                                         (XO (XO (XO (XO (XO (XO (XO (XO (XO
                                         (XO XH))))))))))))))
                                       (Z.mul
                                         (Z.sub b1 (Zpos (XO (XO (XO (XO (XO
                                           (XO (XO XH))))))))) (Zpos (XO (XO
                                         (XO (XO (XO (XO XH)))))))))
                                     (Z.sub b2 (Zpos (XO (XO (XO (XO (XO (XO
                                       (XO XH)))))))))
                                 in
                                 if (&&)
                                      ((&&) ((&&) (is_cont b1) (is_cont b2))
                                        (Z.leb (Zpos (XO (XO (XO (XO (XO (XO
                                          (XO (XO (XO (XO (XO XH))))))))))))
                                          cp)) (negb (is_surrogate cp))
                                 then option_map (fun x -> cp :: x)
                                        (utf8_decode r2)
                                 else None))
                      else if Z.ltb b0 (Zpos (XI (XO (XI (XO (XI (XI (XI
                                XH))))))))
                           then (match r with
                                 | [] -> None
                                 | b1 :: l0 ->
                                   (match l0 with
                                    | [] -> None
                                    | b2 :: l1 ->
                                      (match l1 with
                                       | [] -> None
                                       | b3 :: r3 ->
                                         let cp =
                                           Z.add
                                             (Z.add
                                               (Z.add
                                                 (Z.mul
                                                   (Z.sub b0 (Zpos (XO (XO
                                                     (XO (XO (XI (XI (XI
                                                     XH))))))))) (Zpos (XO
                                                   (XO (XO (XO (XO (XO (XO
                                                   (XO (XO (XO (XO (XO (XO
                                                   (XO (XO (XO (XO (XO
                                                   XH))))))))))))))))))))
                                                 (Z.mul
                                                   (Z.sub b1 (Zpos (XO (XO
                                                     (XO (XO (XO (XO (XO
                                                     XH))))))))) (Zpos (XO
                                                   (XO (XO (XO (XO (XO (XO
                                                   (XO (XO (XO (XO (XO
                                                   XH)))))))))))))))
                                               (Z.mul
                                                 (Z.sub b2 (Zpos (XO (XO (XO
                                                   (XO (XO (XO (XO XH)))))))))
                                                 (Zpos (XO (XO (XO (XO (XO
                                                 (XO XH)))))))))
                                             (Z.sub b3 (Zpos (XO (XO (XO (XO
                                               (XO (XO (XO XH)))))))))
                                         in
                                         if (&&)
                                              ((&&)
                                                ((&&)
                                                  ((&&) (is_cont b1)
                                                    (is_cont b2))
                                                  (is_cont b3))
                                                (Z.leb (Zpos (XO (XO (XO (XO
                                                  (XO (XO (XO (XO (XO (XO (XO
                                                  (XO (XO (XO (XO (XO
                                                  XH))))))))))))))))) cp))
                                              (Z.leb cp (Zpos (XI (XI (XI (XI
                                                (XI (XI (XI (XI (XI (XI (XI
                                                (XI (XI (XI (XI (XI (XO (XO
                                                (XO (XO
                                                XH))))))))))))))))))))))
                                         then option_map (fun x -> cp :: x)
                                                (utf8_decode r3)
                                         else None)))
                           else None

(** val utf8_ref : z -> z list **)

let utf8_ref cp =
  if Z.ltb cp (Zpos (XO (XO (XO (XO (XO (XO (XO XH))))))))
  then cp :: []
  else if Z.ltb cp (Zpos (XO (XO (XO (XO (XO (XO (XO (XO (XO (XO (XO
            XH))))))))))))
       then (Z.add (Zpos (XO (XO (XO (XO (XO (XO (XI XH))))))))
              (Z.div cp (Zpos (XO (XO (XO (XO (XO (XO XH))))))))) :: (
              (Z.add (Zpos (XO (XO (XO (XO (XO (XO (XO XH))))))))
                (Z.modulo cp (Zpos (XO (XO (XO (XO (XO (XO XH))))))))) :: [])
       else if Z.ltb cp (Zpos (XO (XO (XO (XO (XO (XO (XO (XO (XO (XO (XO (XO
                 (XO (XO (XO (XO XH)))))))))))))))))
            then (Z.add (Zpos (XO (XO (XO (XO (XO (XI (XI XH))))))))
                   (Z.div cp (Zpos (XO (XO (XO (XO (XO (XO (XO (XO (XO (XO
                     (XO (XO XH))))))))))))))) :: ((Z.add (Zpos (XO (XO (XO
                                                     (XO (XO (XO (XO
                                                     XH))))))))
                                                     (Z.modulo
                                                       (Z.div cp (Zpos (XO
                                                         (XO (XO (XO (XO (XO
                                                         XH)))))))) (Zpos (XO
                                                       (XO (XO (XO (XO (XO
                                                       XH))))))))) :: (
                   (Z.add (Zpos (XO (XO (XO (XO (XO (XO (XO XH))))))))
                     (Z.modulo cp (Zpos (XO (XO (XO (XO (XO (XO XH))))))))) :: []))
            else (Z.add (Zpos (XO (XO (XO (XO (XI (XI (XI XH))))))))
                   (Z.div cp (Zpos (XO (XO (XO (XO (XO (XO (XO (XO (XO (XO
                     (XO (XO (XO (XO (XO (XO (XO (XO XH))))))))))))))))))))) :: (
                   (Z.add (Zpos (XO (XO (XO (XO (XO (XO (XO XH))))))))
                     (Z.modulo
                       (Z.div cp (Zpos (XO (XO (XO (XO (XO (XO (XO (XO (XO
                         (XO (XO (XO XH)))))))))))))) (Zpos (XO (XO (XO (XO
                       (XO (XO XH))))))))) :: ((Z.add (Zpos (XO (XO (XO (XO
                                                 (XO (XO (XO XH))))))))
                                                 (Z.modulo
                                                   (Z.div cp (Zpos (XO (XO
                                                     (XO (XO (XO (XO
                                                     XH)))))))) (Zpos (XO (XO
                                                   (XO (XO (XO (XO XH))))))))) :: (
                   (Z.add (Zpos (XO (XO (XO (XO (XO (XO (XO XH))))))))
                     (Z.modulo cp (Zpos (XO (XO (XO (XO (XO (XO XH))))))))) :: [])))

type exc =
| TypeError
| ValueError
| OverflowError
| AttributeError
| UnicodeEncodeError
| UnicodeDecodeError
| SystemError
| IndexTooMany
| IndexNotEnough
| Unmodelled

type 'a res =
| Ok of 'a
| Err of exc

(** val bind : 'a1 res -> ('a1 -> 'a2 res) -> 'a2 res **)

let bind r f =
  match r with
  | Ok a -> f a
  | Err e -> Err e

(** val rmap : ('a1 -> 'a2) -> 'a1 res -> 'a2 res **)

let rmap f = function
| Ok a -> Ok (f a)
| Err e -> Err e

type pyval =
| PNone
| PObj
| PBool of bool
| PInt of z
| PFloat of z
| PBytes of n list
| PByteArray of n list
| PStr of n list
| PList of pyval list
| PTuple of pyval list
| PSet of pyval list
| PDict of (pyval * pyval) list
| PIter of pyval list

type cval =
| CInt of z
| CDouble of z
| CBytes of n list
| CSeq of cval list
| CSet of cval list
| CMap of (cval * cval) list
| CUnion of nat * cval

(** val mapM : ('a1 -> 'a2 res) -> 'a1 list -> 'a2 list res **)

let rec mapM f = function
| [] -> Ok []
| x :: r ->
  (match f x with
   | Ok y -> (match mapM f r with
              | Ok ys -> Ok (y :: ys)
              | Err e -> Err e)
   | Err e -> Err e)

(** val list_eqb : ('a1 -> 'a1 -> bool) -> 'a1 list -> 'a1 list -> bool **)

let rec list_eqb eqb0 a b =
  match a with
  | [] -> (match b with
           | [] -> true
           | _ :: _ -> false)
  | x :: xs ->
    (match b with
     | [] -> false
     | y :: ys -> (&&) (eqb0 x y) (list_eqb eqb0 xs ys))

(** val iter_items : pyval -> pyval list res **)

let iter_items = function
| PBytes b -> Ok (map (fun x -> PInt (Z.of_N x)) b)
| PByteArray b -> Ok (map (fun x -> PInt (Z.of_N x)) b)
| PStr s -> Ok (map (fun c -> PStr (c :: [])) s)
| PList l -> Ok l
| PTuple l -> Ok l
| PSet l -> Ok l
| PDict kv -> Ok (map fst kv)
| PIter l -> Ok l
| _ -> Err TypeError

(** val py_len : pyval -> nat option **)

let py_len = function
| PBytes b -> Some (length b)
| PByteArray b -> Some (length b)
| PStr s -> Some (length s)
| PList l -> Some (length l)
| PTuple l -> Some (length l)
| PSet l -> Some (length l)
| PDict kv -> Some (length kv)
| _ -> None

(** val seq_items : pyval -> pyval list res **)

let seq_items = function
| PBytes b -> Ok (map (fun x -> PInt (Z.of_N x)) b)
| PByteArray b -> Ok (map (fun x -> PInt (Z.of_N x)) b)
| PStr s -> Ok (map (fun c -> PStr (c :: [])) s)
| PList l -> Ok l
| PTuple l -> Ok l
| _ -> Err TypeError

(** val mapping_check : pyval -> bool **)

let mapping_check = function
| PBytes _ -> true
| PByteArray _ -> true
| PStr _ -> true
| PList _ -> true
| PTuple _ -> true
| PDict _ -> true
| _ -> false

(** val seq_from_py : (pyval -> 'a1 res) -> pyval -> 'a1 list res **)

let seq_from_py conv v =
  bind (iter_items v) (mapM conv)

(** val set_insert : ('a1 -> 'a1 -> bool) -> 'a1 -> 'a1 list -> 'a1 list **)

let set_insert eqb0 x acc =
  if existsb (eqb0 x) acc then acc else app acc (x :: [])

(** val set_loop :
    (pyval -> 'a1 res) -> ('a1 -> 'a1 -> bool) -> pyval list -> 'a1 list ->
    'a1 list res **)

let rec set_loop conv eqb0 items acc =
  match items with
  | [] -> Ok acc
  | it :: r ->
    (match conv it with
     | Ok x -> set_loop conv eqb0 r (set_insert eqb0 x acc)
     | Err e -> Err e)

(** val set_from_py :
    (pyval -> 'a1 res) -> ('a1 -> 'a1 -> bool) -> pyval -> 'a1 list res **)

let set_from_py conv eqb0 v =
  bind (iter_items v) (fun items -> set_loop conv eqb0 items [])

(** val dict_items : pyval -> (pyval * pyval) list res **)

let dict_items = function
| PDict kv -> Ok kv
| _ -> Err AttributeError

(** val map_insert :
    ('a1 -> 'a1 -> bool) -> 'a1 -> 'a2 -> ('a1 * 'a2) list -> ('a1 * 'a2) list **)

let map_insert eqb0 k y acc =
  if existsb (fun p -> eqb0 k (fst p)) acc
  then acc
  else app acc ((k, y) :: [])

(** val map_loop :
    (pyval -> 'a1 res) -> (pyval -> 'a2 res) -> ('a1 -> 'a1 -> bool) ->
    (pyval * pyval) list -> ('a1 * 'a2) list -> ('a1 * 'a2) list res **)

let rec map_loop conv convY eqb0 kvs acc =
  match kvs with
  | [] -> Ok acc
  | p :: r ->
    let (k, v) = p in
    (match conv k with
     | Ok ck ->
       (match convY v with
        | Ok cv -> map_loop conv convY eqb0 r (map_insert eqb0 ck cv acc)
        | Err e -> Err e)
     | Err e -> Err e)

(** val map_from_py :
    (pyval -> 'a1 res) -> (pyval -> 'a2 res) -> ('a1 -> 'a1 -> bool) -> pyval
    -> ('a1 * 'a2) list res **)

let map_from_py conv convY eqb0 v =
  bind (dict_items v) (fun kvs -> map_loop conv convY eqb0 kvs [])

(** val unpack2 : pyval -> (pyval * pyval) res **)

let unpack2 v =
  match iter_items v with
  | Ok a0 ->
    (match a0 with
     | [] -> Err ValueError
     | a :: l ->
       (match l with
        | [] -> Err ValueError
        | b :: l0 ->
          (match l0 with
           | [] -> Ok (a, b)
           | _ :: _ -> Err ValueError)))
  | Err e -> Err e

(** val pair_from_py :
    (pyval -> 'a1 res) -> (pyval -> 'a2 res) -> pyval -> ('a1 * 'a2) res **)

let pair_from_py conv convY v =
  match unpack2 v with
  | Ok a0 ->
    let (a, b) = a0 in
    (match conv a with
     | Ok x -> (match convY b with
                | Ok y -> Ok (x, y)
                | Err e -> Err e)
     | Err e -> Err e)
  | Err e -> Err e

(** val arr_loop : (pyval -> 'a1 res) -> nat -> pyval list -> 'a1 list res **)

let rec arr_loop conv n0 = function
| [] -> (match n0 with
         | O -> Ok []
         | S _ -> Err IndexNotEnough)
| it :: r ->
  (match n0 with
   | O -> Err IndexTooMany
   | S m ->
     (match conv it with
      | Ok x ->
        (match arr_loop conv m r with
         | Ok xs -> Ok (x :: xs)
         | Err e -> Err e)
      | Err e -> Err e))

(** val arr_run : (pyval -> 'a1 res) -> nat -> pyval -> 'a1 list res **)

let arr_run conv n0 v =
  match iter_items v with
  | Ok items ->
    (match items with
     | [] -> (match n0 with
              | O -> Ok []
              | S _ -> Err IndexTooMany)
     | _ :: _ -> arr_loop conv n0 items)
  | Err e -> Err e

(** val arr_from_py : (pyval -> 'a1 res) -> nat -> pyval -> 'a1 list res **)

let arr_from_py conv n0 v =
  match py_len v with
  | Some m ->
    if Nat.eqb m n0
    then arr_run conv n0 v
    else if Nat.leb n0 m then Err IndexTooMany else Err IndexNotEnough
  | None -> arr_run conv n0 v

(** val hashable : pyval -> bool **)

let rec hashable = function
| PByteArray _ -> false
| PList _ -> false
| PTuple l -> forallb hashable l
| PSet _ -> false
| PDict _ -> false
| PIter _ -> false
| _ -> true

(** val pyeqb : pyval -> pyval -> bool **)

let rec pyeqb a b =
  match a with
  | PNone -> (match b with
              | PNone -> true
              | _ -> false)
  | PBool x -> (match b with
                | PBool y -> eqb x y
                | _ -> false)
  | PInt x -> (match b with
               | PInt y -> Z.eqb x y
               | _ -> false)
  | PFloat x -> (match b with
                 | PFloat y -> Z.eqb x y
                 | _ -> false)
  | PBytes x -> (match b with
                 | PBytes y -> list_eqb N.eqb x y
                 | _ -> false)
  | PStr x -> (match b with
               | PStr y -> list_eqb N.eqb x y
               | _ -> false)
  | PTuple x ->
    (match b with
     | PTuple y ->
       let rec go x0 y0 =
         match x0 with
         | [] -> (match y0 with
                  | [] -> true
                  | _ :: _ -> false)
         | u :: us ->
           (match y0 with
            | [] -> false
            | w :: ws -> (&&) (pyeqb u w) (go us ws))
       in go x y
     | _ -> false)
  | _ -> false

(** val pyset_add : pyval -> pyval list -> pyval list res **)

let pyset_add v acc =
  if hashable v
  then Ok (if existsb (pyeqb v) acc then acc else app acc (v :: []))
  else Err TypeError

(** val dict_set :
    pyval -> pyval -> (pyval * pyval) list -> (pyval * pyval) list **)

let rec dict_set k v = function
| [] -> (k, v) :: []
| p :: r ->
  let (k', v') = p in
  if pyeqb k k' then (k', v) :: r else (k', v') :: (dict_set k v r)

(** val pyset_loop :
    ('a1 -> pyval res) -> 'a1 list -> pyval list -> pyval list res **)

let rec pyset_loop conv l acc =
  match l with
  | [] -> Ok acc
  | x :: r ->
    (match conv x with
     | Ok v ->
       (match pyset_add v acc with
        | Ok acc' -> pyset_loop conv r acc'
        | Err e -> Err e)
     | Err e -> Err e)

(** val pydict_loop :
    ('a1 -> pyval res) -> ('a2 -> pyval res) -> ('a1 * 'a2) list ->
    (pyval * pyval) list -> (pyval * pyval) list res **)

let rec pydict_loop conv convY l acc =
  match l with
  | [] -> Ok acc
  | p :: r ->
    let (k, y) = p in
    (match convY y with
     | Ok pv ->
       (match conv k with
        | Ok pk ->
          if hashable pk
          then pydict_loop conv convY r (dict_set pk pv acc)
          else Err TypeError
        | Err e -> Err e)
     | Err e -> Err e)

type stype =
| SBytes
| SByteArray
| SUnicode

type senc =
| ENone
| EAscii
| EUtf8
| ELatin1

type scfg = { sc_type : stype; sc_enc : senc }

(** val zs : n list -> z list **)

let zs l =
  map Z.of_N l

(** val ns : z list -> n list **)

let ns l =
  map Z.to_N l

(** val is_surrogate0 : n -> bool **)

let is_surrogate0 c =
  (&&)
    (N.leb (Npos (XO (XO (XO (XO (XO (XO (XO (XO (XO (XO (XO (XI (XI (XO (XI
      XH)))))))))))))))) c)
    (N.leb c (Npos (XI (XI (XI (XI (XI (XI (XI (XI (XI (XI (XI (XI (XI (XO
      (XI XH)))))))))))))))))

(** val encodable : n -> bool **)

let encodable c =
  (&&)
    (N.ltb c (Npos (XO (XO (XO (XO (XO (XO (XO (XO (XO (XO (XO (XO (XO (XO
      (XO (XO (XI (XO (XO (XO XH))))))))))))))))))))))
    (negb (is_surrogate0 c))

(** val utf8_enc1 : n -> n list option **)

let utf8_enc1 c =
  if encodable c then Some (ns (utf8_ref (Z.of_N c))) else None

(** val utf8_encode : n list -> n list res **)

let rec utf8_encode = function
| [] -> Ok []
| c :: r ->
  (match utf8_enc1 c with
   | Some bs ->
     (match utf8_encode r with
      | Ok t -> Ok (app bs t)
      | Err e -> Err e)
   | None -> Err UnicodeEncodeError)

(** val utf8_decode0 : n list -> n list res **)

let utf8_decode0 b =
  match utf8_decode (zs b) with
  | Some l -> Ok (ns l)
  | None -> Err UnicodeDecodeError

(** val all_ascii : n list -> bool **)

let all_ascii s =
  forallb (fun c -> N.ltb c (Npos (XO (XO (XO (XO (XO (XO (XO XH))))))))) s

(** val maxchar : n list -> n **)

let maxchar s =
  fold_right N.max N0 s

type ukind =
| K1BYTE
| K2BYTE
| K4BYTE

(** val kind_of : n list -> ukind **)

let kind_of s =
  if N.ltb (maxchar s) (Npos (XO (XO (XO (XO (XO (XO (XO (XO XH)))))))))
  then K1BYTE
  else if N.ltb (maxchar s) (Npos (XO (XO (XO (XO (XO (XO (XO (XO (XO (XO (XO
            (XO (XO (XO (XO (XO XH)))))))))))))))))
       then K2BYTE
       else K4BYTE

(** val is_ascii : n list -> bool **)

let is_ascii s =
  N.ltb (maxchar s) (Npos (XO (XO (XO (XO (XO (XO (XO XH))))))))

type codec = { cd_enc : (n list -> n list res);
               cd_dec : (n list -> n list res) }

(** val ascii_codec : codec **)

let ascii_codec =
  { cd_enc = (fun s -> if all_ascii s then Ok s else Err UnicodeEncodeError);
    cd_dec = (fun b -> if all_ascii b then Ok b else Err UnicodeDecodeError) }

(** val utf8_codec : codec **)

let utf8_codec =
  { cd_enc = utf8_encode; cd_dec = utf8_decode0 }

(** val str_accepts_unicode : senc -> bool **)

let str_accepts_unicode = function
| ENone -> false
| ELatin1 -> false
| _ -> true

(** val encode_with : senc -> n list -> n list res **)

let encode_with e s =
  match e with
  | EAscii -> ascii_codec.cd_enc s
  | EUtf8 -> utf8_codec.cd_enc s
  | _ -> Err TypeError

(** val py_as_utf8 : n list -> n list res **)

let py_as_utf8 =
  utf8_encode

type api =
| Full
| Limited of bool

(** val unicode_asas : api -> senc -> n list -> (n list * nat) res **)

let unicode_asas a e s =
  match e with
  | EAscii ->
    (match a with
     | Full ->
       if is_ascii s
       then rmap (fun b -> (b, (length s))) (py_as_utf8 s)
       else Err UnicodeEncodeError
     | Limited checked ->
       (match py_as_utf8 s with
        | Ok b ->
          if Nat.eqb (length s) (length b)
          then Ok (b, (length b))
          else Err UnicodeEncodeError
        | Err x -> if checked then Err x else Err SystemError))
  | EUtf8 -> rmap (fun b -> (b, (length b))) (py_as_utf8 s)
  | _ -> Err TypeError

(** val obj_asas : api -> scfg -> pyval -> (n list * nat) res **)

let obj_asas a sc = function
| PBytes b -> Ok (b, (length b))
| PByteArray b -> Ok (b, (length b))
| PStr s ->
  if str_accepts_unicode sc.sc_enc
  then unicode_asas a sc.sc_enc s
  else Err TypeError
| _ -> Err TypeError

(** val sized : (n list * nat) -> n list res **)

let sized p =
  if Nat.leb (snd p) (length (fst p))
  then Ok (firstn (snd p) (fst p))
  else Err Unmodelled

(** val as_string_and_size_l : api -> scfg -> pyval -> n list res **)

let as_string_and_size_l a sc v =
  bind (obj_asas a sc v) sized

(** val decode_with : senc -> n list -> n list res **)

let decode_with e b =
  match e with
  | ENone -> Err Unmodelled
  | EAscii -> ascii_codec.cd_dec b
  | EUtf8 -> utf8_codec.cd_dec b
  | ELatin1 -> Ok b

(** val from_string_and_size : scfg -> n list -> pyval res **)

let from_string_and_size sc b =
  match sc.sc_type with
  | SBytes -> Ok (PBytes b)
  | SByteArray -> Ok (PByteArray b)
  | SUnicode -> rmap (fun x -> PStr x) (decode_with sc.sc_enc b)

(** val string_from_py_l : api -> scfg -> pyval -> cval res **)

let string_from_py_l a sc v =
  rmap (fun x -> CBytes x) (as_string_and_size_l a sc v)

(** val string_from_py : scfg -> pyval -> cval res **)

let string_from_py =
  string_from_py_l Full

(** val string_to_py : scfg -> cval -> pyval res **)

let string_to_py sc = function
| CBytes b -> from_string_and_size sc b
| _ -> Err Unmodelled

(** val until_nul : n list -> n list **)

let rec until_nul = function
| [] -> []
| x :: r -> if N.eqb x N0 then [] else x :: (until_nul r)

(** val charp_from_py_l : api -> scfg -> pyval -> cval res **)

let charp_from_py_l a sc v =
  rmap (fun p -> CBytes (fst p)) (obj_asas a sc v)

(** val charp_from_py : scfg -> pyval -> cval res **)

let charp_from_py =
  charp_from_py_l Full

(** val charp_to_py : scfg -> cval -> pyval res **)

let charp_to_py sc = function
| CBytes b -> from_string_and_size sc (until_nul b)
| _ -> Err Unmodelled

(** val charp_roundtrip_l : api -> scfg -> pyval -> pyval res **)

let charp_roundtrip_l a sc v =
  bind (charp_from_py_l a sc v) (charp_to_py sc)

(** val string_roundtrip_l : api -> scfg -> pyval -> pyval res **)

let string_roundtrip_l a sc v =
  bind (string_from_py_l a sc v) (string_to_py sc)

(** val charp_roundtrip : scfg -> pyval -> pyval res **)

let charp_roundtrip =
  charp_roundtrip_l Full

(** val string_roundtrip : scfg -> pyval -> pyval res **)

let string_roundtrip =
  string_roundtrip_l Full

(** val charp_strlen_l : api -> scfg -> pyval -> pyval res **)

let charp_strlen_l a sc v =
  rmap (fun p -> PInt (Z.of_nat (length (until_nul (fst p)))))
    (obj_asas a sc v)

(** val string_size_l : api -> scfg -> pyval -> pyval res **)

let string_size_l a sc v =
  rmap (fun b -> PInt (Z.of_nat (length b))) (as_string_and_size_l a sc v)

type leaf =
| LInt of z * bool
| LDouble
| LString
| LCharp

type ctype =
| TLeaf of leaf
| TVector of ctype
| TCppList of ctype
| TSet of ctype
| TUSet of ctype
| TMap of ctype * ctype
| TUMap of ctype * ctype
| TPair of ctype * ctype
| TArray of nat * ctype
| TStruct of ctype
| TUnion of ctype
| TCTuple of ctype
| FNil
| FCons of n list * ctype * ctype

(** val field_names : ctype -> n list list **)

let rec field_names = function
| FCons (n0, _, r) -> n0 :: (field_names r)
| _ -> []

(** val nfields : ctype -> nat **)

let rec nfields = function
| FCons (_, _, r) -> S (nfields r)
| _ -> O

(** val rigid : ctype -> bool **)

let rec rigid = function
| TLeaf _ -> true
| TVector e -> rigid e
| TCppList e -> rigid e
| TPair (a, b) -> (&&) (rigid a) (rigid b)
| TArray (_, e) -> rigid e
| TStruct fs -> rigid fs
| TCTuple fs -> rigid fs
| FNil -> true
| FCons (_, ft, r) -> (&&) (rigid ft) (rigid r)
| _ -> false

(** val ceqb : cval -> cval -> bool **)

let rec ceqb a b =
  match a with
  | CInt x -> (match b with
               | CInt y -> Z.eqb x y
               | _ -> false)
  | CDouble x -> (match b with
                  | CDouble y -> Z.eqb x y
                  | _ -> false)
  | CBytes x -> (match b with
                 | CBytes y -> list_eqb N.eqb x y
                 | _ -> false)
  | CSeq x ->
    (match b with
     | CSeq y ->
       let rec go x0 y0 =
         match x0 with
         | [] -> (match y0 with
                  | [] -> true
                  | _ :: _ -> false)
         | u :: us ->
           (match y0 with
            | [] -> false
            | w :: ws -> (&&) (ceqb u w) (go us ws))
       in go x y
     | _ -> false)
  | _ -> false

(** val int_from_py : z -> bool -> pyval -> cval res **)

let int_from_py w sg = function
| PObj -> Err Unmodelled
| PBool b -> Ok (CInt (if b then Zpos XH else Z0))
| PInt z0 -> if in_rangeb w sg z0 then Ok (CInt z0) else Err OverflowError
| PFloat _ -> Err Unmodelled
| _ -> Err TypeError

(** val double_from_py : pyval -> cval res **)

let double_from_py = function
| PObj -> Err Unmodelled
| PBool _ -> Err Unmodelled
| PInt _ -> Err Unmodelled
| PFloat d -> Ok (CDouble d)
| _ -> Err TypeError

(** val leaf_from_py : scfg -> leaf -> pyval -> cval res **)

let leaf_from_py sc l v =
  match l with
  | LInt (w, sg) -> int_from_py w sg v
  | LDouble -> double_from_py v
  | LString -> string_from_py sc v
  | LCharp -> charp_from_py sc v

(** val leaf_to_py : scfg -> leaf -> cval -> pyval res **)

let leaf_to_py sc l c =
  match l with
  | LInt (_, _) ->
    (match c with
     | CInt z0 -> Ok (PInt z0)
     | _ -> Err Unmodelled)
  | LDouble -> (match c with
                | CDouble d -> Ok (PFloat d)
                | _ -> Err Unmodelled)
  | LString -> string_to_py sc c
  | LCharp -> charp_to_py sc c

(** val key_is : n list -> pyval -> bool **)

let key_is name = function
| PStr s -> list_eqb N.eqb s name
| _ -> false

(** val dict_get : n list -> (pyval * pyval) list -> pyval option **)

let rec dict_get name = function
| [] -> None
| p :: r ->
  let (k, v) = p in if key_is name k then Some v else dict_get name r

(** val getitem_str : n list -> pyval -> pyval res **)

let getitem_str name = function
| PDict d ->
  (match dict_get name d with
   | Some x -> Ok x
   | None -> Err ValueError)
| _ -> Err TypeError

(** val lookup_all : n list list -> pyval -> pyval list res **)

let lookup_all names v =
  mapM (fun n0 -> getitem_str n0 v) names

(** val as_cseq : cval res -> cval list res **)

let as_cseq = function
| Ok a -> (match a with
           | CSeq l -> Ok l
           | _ -> Err Unmodelled)
| Err e -> Err e

(** val from_py : scfg -> ctype -> pyval -> cval res **)

let rec from_py sc t v =
  match t with
  | TLeaf l -> leaf_from_py sc l v
  | TVector e -> rmap (fun x -> CSeq x) (seq_from_py (from_py sc e) v)
  | TCppList e -> rmap (fun x -> CSeq x) (seq_from_py (from_py sc e) v)
  | TSet e ->
    if rigid e
    then rmap (fun x -> CSet x) (set_from_py (from_py sc e) ceqb v)
    else Err Unmodelled
  | TUSet e ->
    if rigid e
    then rmap (fun x -> CSet x) (set_from_py (from_py sc e) ceqb v)
    else Err Unmodelled
  | TMap (k, e) ->
    if rigid k
    then rmap (fun x -> CMap x)
           (map_from_py (from_py sc k) (from_py sc e) ceqb v)
    else Err Unmodelled
  | TUMap (k, e) ->
    if rigid k
    then rmap (fun x -> CMap x)
           (map_from_py (from_py sc k) (from_py sc e) ceqb v)
    else Err Unmodelled
  | TPair (a, b) ->
    rmap (fun p -> CSeq ((fst p) :: ((snd p) :: [])))
      (pair_from_py (from_py sc a) (from_py sc b) v)
  | TArray (n0, e) -> rmap (fun x -> CSeq x) (arr_from_py (from_py sc e) n0 v)
  | TStruct fs ->
    if mapping_check v
    then bind (lookup_all (field_names fs) v) (fun vals ->
           from_py sc fs (PTuple vals))
    else Err TypeError
  | TUnion fs ->
    (match v with
     | PBytes _ -> Err Unmodelled
     | PByteArray _ -> Err Unmodelled
     | PStr _ -> Err Unmodelled
     | PList _ -> Err ValueError
     | PTuple _ -> Err ValueError
     | PDict d ->
       let rec go fs0 idx =
         match fs0 with
         | FCons (n0, ft, r) ->
           (match dict_get n0 d with
            | Some x ->
              (match from_py sc ft x with
               | Ok c ->
                 if Nat.eqb (length d) (S O)
                 then Ok (CUnion (idx, c))
                 else Err ValueError
               | Err e -> Err e)
            | None -> go r (S idx))
         | _ -> Err ValueError
       in go fs O
     | _ -> Err TypeError)
  | TCTuple fs ->
    (match seq_items v with
     | Ok items ->
       if Nat.eqb (length items) (nfields fs)
       then from_py sc fs (PTuple items)
       else Err TypeError
     | Err e -> Err e)
  | FNil ->
    (match v with
     | PTuple l ->
       (match l with
        | [] -> Ok (CSeq [])
        | _ :: _ -> Err Unmodelled)
     | _ -> Err Unmodelled)
  | FCons (_, ft, rest) ->
    (match v with
     | PTuple l ->
       (match l with
        | [] -> Err Unmodelled
        | x :: xs ->
          (match from_py sc ft x with
           | Ok c ->
             rmap (fun cs -> CSeq (c :: cs))
               (as_cseq (from_py sc rest (PTuple xs)))
           | Err e -> Err e))
     | _ -> Err Unmodelled)

(** val as_ptuple : pyval res -> pyval list res **)

let as_ptuple = function
| Ok a -> (match a with
           | PTuple l -> Ok l
           | _ -> Err Unmodelled)
| Err e -> Err e

(** val to_py : scfg -> ctype -> cval -> pyval res **)

let rec to_py sc t c =
  match t with
  | TLeaf l -> leaf_to_py sc l c
  | TVector e ->
    (match c with
     | CSeq l -> rmap (fun x -> PList x) (mapM (to_py sc e) l)
     | _ -> Err Unmodelled)
  | TCppList e ->
    (match c with
     | CSeq l -> rmap (fun x -> PList x) (mapM (to_py sc e) l)
     | _ -> Err Unmodelled)
  | TSet e ->
    (match c with
     | CSet l -> rmap (fun x -> PSet x) (pyset_loop (to_py sc e) l [])
     | _ -> Err Unmodelled)
  | TUSet e ->
    (match c with
     | CSet l -> rmap (fun x -> PSet x) (pyset_loop (to_py sc e) l [])
     | _ -> Err Unmodelled)
  | TMap (k, e) ->
    (match c with
     | CMap kv ->
       rmap (fun x -> PDict x) (pydict_loop (to_py sc k) (to_py sc e) kv [])
     | _ -> Err Unmodelled)
  | TUMap (k, e) ->
    (match c with
     | CMap kv ->
       rmap (fun x -> PDict x) (pydict_loop (to_py sc k) (to_py sc e) kv [])
     | _ -> Err Unmodelled)
  | TPair (a, b) ->
    (match c with
     | CSeq l ->
       (match l with
        | [] -> Err Unmodelled
        | x :: l0 ->
          (match l0 with
           | [] -> Err Unmodelled
           | y :: l1 ->
             (match l1 with
              | [] ->
                bind (to_py sc a x) (fun px ->
                  bind (to_py sc b y) (fun py -> Ok (PTuple
                    (px :: (py :: [])))))
              | _ :: _ -> Err Unmodelled)))
     | _ -> Err Unmodelled)
  | TArray (_, e) ->
    (match c with
     | CSeq l -> rmap (fun x -> PList x) (mapM (to_py sc e) l)
     | _ -> Err Unmodelled)
  | TStruct fs ->
    rmap (fun vals -> PDict
      (combine (map (fun x -> PStr x) (field_names fs)) vals))
      (as_ptuple (to_py sc fs c))
  | TUnion fs ->
    (match c with
     | CUnion (k, x) ->
       let rec go fs0 idx =
         match fs0 with
         | FCons (n0, ft, r) ->
           (match go r (S idx) with
            | Ok a ->
              (match a with
               | PDict d ->
                 if Nat.eqb idx k
                 then rmap (fun p -> PDict (((PStr n0), p) :: d))
                        (to_py sc ft x)
                 else Ok (PDict (((PStr n0), PObj) :: d))
               | _ -> Err Unmodelled)
            | Err e -> Err e)
         | _ -> Ok (PDict [])
       in go fs O
     | _ -> Err Unmodelled)
  | TCTuple fs -> to_py sc fs c
  | FNil ->
    (match c with
     | CSeq l ->
       (match l with
        | [] -> Ok (PTuple [])
        | _ :: _ -> Err Unmodelled)
     | _ -> Err Unmodelled)
  | FCons (_, ft, rest) ->
    (match c with
     | CSeq l ->
       (match l with
        | [] -> Err Unmodelled
        | x :: xs ->
          (match to_py sc ft x with
           | Ok p ->
             rmap (fun ps -> PTuple (p :: ps))
               (as_ptuple (to_py sc rest (CSeq xs)))
           | Err e -> Err e))
     | _ -> Err Unmodelled)

(** val roundtrip : scfg -> ctype -> pyval -> pyval res **)

let roundtrip sc t v =
  bind (from_py sc t v) (to_py sc t)
