
val negb : bool -> bool

type nat =
| O
| S of nat

type ('a, 'b) sum =
| Inl of 'a
| Inr of 'b

val fst : ('a1 * 'a2) -> 'a1

val snd : ('a1 * 'a2) -> 'a2

val length : 'a1 list -> nat

val app : 'a1 list -> 'a1 list -> 'a1 list

type comparison =
| Eq
| Lt
| Gt

val compOpp : comparison -> comparison

type positive =
| XI of positive
| XO of positive
| XH

type n =
| N0
| Npos of positive

type z =
| Z0
| Zpos of positive
| Zneg of positive

val eqb : bool -> bool -> bool

module Nat :
 sig
  val eqb : nat -> nat -> bool
 end

module Pos :
 sig
  val succ : positive -> positive

  val add : positive -> positive -> positive

  val add_carry : positive -> positive -> positive

  val pred_double : positive -> positive

  val mul : positive -> positive -> positive

  val compare_cont : comparison -> positive -> positive -> comparison

  val compare : positive -> positive -> comparison

  val eqb : positive -> positive -> bool
 end

module Z :
 sig
  val double : z -> z

  val succ_double : z -> z

  val pred_double : z -> z

  val pos_sub : positive -> positive -> z

  val add : z -> z -> z

  val opp : z -> z

  val sub : z -> z -> z

  val mul : z -> z -> z

  val compare : z -> z -> comparison

  val leb : z -> z -> bool

  val ltb : z -> z -> bool

  val eqb : z -> z -> bool

  val pos_div_eucl : positive -> z -> z * z

  val div_eucl : z -> z -> z * z

  val div : z -> z -> z

  val modulo : z -> z -> z
 end

val nth_error : 'a1 list -> nat -> 'a1 option

val rev : 'a1 list -> 'a1 list

val map : ('a1 -> 'a2) -> 'a1 list -> 'a2 list

val flat_map : ('a1 -> 'a2 list) -> 'a1 list -> 'a2 list

val fold_right : ('a2 -> 'a1 -> 'a1) -> 'a1 -> 'a2 list -> 'a1

val existsb : ('a1 -> bool) -> 'a1 list -> bool

val filter : ('a1 -> bool) -> 'a1 list -> 'a1 list

val ex_keep : (((((nat * n) * z) * z list) * z option) * positive) * bool

type ident = nat

type binop =
| Add
| Sub
| Mul
| FloorDiv
| Mod

type cmpop =
| CLt
| CLe
| CEq
| CNe
| CGt
| CGe

type expr =
| EInt of z
| EBool of bool
| ENone
| EName of ident
| ENeg of expr
| ENot of expr
| EBin of binop * expr * expr
| ECmp of cmpop * expr * expr
| ECond of expr * expr * expr
| ELog of expr
| ELambda of ident list * expr
| ECall of expr * expr list

type stmt =
| SExpr of expr
| SAssign of ident * expr
| SAug of ident * binop * expr
| SIf of expr * stmt list * stmt list
| SWhile of expr * stmt list
| SReturn of expr
| SDef of ident * ident list * stmt list
| SGlobal of ident
| SNonlocal of ident
| SDel of ident
| SPass

type value =
| VInt of z
| VBool of bool
| VNone
| VFun of nat

type exc =
| UnboundLocalError
| NameError
| TypeError
| ZeroDivisionError
| AttributeError

val as_int : value -> z option

val truthy : value -> bool

val do_bin : binop -> value -> value -> (value, exc) sum

val py_eq : value -> value -> bool

val do_cmp : cmpop -> value -> value -> (value, exc) sum

val do_neg : value -> (value, exc) sum

val mem : ident -> ident list -> bool

val memb : bool -> ident -> (bool * ident) list -> bool

val assoc : ident -> (ident * 'a1) list -> 'a1 option

type env = (ident * value option) list

val env_get : env -> ident -> value option

val env_set : env -> ident -> value -> env

val env_del : env -> ident -> env

type scope_info = { si_locals : ident list; si_globals : ident list;
                    si_refs : (bool * ident) list }

type sctx = scope_info list

val cfree : scope_info -> ident list

val nested : scope_info -> (bool * ident) list

val si_cells : scope_info -> ident list

val is_cell : scope_info -> ident -> bool

val lam_info : ident list -> (bool * ident) list -> scope_info

val refs_e : expr -> (bool * ident) list

val binds_s : stmt -> ident list

val globals_s : stmt -> ident list

val nonlocals_s : stmt -> ident list

val fn_locals : ident list -> stmt list -> ident list

val mk_info_raw : ident list -> stmt list -> (bool * ident) list -> scope_info

val refs_s : stmt -> (bool * ident) list

val mk_info : ident list -> stmt list -> scope_info

val module_info : stmt list -> scope_info

val has_owner : sctx -> ident -> bool

type kind =
| KLocal
| KFree
| KGlobal

val classify : scope_info -> sctx -> ident -> kind

type ('s, 'a) res =
| Ok of 'a * 's
| Exn of exc * 's
| OutOfFuel
| Stuck

val bind : ('a1, 'a2) res -> ('a2 -> 'a1 -> ('a1, 'a3) res) -> ('a1, 'a3) res

val lift : (value, exc) sum -> 'a1 -> ('a1, value) res

type 'a lres =
| LVal of 'a
| LExn of exc
| LStuck

type loc =
| LGlob
| LFast
| LHeap of nat * bool

type flow =
| FNext
| FRet of value

type 'x frame = { f_info : scope_info; f_ctx : sctx; f_fast : env; f_x : 'x }

type 'c fn = { fn_ps : ident list; fn_body : stmt list; fn_info : scope_info;
               fn_ctx : sctx; fn_cap : 'c }

type ('h, 'c) state = { g_glob : env; g_heap : 'h; g_funs : 'c fn list;
                        g_next : nat; g_trace : value list }

type ('x, 'h, 'c) ops = { op_loc : ('x frame -> 'h -> ident -> loc option);
                          op_get : ('h -> nat -> ident -> value option option);
                          op_set : ('h -> nat -> ident -> value option -> 'h);
                          op_capture : ('x frame -> scope_info -> 'c option);
                          op_enter : ('h -> 'c fn -> nat -> 'x * 'h);
                          op_delglob_exc : exc }

val set_heap : ('a1, 'a2) state -> 'a1 -> ('a1, 'a2) state

val set_glob : ('a1, 'a2) state -> env -> ('a1, 'a2) state

val set_fast : 'a1 frame -> env -> 'a1 frame

val add_trace : ('a1, 'a2) state -> value -> ('a1, 'a2) state

val load :
  ('a1, 'a2, 'a3) ops -> 'a1 frame -> ('a2, 'a3) state -> ident -> value lres

val store :
  ('a1, 'a2, 'a3) ops -> 'a1 frame -> ('a2, 'a3) state -> ident -> value ->
  ('a1 frame * ('a2, 'a3) state) option

val delete :
  ('a1, 'a2, 'a3) ops -> 'a1 frame -> ('a2, 'a3) state -> ident -> ('a1
  frame * ('a2, 'a3) state) lres

val store_r :
  ('a1, 'a2, 'a3) ops -> 'a1 frame -> ('a2, 'a3) state -> ident -> value ->
  (('a2, 'a3) state, 'a1 frame * flow) res

val mkfun :
  ('a1, 'a2, 'a3) ops -> 'a1 frame -> ('a2, 'a3) state -> ident list -> stmt
  list -> scope_info -> (('a2, 'a3) state, value) res

val bind_params :
  ('a1, 'a2, 'a3) ops -> 'a1 frame -> ('a2, 'a3) state -> ident list -> value
  list -> ('a1 frame * ('a2, 'a3) state) option

val eval :
  ('a1, 'a2, 'a3) ops -> nat -> 'a1 frame -> ('a2, 'a3) state -> expr ->
  (('a2, 'a3) state, value) res

val block :
  ('a1, 'a2, 'a3) ops -> nat -> 'a1 frame -> ('a2, 'a3) state -> stmt list ->
  (('a2, 'a3) state, 'a1 frame * flow) res

type outcome =
| Done of value * value list
| Failed of exc * value list
| NoFuel
| IsStuck

val run_gen :
  ('a1, 'a2, 'a3) ops -> 'a1 -> 'a2 -> nat -> stmt list -> expr -> outcome

type cellheap = ((nat * ident) * value option) list

val cget : cellheap -> nat -> ident -> value option option

val cset : cellheap -> nat -> ident -> value option -> cellheap

type cX = (ident * nat) list * nat

type cC = (ident * nat) list

val actual_free : scope_info -> sctx -> ident list

val c_loc : cX frame -> cellheap -> ident -> loc option

val cap1 : cX frame -> ident -> nat option

val c_capture_list : cX frame -> ident list -> cC option

val c_capture : cX frame -> scope_info -> cC option

val c_enter : cellheap -> cC fn -> nat -> cX * cellheap

val cells_ops : (cX, cellheap, cC) ops

val run_cells : nat -> stmt list -> expr -> outcome

type sobj = { so_outer : nat option; so_vars : (ident * value option) list }

type sheap = (nat * sobj) list

val sfind : sheap -> nat -> sobj option

val sget : sheap -> nat -> ident -> value option option

val sset : sheap -> nat -> ident -> value option -> sheap

val walk : sheap -> nat -> nat option -> nat option

val own_scope : scope_info -> bool

val lookup_outer : sctx -> ident -> nat option

val found : nat option -> bool

val from_closure : scope_info -> sctx -> bool

type cykind =
| CLocal
| CClosure of nat
| CGlobal

val cy_lookup : scope_info -> sctx -> ident -> cykind

type sX = nat option

type sC = nat option

val s_loc : sX frame -> sheap -> ident -> loc option

val s_capture : sX frame -> scope_info -> sC option

val s_enter : sheap -> sC fn -> nat -> sX * sheap

val scopes_ops : bool -> (sX, sheap, sC) ops

val run_scopes : bool -> nat -> stmt list -> expr -> outcome
