
val negb : bool -> bool

type nat =
| O
| S of nat

val option_map : ('a1 -> 'a2) -> 'a1 option -> 'a2 option

val length : 'a1 list -> nat

val app : 'a1 list -> 'a1 list -> 'a1 list

val add : nat -> nat -> nat

val sub : nat -> nat -> nat

type positive =
| XI of positive
| XO of positive
| XH

type n =
| N0
| Npos of positive

type z =
| Z0
| Zpos of positive
| Zneg of positive

module Nat :
 sig
  val eqb : nat -> nat -> bool

  val leb : nat -> nat -> bool

  val ltb : nat -> nat -> bool
 end

val nth_error : 'a1 list -> nat -> 'a1 option

val rev : 'a1 list -> 'a1 list

val map : ('a1 -> 'a2) -> 'a1 list -> 'a2 list

val firstn : nat -> 'a1 list -> 'a1 list

val skipn : nat -> 'a1 list -> 'a1 list

val seq : nat -> nat -> nat list

val repeat : 'a1 -> nat -> 'a1 list

val ex_keep : (((((nat * n) * z) * z list) * z option) * positive) * bool

type kind =
| KTuple
| KList
| KTupleSub
| KOther

type ending =
| EndStop
| EndRaise

type stype =
| SObj
| SList
| STuple
| SBuiltin

type hdr = { h_kind : kind; h_id : nat; h_logs : bool; h_end : ending }

type val0 =
| VAtom of z
| VSeq of hdr * val0 list * val0 list

val exactb : kind -> bool

val list_hdr : hdr

val new_list : val0 list -> val0

type event =
| EvNext of nat
| EvBind of nat * val0

type cexn =
| CTypeError
| CNeedMore of nat
| CTooMany of nat
| CIterExc of nat
| COutOfBounds

type rexn =
| RTypeError
| RNotEnough of nat * bool * nat
| RTooMany of nat
| RIterExc of nat

type 'e res =
| Err of 'e
| Vals of val0 list

val collect : val0 option list -> val0 list option

type loopres =
| LoopOk of val0 list * val0 list
| LoopShort of nat

val gen_loop : nat -> nat -> val0 list -> val0 list -> loopres

val iter_end : hdr -> nat -> cexn

val cy_generic : hdr -> nat -> val0 list -> nat * cexn res

val copy_items : val0 list -> nat -> cexn res

val cy_fast : nat -> val0 list -> nat * cexn res

val cy_par : stype -> nat -> val0 -> nat * cexn res

val cy_star_g : bool -> nat -> nat -> val0 -> nat * cexn res

val cy_star : nat -> nat -> val0 -> nat * cexn res

val cy_unpack : stype -> nat -> nat option -> val0 -> nat * cexn res

val cy_tuple2 : bool -> val0 -> nat * cexn res

val ref_unpack : nat -> nat option -> val0 -> nat * rexn res

type target =
| TName of nat
| TSeq of target list * nat option * target list

type 'e ares =
| ADone
| AExc of 'e
| AStuck

val emit : val0 -> nat -> event list

val seq_assign :
  (target -> val0 -> event list * 'a1 ares) -> target list -> val0 list ->
  event list * 'a1 ares

val assign_level :
  (target -> val0 -> event list * 'a1 ares) -> (nat -> nat option -> val0 ->
  nat * 'a1 res) -> target list -> nat option -> target list -> val0 -> event
  list * 'a1 ares

val assign :
  (stype -> nat -> nat option -> val0 -> nat * 'a1 res) -> stype -> target ->
  val0 -> event list * 'a1 ares

val assign_top :
  (stype -> nat -> nat option -> val0 -> nat * 'a1 res) -> (nat -> nat option
  -> val0 -> nat * 'a1 res) -> target -> val0 -> event list * 'a1 ares

val cy_assign : stype -> target -> val0 -> event list * cexn ares

val ref_assign : target -> val0 -> event list * rexn ares

val cy_items_assign : bool -> target -> val0 -> event list * cexn ares
