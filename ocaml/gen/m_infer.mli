
val negb : bool -> bool

type nat =
| O
| S of nat

val length : 'a1 list -> nat

val app : 'a1 list -> 'a1 list -> 'a1 list

type comparison =
| Eq
| Lt
| Gt

val compOpp : comparison -> comparison

val add : nat -> nat -> nat

val mul : nat -> nat -> nat

type positive =
| XI of positive
| XO of positive
| XH

type n =
| N0
| Npos of positive

type z =
| Z0
| Zpos of positive
| Zneg of positive

module Nat :
 sig
  val eqb : nat -> nat -> bool

  val leb : nat -> nat -> bool

  val ltb : nat -> nat -> bool
 end

module Pos :
 sig
  val succ : positive -> positive

  val add : positive -> positive -> positive

  val add_carry : positive -> positive -> positive

  val mul : positive -> positive -> positive

  val iter : ('a1 -> 'a1) -> 'a1 -> positive -> 'a1

  val compare_cont : comparison -> positive -> positive -> comparison

  val compare : positive -> positive -> comparison
 end

module Z :
 sig
  val opp : z -> z

  val mul : z -> z -> z

  val pow_pos : z -> positive -> z

  val pow : z -> z -> z

  val compare : z -> z -> comparison

  val leb : z -> z -> bool

  val ltb : z -> z -> bool
 end

val nth : nat -> 'a1 list -> 'a1 -> 'a1

val nth_error : 'a1 list -> nat -> 'a1 option

val map : ('a1 -> 'a2) -> 'a1 list -> 'a2 list

val flat_map : ('a1 -> 'a2 list) -> 'a1 list -> 'a2 list

val fold_left : ('a1 -> 'a2 -> 'a1) -> 'a2 list -> 'a1 -> 'a1

val existsb : ('a1 -> bool) -> 'a1 list -> bool

val forallb : ('a1 -> bool) -> 'a1 list -> bool

val filter : ('a1 -> bool) -> 'a1 list -> 'a1 list

val firstn : nat -> 'a1 list -> 'a1 list

val skipn : nat -> 'a1 list -> 'a1 list

val seq : nat -> nat -> nat list

val ex_keep : (((((nat * n) * z) * z list) * z option) * positive) * bool

type ty =
| TObj
| TPyInt
| TPyFloat
| TPyBool
| TPyStr
| TPyList
| TCLong
| TCInt
| TCDouble
| TCBint

val ty_idx : ty -> nat

val ty_of_idx : nat -> ty

val all_ty : ty list

val ty_eqb : ty -> ty -> bool

val is_pyobj : ty -> bool

val is_builtin : ty -> bool

val is_cnum : ty -> bool

val is_cint : ty -> bool

val is_cintw : ty -> bool

val is_floatty : ty -> bool

val rank : ty -> nat

val widest : ty -> ty -> ty

val builtin_op : ty -> ty -> ty option

val span2 : ty -> ty -> ty

val find_span : ty -> ty -> ty

val reduce_span : ty list -> ty

type flags = { fx_float : bool; fx_bint : bool; fx_closure : bool }

val safe_span : flags -> ty list -> bool -> ty

val aggr_span : ty list -> ty

type imode =
| MSafe
| MAggr
| MOff

val span_mode : flags -> imode -> ty list -> bool -> ty

type binop =
| Add
| Sub
| Mul
| FloorDiv
| Mod
| TrueDiv
| LShift
| RShift
| BAnd
| BOr
| BXor

type unop =
| Neg
| Inv
| Not
| Pos

val binop_idx : binop -> nat

val all_binop : binop list

val unop_idx : unop -> nat

val all_unop : unop list

val is_bitwise : binop -> bool

type expr =
| EInt of z
| EFloat
| EBool of bool
| EStr
| ENone
| EName of nat * ty option * nat list
| EBin of binop * expr * expr
| EUn of unop * expr
| ECmp of expr * expr
| ECond of expr * expr * expr
| EBoolOp of expr * expr
| ECall of expr
| EOpaque of ty * expr
| EAsg of nat option * expr
| EDanger of expr
| EInner of expr
| ESeq of expr * expr
| ESkip

type tables = { tb_bin : nat list; tb_un : nat list; tb_cond : nat list;
                tb_bool : nat list }

val tb2 : nat list -> nat -> ty -> ty -> ty

val tb1 : nat list -> nat -> ty -> ty

val bin_ty : tables -> binop -> ty -> ty -> ty

val un_ty : tables -> unop -> ty -> ty

val cond_ty : tables -> ty -> ty -> ty

val bool_ty : tables -> ty -> ty -> ty

val long_literal : z -> bool

val name_ty : ty -> bool -> ty option -> ty

val ety : tables -> (nat -> ty) -> (nat -> bool) -> expr -> ty

val mark : flags -> bool -> bool -> expr -> nat list

val memb : nat -> nat list -> bool

type assign = { a_lhs : nat; a_rhs : expr }

type summary = { s_decl : ty option list; s_assigns : assign list;
                 s_body : expr }

val mo_of : flags -> summary -> nat -> bool

val is_none_rhs : expr -> bool

val assigns_of : summary -> nat -> assign list

val inferred_types :
  tables -> summary -> (nat -> ty) -> (nat -> bool) -> nat -> ty list

val lookup : ty list -> nat -> ty

val entry_type : flags -> imode -> tables -> summary -> ty list -> nat -> ty

val ty_list_eqb : ty list -> ty list -> bool

val reinfer_pass :
  flags -> imode -> tables -> summary -> nat -> nat -> ty list -> ty list

val reinfer_loop :
  flags -> imode -> tables -> summary -> nat -> ty list -> ty list option

type kind =
| KInt
| KBool
| KFloat
| KStr
| KNone
| KList
| KOther

val kind_idx : kind -> nat

val kind_eqb : kind -> kind -> bool

val all_kind : kind list

val kinds : ty -> kind list

val kmem : kind -> kind list -> bool

val kinds_sub : ty -> ty -> bool

val tsub : ty -> ty -> bool

val aty : flags -> tables -> summary -> ty list -> nat -> ty

val cf_ok : summary -> nat -> nat list -> bool

val ann_ok : flags -> tables -> summary -> ty list -> expr -> bool

val stable_entry :
  flags -> tables -> summary -> ty list -> imode -> nat -> bool

val stable : flags -> tables -> summary -> ty list -> imode -> bool

val first_pass : flags -> imode -> tables -> summary -> ty list -> ty list

type infer_result =
| Inferred of ty list
| NoFixpoint
| Unstable of ty list

val infer : flags -> imode -> tables -> summary -> ty list -> infer_result

type value =
| VInt of z
| VBool of bool
| VFloat
| VStr
| VNone
| VList
| VOther

val kind_of : value -> kind

val in64 : z -> bool

val in32 : z -> bool

val ty_ok : ty -> value -> bool

val is_intlike : kind -> bool

val is_numk : kind -> bool

val kbin : binop -> kind -> kind -> kind option

val kun : unop -> kind -> kind option

val bin_entry_ok : tables -> binop -> ty -> ty -> bool

val un_entry_ok : tables -> unop -> ty -> bool

val cond_entry_ok : tables -> ty -> ty -> bool

val bool_entry_ok : tables -> ty -> ty -> bool

val expr_ok : tables -> (nat -> ty) -> (nat -> bool) -> expr -> bool

val bad_bin : tables -> ((nat * nat) * nat) list

val bad_un : tables -> (nat * nat) list

val bad_cond : tables -> (nat * nat) list

val bad_bool : tables -> (nat * nat) list

val gen_tables : tables
