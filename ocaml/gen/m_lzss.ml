
(** val negb : bool -> bool **)

let negb = function
| true -> false
| false -> true

type nat =
| O
| S of nat

(** val length : 'a1 list -> nat **)

let rec length = function
| [] -> O
| _ :: l' -> S (length l')

(** val app : 'a1 list -> 'a1 list -> 'a1 list **)

let rec app l m =
  match l with
  | [] -> m
  | a :: l1 -> a :: (app l1 m)

type comparison =
| Eq
| Lt
| Gt

(** val compOpp : comparison -> comparison **)

let compOpp = function
| Eq -> Eq
| Lt -> Gt
| Gt -> Lt

module Coq__1 = struct
 (** val add : nat -> nat -> nat **)
 let rec add n0 m =
   match n0 with
   | O -> m
   | S p -> S (add p m)
end
include Coq__1

type positive =
| XI of positive
| XO of positive
| XH

type n =
| N0
| Npos of positive

type z =
| Z0
| Zpos of positive
| Zneg of positive

module Nat =
 struct
  (** val iter : nat -> ('a1 -> 'a1) -> 'a1 -> 'a1 **)

  let rec iter n0 f x =
    match n0 with
    | O -> x
    | S n1 -> f (iter n1 f x)
 end

module Pos =
 struct
  (** val succ : positive -> positive **)

  let rec succ = function
  | XI p -> XO (succ p)
  | XO p -> XI p
  | XH -> XO XH

  (** val add : positive -> positive -> positive **)

  let rec add x y =
    match x with
    | XI p ->
      (match y with
       | XI q -> XO (add_carry p q)
       | XO q -> XI (add p q)
       | XH -> XO (succ p))
    | XO p ->
      (match y with
       | XI q -> XI (add p q)
       | XO q -> XO (add p q)
       | XH -> XI p)
    | XH -> (match y with
             | XI q -> XO (succ q)
             | XO q -> XI q
             | XH -> XO XH)

  (** val add_carry : positive -> positive -> positive **)

  and add_carry x y =
    match x with
    | XI p ->
      (match y with
       | XI q -> XI (add_carry p q)
       | XO q -> XO (add_carry p q)
       | XH -> XI (succ p))
    | XO p ->
      (match y with
       | XI q -> XO (add_carry p q)
       | XO q -> XI (add p q)
       | XH -> XO (succ p))
    | XH ->
      (match y with
       | XI q -> XI (succ q)
       | XO q -> XO (succ q)
       | XH -> XI XH)

  (** val pred_double : positive -> positive **)

  let rec pred_double = function
  | XI p -> XI (XO p)
  | XO p -> XI (pred_double p)
  | XH -> XH

  (** val pred_N : positive -> n **)

  let pred_N = function
  | XI p -> Npos (XO p)
  | XO p -> Npos (pred_double p)
  | XH -> N0

  (** val mul : positive -> positive -> positive **)

  let rec mul x y =
    match x with
    | XI p -> add y (XO (mul p y))
    | XO p -> XO (mul p y)
    | XH -> y

  (** val iter : ('a1 -> 'a1) -> 'a1 -> positive -> 'a1 **)

  let rec iter f x = function
  | XI n' -> f (iter f (iter f x n') n')
  | XO n' -> iter f (iter f x n') n'
  | XH -> f x

  (** val div2 : positive -> positive **)

  let div2 = function
  | XI p0 -> p0
  | XO p0 -> p0
  | XH -> XH

  (** val div2_up : positive -> positive **)

  let div2_up = function
  | XI p0 -> succ p0
  | XO p0 -> p0
  | XH -> XH

  (** val compare_cont : comparison -> positive -> positive -> comparison **)

  let rec compare_cont r x y =
    match x with
    | XI p ->
      (match y with
       | XI q -> compare_cont r p q
       | XO q -> compare_cont Gt p q
       | XH -> Gt)
    | XO p ->
      (match y with
       | XI q -> compare_cont Lt p q
       | XO q -> compare_cont r p q
       | XH -> Gt)
    | XH -> (match y with
             | XH -> r
             | _ -> Lt)

  (** val compare : positive -> positive -> comparison **)

  let compare =
    compare_cont Eq

  (** val eqb : positive -> positive -> bool **)

  let rec eqb p q =
    match p with
    | XI p0 -> (match q with
                | XI q0 -> eqb p0 q0
                | _ -> false)
    | XO p0 -> (match q with
                | XO q0 -> eqb p0 q0
                | _ -> false)
    | XH -> (match q with
             | XH -> true
             | _ -> false)

  (** val coq_Nsucc_double : n -> n **)

  let coq_Nsucc_double = function
  | N0 -> Npos XH
  | Npos p -> Npos (XI p)

  (** val coq_Ndouble : n -> n **)

  let coq_Ndouble = function
  | N0 -> N0
  | Npos p -> Npos (XO p)

  (** val coq_lor : positive -> positive -> positive **)

  let rec coq_lor p q =
    match p with
    | XI p0 ->
      (match q with
       | XI q0 -> XI (coq_lor p0 q0)
       | XO q0 -> XI (coq_lor p0 q0)
       | XH -> p)
    | XO p0 ->
      (match q with
       | XI q0 -> XI (coq_lor p0 q0)
       | XO q0 -> XO (coq_lor p0 q0)
       | XH -> XI p0)
    | XH -> (match q with
             | XO q0 -> XI q0
             | _ -> q)

  (** val coq_land : positive -> positive -> n **)

  let rec coq_land p q =
    match p with
    | XI p0 ->
      (match q with
       | XI q0 -> coq_Nsucc_double (coq_land p0 q0)
       | XO q0 -> coq_Ndouble (coq_land p0 q0)
       | XH -> Npos XH)
    | XO p0 ->
      (match q with
       | XI q0 -> coq_Ndouble (coq_land p0 q0)
       | XO q0 -> coq_Ndouble (coq_land p0 q0)
       | XH -> N0)
    | XH -> (match q with
             | XO _ -> N0
             | _ -> Npos XH)

  (** val ldiff : positive -> positive -> n **)

  let rec ldiff p q =
    match p with
    | XI p0 ->
      (match q with
       | XI q0 -> coq_Ndouble (ldiff p0 q0)
       | XO q0 -> coq_Nsucc_double (ldiff p0 q0)
       | XH -> Npos (XO p0))
    | XO p0 ->
      (match q with
       | XI q0 -> coq_Ndouble (ldiff p0 q0)
       | XO q0 -> coq_Ndouble (ldiff p0 q0)
       | XH -> Npos p)
    | XH -> (match q with
             | XO _ -> Npos XH
             | _ -> N0)

  (** val iter_op : ('a1 -> 'a1 -> 'a1) -> positive -> 'a1 -> 'a1 **)

  let rec iter_op op p a =
    match p with
    | XI p0 -> op a (iter_op op p0 (op a a))
    | XO p0 -> iter_op op p0 (op a a)
    | XH -> a

  (** val to_nat : positive -> nat **)

  let to_nat x =
    iter_op Coq__1.add x (S O)

  (** val of_succ_nat : nat -> positive **)

  let rec of_succ_nat = function
  | O -> XH
  | S x -> succ (of_succ_nat x)
 end

module N =
 struct
  (** val succ_pos : n -> positive **)

  let succ_pos = function
  | N0 -> XH
  | Npos p -> Pos.succ p

  (** val coq_lor : n -> n -> n **)

  let coq_lor n0 m =
    match n0 with
    | N0 -> m
    | Npos p -> (match m with
                 | N0 -> n0
                 | Npos q -> Npos (Pos.coq_lor p q))

  (** val coq_land : n -> n -> n **)

  let coq_land n0 m =
    match n0 with
    | N0 -> N0
    | Npos p -> (match m with
                 | N0 -> N0
                 | Npos q -> Pos.coq_land p q)

  (** val ldiff : n -> n -> n **)

  let ldiff n0 m =
    match n0 with
    | N0 -> N0
    | Npos p -> (match m with
                 | N0 -> n0
                 | Npos q -> Pos.ldiff p q)
 end

module Z =
 struct
  (** val double : z -> z **)

  let double = function
  | Z0 -> Z0
  | Zpos p -> Zpos (XO p)
  | Zneg p -> Zneg (XO p)

  (** val succ_double : z -> z **)

  let succ_double = function
  | Z0 -> Zpos XH
  | Zpos p -> Zpos (XI p)
  | Zneg p -> Zneg (Pos.pred_double p)

  (** val pred_double : z -> z **)

  let pred_double = function
  | Z0 -> Zneg XH
  | Zpos p -> Zpos (Pos.pred_double p)
  | Zneg p -> Zneg (XI p)

  (** val pos_sub : positive -> positive -> z **)

  let rec pos_sub x y =
    match x with
    | XI p ->
      (match y with
       | XI q -> double (pos_sub p q)
       | XO q -> succ_double (pos_sub p q)
       | XH -> Zpos (XO p))
    | XO p ->
      (match y with
       | XI q -> pred_double (pos_sub p q)
       | XO q -> double (pos_sub p q)
       | XH -> Zpos (Pos.pred_double p))
    | XH ->
      (match y with
       | XI q -> Zneg (XO q)
       | XO q -> Zneg (Pos.pred_double q)
       | XH -> Z0)

  (** val add : z -> z -> z **)

  let add x y =
    match x with
    | Z0 -> y
    | Zpos x' ->
      (match y with
       | Z0 -> x
       | Zpos y' -> Zpos (Pos.add x' y')
       | Zneg y' -> pos_sub x' y')
    | Zneg x' ->
      (match y with
       | Z0 -> x
       | Zpos y' -> pos_sub y' x'
       | Zneg y' -> Zneg (Pos.add x' y'))

  (** val opp : z -> z **)

  let opp = function
  | Z0 -> Z0
  | Zpos x0 -> Zneg x0
  | Zneg x0 -> Zpos x0

  (** val sub : z -> z -> z **)

  let sub m n0 =
    add m (opp n0)

  (** val mul : z -> z -> z **)

  let mul x y =
    match x with
    | Z0 -> Z0
    | Zpos x' ->
      (match y with
       | Z0 -> Z0
       | Zpos y' -> Zpos (Pos.mul x' y')
       | Zneg y' -> Zneg (Pos.mul x' y'))
    | Zneg x' ->
      (match y with
       | Z0 -> Z0
       | Zpos y' -> Zneg (Pos.mul x' y')
       | Zneg y' -> Zpos (Pos.mul x' y'))

  (** val compare : z -> z -> comparison **)

  let compare x y =
    match x with
    | Z0 -> (match y with
             | Z0 -> Eq
             | Zpos _ -> Lt
             | Zneg _ -> Gt)
    | Zpos x' -> (match y with
                  | Zpos y' -> Pos.compare x' y'
                  | _ -> Gt)
    | Zneg x' ->
      (match y with
       | Zneg y' -> compOpp (Pos.compare x' y')
       | _ -> Lt)

  (** val leb : z -> z -> bool **)

  let leb x y =
    match compare x y with
    | Gt -> false
    | _ -> true

  (** val ltb : z -> z -> bool **)

  let ltb x y =
    match compare x y with
    | Lt -> true
    | _ -> false

  (** val geb : z -> z -> bool **)

  let geb x y =
    match compare x y with
    | Lt -> false
    | _ -> true

  (** val gtb : z -> z -> bool **)

  let gtb x y =
    match compare x y with
    | Gt -> true
    | _ -> false

  (** val eqb : z -> z -> bool **)

  let eqb x y =
    match x with
    | Z0 -> (match y with
             | Z0 -> true
             | _ -> false)
    | Zpos p -> (match y with
                 | Zpos q -> Pos.eqb p q
                 | _ -> false)
    | Zneg p -> (match y with
                 | Zneg q -> Pos.eqb p q
                 | _ -> false)

  (** val max : z -> z -> z **)

  let max n0 m =
    match compare n0 m with
    | Lt -> m
    | _ -> n0

  (** val min : z -> z -> z **)

  let min n0 m =
    match compare n0 m with
    | Gt -> m
    | _ -> n0

  (** val to_nat : z -> nat **)

  let to_nat = function
  | Zpos p -> Pos.to_nat p
  | _ -> O

  (** val of_nat : nat -> z **)

  let of_nat = function
  | O -> Z0
  | S n1 -> Zpos (Pos.of_succ_nat n1)

  (** val of_N : n -> z **)

  let of_N = function
  | N0 -> Z0
  | Npos p -> Zpos p

  (** val to_pos : z -> positive **)

  let to_pos = function
  | Zpos p -> p
  | _ -> XH

  (** val div2 : z -> z **)

  let div2 = function
  | Z0 -> Z0
  | Zpos p -> (match p with
               | XH -> Z0
               | _ -> Zpos (Pos.div2 p))
  | Zneg p -> Zneg (Pos.div2_up p)

  (** val shiftl : z -> z -> z **)

  let shiftl a = function
  | Z0 -> a
  | Zpos p -> Pos.iter (mul (Zpos (XO XH))) a p
  | Zneg p -> Pos.iter div2 a p

  (** val shiftr : z -> z -> z **)

  let shiftr a n0 =
    shiftl a (opp n0)

  (** val coq_lor : z -> z -> z **)

  let coq_lor a b =
    match a with
    | Z0 -> b
    | Zpos a0 ->
      (match b with
       | Z0 -> a
       | Zpos b0 -> Zpos (Pos.coq_lor a0 b0)
       | Zneg b0 -> Zneg (N.succ_pos (N.ldiff (Pos.pred_N b0) (Npos a0))))
    | Zneg a0 ->
      (match b with
       | Z0 -> a
       | Zpos b0 -> Zneg (N.succ_pos (N.ldiff (Pos.pred_N a0) (Npos b0)))
       | Zneg b0 ->
         Zneg (N.succ_pos (N.coq_land (Pos.pred_N a0) (Pos.pred_N b0))))

  (** val coq_land : z -> z -> z **)

  let coq_land a b =
    match a with
    | Z0 -> Z0
    | Zpos a0 ->
      (match b with
       | Z0 -> Z0
       | Zpos b0 -> of_N (Pos.coq_land a0 b0)
       | Zneg b0 -> of_N (N.ldiff (Npos a0) (Pos.pred_N b0)))
    | Zneg a0 ->
      (match b with
       | Z0 -> Z0
       | Zpos b0 -> of_N (N.ldiff (Npos b0) (Pos.pred_N a0))
       | Zneg b0 ->
         Zneg (N.succ_pos (N.coq_lor (Pos.pred_N a0) (Pos.pred_N b0))))
 end

(** val tl : 'a1 list -> 'a1 list **)

let tl = function
| [] -> []
| _ :: m -> m

(** val rev_append : 'a1 list -> 'a1 list -> 'a1 list **)

let rec rev_append l l' =
  match l with
  | [] -> l'
  | a :: l0 -> rev_append l0 (a :: l')

(** val rev' : 'a1 list -> 'a1 list **)

let rev' l =
  rev_append l []

(** val fold_left : ('a1 -> 'a2 -> 'a1) -> 'a2 list -> 'a1 -> 'a1 **)

let rec fold_left f l a0 =
  match l with
  | [] -> a0
  | b :: t0 -> fold_left f t0 (f a0 b)

(** val firstn : nat -> 'a1 list -> 'a1 list **)

let rec firstn n0 l =
  match n0 with
  | O -> []
  | S n1 -> (match l with
             | [] -> []
             | a :: l0 -> a :: (firstn n1 l0))

(** val skipn : nat -> 'a1 list -> 'a1 list **)

let rec skipn n0 l =
  match n0 with
  | O -> l
  | S n1 -> (match l with
             | [] -> []
             | _ :: l0 -> skipn n1 l0)

(** val ex_keep :
    (((((nat * n) * z) * z list) * z option) * positive) * bool **)

let ex_keep =
  ((((((O, N0), Z0), []), None), XH), true)

module PositiveMap =
 struct
  type key = positive

  type 'a tree =
  | Leaf
  | Node of 'a tree * 'a option * 'a tree

  type 'a t = 'a tree

  (** val empty : 'a1 t **)

  let empty =
    Leaf

  (** val find : key -> 'a1 t -> 'a1 option **)

  let rec find i = function
  | Leaf -> None
  | Node (l, o, r) ->
    (match i with
     | XI ii -> find ii r
     | XO ii -> find ii l
     | XH -> o)

  (** val add : key -> 'a1 -> 'a1 t -> 'a1 t **)

  let rec add i v = function
  | Leaf ->
    (match i with
     | XI ii -> Node (Leaf, None, (add ii v Leaf))
     | XO ii -> Node ((add ii v Leaf), None, Leaf)
     | XH -> Node (Leaf, (Some v), Leaf))
  | Node (l, o, r) ->
    (match i with
     | XI ii -> Node (l, o, (add ii v r))
     | XO ii -> Node ((add ii v l), o, r)
     | XH -> Node (l, (Some v), r))
 end

(** val wINDOW_SIZE : z **)

let wINDOW_SIZE =
  Zpos (XO (XO (XO (XO (XO (XO (XO (XI (XO (XO (XO (XO (XO (XO
    XH))))))))))))))

type entry = z * z list

type table = entry list PositiveMap.t

(** val key3 : z list -> positive option **)

let key3 = function
| [] -> None
| a :: l0 ->
  (match l0 with
   | [] -> None
   | b :: l1 ->
     (match l1 with
      | [] -> None
      | c :: _ ->
        Some
          (Z.to_pos
            (Z.add
              (Z.add
                (Z.add
                  (Z.mul a (Zpos (XO (XO (XO (XO (XO (XO (XO (XO (XO (XO (XO
                    (XO (XO (XO (XO (XO XH))))))))))))))))))
                  (Z.mul b (Zpos (XO (XO (XO (XO (XO (XO (XO (XO XH)))))))))))
                c) (Zpos XH)))))

(** val tbl_find : positive -> table -> entry list option **)

let tbl_find =
  PositiveMap.find

(** val tbl_add : z -> z list -> table -> table **)

let tbl_add pos rest t0 =
  match key3 rest with
  | Some k ->
    let old = match tbl_find k t0 with
              | Some l -> l
              | None -> [] in
    PositiveMap.add k ((pos, (skipn (S (S (S O))) rest)) :: old) t0
  | None -> t0

(** val extend : z list -> z list -> z -> z -> z option **)

let rec extend a b m mx =
  if Z.ltb m mx
  then (match a with
        | [] -> None
        | x :: a' ->
          (match b with
           | [] -> None
           | y :: b' ->
             if Z.eqb x y then extend a' b' (Z.add m (Zpos XH)) mx else Some m))
  else Some m

(** val scan1_step :
    z -> z -> z -> z list -> (z * z) option -> entry -> (z * z) option **)

let scan1_step pos ws maxm rest3 st e =
  match st with
  | Some p ->
    let (best_len, _) = p in
    let (pp, t3) = e in
    if (||) (Z.ltb pp ws) (Z.geb pp pos)
    then st
    else (match extend t3 rest3 (Zpos (XI XH)) (Z.min maxm (Z.sub pos pp)) with
          | Some ml ->
            if Z.gtb ml best_len
            then if Z.ltb (Z.sub (Z.sub pos pp) ml) wINDOW_SIZE
                 then Some (ml, (Z.sub pos pp))
                 else st
            else st
          | None -> None)
  | None -> None

(** val scan2_step :
    z -> z -> z -> z -> z list -> z option -> entry -> z option **)

let scan2_step n0 pos ws maxm rest4 st e =
  match st with
  | Some nbl ->
    let (pp, t3) = e in
    if Z.ltb pp ws
    then st
    else (match extend t3 rest4 (Zpos (XI XH))
                  (Z.min (Z.min maxm (Z.sub pos pp))
                    (Z.sub (Z.sub n0 pos) (Zpos XH))) with
          | Some ml ->
            if Z.gtb ml nbl
            then if Z.ltb (Z.sub (Z.sub pos pp) nbl) wINDOW_SIZE
                 then Some ml
                 else st
            else st
          | None -> None)
  | None -> None

(** val find_longest_match : z -> z -> z list -> table -> (z * z) option **)

let find_longest_match n0 pos rest t0 =
  match key3 rest with
  | Some k ->
    let maxm =
      Z.min (Zpos (XO (XI (XO (XO (XO (XO (XO (XO XH))))))))) (Z.sub n0 pos)
    in
    let ws = Z.max Z0 (Z.sub (Z.sub pos wINDOW_SIZE) maxm) in
    (match tbl_find k t0 with
     | Some es ->
       (match fold_left (scan1_step pos ws maxm (skipn (S (S (S O))) rest))
                (rev' es) (Some (Z0, Z0)) with
        | Some p ->
          let (best_len, best_off) = p in
          if (&&) ((&&) (Z.ltb Z0 best_len) (Z.ltb best_len maxm))
               (Z.ltb (Z.add (Z.add pos best_len) (Zpos XH)) n0)
          then (match match key3 (tl rest) with
                      | Some k2 -> tbl_find k2 t0
                      | None -> None with
                | Some es2 ->
                  let ws2 =
                    Z.max Z0
                      (Z.sub (Z.sub (Z.add pos (Zpos XH)) wINDOW_SIZE) maxm)
                  in
                  (match fold_left
                           (scan2_step n0 pos ws2 maxm
                             (skipn (S (S (S (S O)))) rest)) (rev' es2) (Some
                           Z0) with
                   | Some nbl ->
                     if Z.gtb nbl (Z.add best_len (Zpos XH))
                     then Some (Z0, Z0)
                     else Some (best_off, best_len)
                   | None -> None)
                | None -> Some (best_off, best_len))
          else Some (best_off, best_len)
        | None -> None)
     | None -> Some (Z0, Z0))
  | None -> Some (Z0, Z0)

(** val encode_match : z -> z -> z list option **)

let encode_match offset0 length0 =
  let offset = Z.sub offset0 length0 in
  if (||) (Z.ltb length0 (Zpos (XI XH))) (Z.ltb offset Z0)
  then None
  else if Z.leb offset (Zpos (XI (XI (XI (XI (XI (XI XH)))))))
       then Some (offset :: ((Z.sub length0 (Zpos (XI XH))) :: []))
       else let offset1 =
              Z.sub offset (Zpos (XO (XO (XO (XO (XO (XO (XO XH))))))))
            in
            let length_bits = Z.sub length0 (Zpos (XI XH)) in
            if (&&) (Z.ltb length_bits (Zpos (XO (XO (XO (XO (XO XH)))))))
                 (Z.ltb offset1 (Zpos (XO (XO (XO (XO (XO (XO (XO (XO (XO
                   XH)))))))))))
            then Some
                   ((Z.coq_lor
                      (Z.coq_land offset1 (Zpos (XI (XI (XI (XI (XI (XI
                        XH)))))))) (Zpos (XO (XO (XO (XO (XO (XO (XO
                      XH))))))))) :: ((Z.coq_lor
                                        (Z.shiftr
                                          (Z.coq_land offset1 (Zpos (XO (XO
                                            (XO (XO (XO (XO (XO (XI
                                            XH)))))))))) (Zpos (XO XH)))
                                        length_bits) :: []))
            else if (&&) (Z.gtb length0 (Zpos (XI XH)))
                      (Z.ltb offset1 (Zpos (XO (XO (XO (XO (XO (XO (XO (XO
                        (XO (XO (XO (XO (XO (XO XH))))))))))))))))
                 then Some
                        ((Z.coq_lor
                           (Z.coq_land offset1 (Zpos (XI (XI (XI (XI (XI (XI
                             XH)))))))) (Zpos (XO (XO (XO (XO (XO (XO (XO
                           XH))))))))) :: ((Z.coq_lor
                                             (Z.coq_land
                                               (Z.shiftr offset1 (Zpos (XI
                                                 (XI XH)))) (Zpos (XI (XI (XI
                                               (XI (XI (XI XH)))))))) (Zpos
                                             (XO (XO (XO (XO (XO (XO (XO
                                             XH))))))))) :: (length_bits :: [])))
                 else None

type token =
| TLit of z
| TRef of z * z * z list

(** val tok_loop :
    z -> table -> z list -> z -> z -> token list -> token list option **)

let rec tok_loop n0 t0 rest pos skip acc =
  match rest with
  | [] -> Some (rev' acc)
  | b :: rest' ->
    if Z.ltb Z0 skip
    then tok_loop n0 t0 rest' (Z.add pos (Zpos XH)) (Z.sub skip (Zpos XH)) acc
    else (match find_longest_match n0 pos rest t0 with
          | Some p ->
            let (off, len) = p in
            let t' = tbl_add pos rest t0 in
            (match encode_match off len with
             | Some bytes ->
               tok_loop n0 t' rest' (Z.add pos (Zpos XH))
                 (Z.sub len (Zpos XH)) ((TRef ((Z.sub off len), len,
                 bytes)) :: acc)
             | None ->
               tok_loop n0 t' rest' (Z.add pos (Zpos XH)) Z0 ((TLit b) :: acc))
          | None -> None)

(** val tokenize : z list -> token list option **)

let tokenize data =
  tok_loop (Z.of_nat (length data)) PositiveMap.empty data Z0 Z0 []

type pstate = { p_done : z list; p_cur : z list; p_flags : z }

(** val pack_init : pstate **)

let pack_init =
  { p_done = []; p_cur = []; p_flags = (Zpos (XO (XO (XO (XO (XO (XO (XO (XO
    (XO (XO (XO (XO (XO (XO (XO (XO (XI (XI (XI (XI (XI (XI (XI
    XH)))))))))))))))))))))))) }

(** val tok_flag : token -> z **)

let tok_flag = function
| TLit _ -> Zpos XH
| TRef (_, _, _) -> Z0

(** val tok_bytes : token -> z list **)

let tok_bytes = function
| TLit b -> b :: []
| TRef (_, _, bs) -> bs

(** val flags_upd : z -> z -> z **)

let flags_upd flag flags =
  Z.coq_lor (Z.shiftl flag (Zpos (XI (XI XH)))) (Z.shiftr flags (Zpos XH))

(** val pack_step : pstate -> token -> pstate **)

let pack_step st t0 =
  let cur = rev_append (tok_bytes t0) st.p_cur in
  let flags = flags_upd (tok_flag t0) st.p_flags in
  if Z.ltb flags (Zpos (XO (XO (XO (XO (XO (XO (XO (XO (XO (XO (XO (XO (XO
       (XO (XO (XO XH)))))))))))))))))
  then { p_done =
         (app cur
           ((Z.coq_land flags (Zpos (XI (XI (XI (XI (XI (XI (XI XH))))))))) :: st.p_done));
         p_cur = []; p_flags = (Zpos (XO (XO (XO (XO (XO (XO (XO (XO (XO (XO
         (XO (XO (XO (XO (XO (XO (XI (XI (XI (XI (XI (XI (XI
         XH)))))))))))))))))))))))) }
  else { p_done = st.p_done; p_cur = cur; p_flags = flags }

(** val pad_flags : z -> z **)

let pad_flags flags =
  Nat.iter (S (S (S (S (S (S (S (S O)))))))) (fun f ->
    if Z.geb f (Zpos (XO (XO (XO (XO (XO (XO (XO (XO (XO (XO (XO (XO (XO (XO
         (XO (XO XH)))))))))))))))))
    then Z.shiftr f (Zpos XH)
    else f) flags

(** val pack_finish : pstate -> z list **)

let pack_finish st =
  match st.p_cur with
  | [] -> rev' st.p_done
  | _ :: _ ->
    rev'
      (app st.p_cur
        ((Z.coq_land (pad_flags st.p_flags) (Zpos (XI (XI (XI (XI (XI (XI (XI
           XH))))))))) :: st.p_done))

(** val pack : token list -> z list **)

let pack toks =
  pack_finish (fold_left pack_step toks pack_init)

(** val compress : z list -> z list option **)

let compress data = match data with
| [] -> Some []
| _ :: _ ->
  (match tokenize data with
   | Some toks -> Some (pack toks)
   | None -> None)

type dres =
| DOk of z list * z
| OOB_src_read
| OOB_dst_write
| OOB_dst_ref

(** val dec_next :
    z -> (z -> z -> z list -> z -> dres) -> z -> z -> z list -> z -> dres **)

let dec_next dst_len k flags pos outr out_pos =
  if Z.geb out_pos dst_len
  then DOk ((rev' outr), pos)
  else k (Z.shiftr flags (Zpos XH)) pos outr out_pos

(** val dec_copy :
    z -> (z -> z -> z list -> z -> dres) -> z -> z -> z -> z -> z list -> z
    -> dres **)

let dec_copy dst_len k flags pos eo ml0 outr out_pos =
  let ml = Z.add ml0 (Zpos (XI XH)) in
  if Z.ltb out_pos (Z.add eo ml)
  then OOB_dst_ref
  else if Z.ltb dst_len (Z.add out_pos ml)
       then OOB_dst_write
       else dec_next dst_len k flags pos
              (app (firstn (Z.to_nat ml) (skipn (Z.to_nat eo) outr)) outr)
              (Z.add out_pos ml)

(** val dec : z -> z list -> z -> z -> z list -> z -> dres **)

let rec dec dst_len src flags pos outr out_pos =
  match src with
  | [] -> OOB_src_read
  | b0 :: s1 ->
    if Z.eqb
         (Z.coq_land flags (Zpos (XO (XO (XO (XO (XO (XO (XO (XO XH))))))))))
         Z0
    then dec dst_len s1
           (Z.coq_lor b0 (Zpos (XO (XO (XO (XO (XO (XO (XO (XO (XI (XI (XI
             (XI (XI (XI (XI XH))))))))))))))))) (Z.add pos (Zpos XH)) outr
           out_pos
    else if negb (Z.eqb (Z.coq_land flags (Zpos XH)) Z0)
         then if Z.ltb out_pos dst_len
              then dec_next dst_len (dec dst_len s1) flags
                     (Z.add pos (Zpos XH)) (b0 :: outr)
                     (Z.add out_pos (Zpos XH))
              else OOB_dst_write
         else (match s1 with
               | [] -> OOB_src_read
               | hi :: s2 ->
                 if Z.eqb
                      (Z.coq_land b0 (Zpos (XO (XO (XO (XO (XO (XO (XO
                        XH))))))))) Z0
                 then dec_copy dst_len (dec dst_len s2) flags
                        (Z.add pos (Zpos (XO XH))) b0 hi outr out_pos
                 else if Z.eqb
                           (Z.coq_land hi (Zpos (XO (XO (XO (XO (XO (XO (XO
                             XH))))))))) Z0
                      then dec_copy dst_len (dec dst_len s2) flags
                             (Z.add pos (Zpos (XO XH)))
                             (Z.add (Zpos (XO (XO (XO (XO (XO (XO (XO
                               XH))))))))
                               (Z.coq_lor
                                 (Z.coq_land (Z.shiftl hi (Zpos (XO XH)))
                                   (Zpos (XO (XO (XO (XO (XO (XO (XO (XI
                                   XH))))))))))
                                 (Z.coq_land b0 (Zpos (XI (XI (XI (XI (XI (XI
                                   XH))))))))))
                             (Z.coq_land hi (Zpos (XI (XI (XI (XI XH))))))
                             outr out_pos
                      else (match s2 with
                            | [] -> OOB_src_read
                            | l3 :: s3 ->
                              dec_copy dst_len (dec dst_len s3) flags
                                (Z.add pos (Zpos (XI XH)))
                                (Z.add (Zpos (XO (XO (XO (XO (XO (XO (XO
                                  XH))))))))
                                  (Z.coq_lor
                                    (Z.shiftl
                                      (Z.coq_land hi (Zpos (XI (XI (XI (XI
                                        (XI (XI XH)))))))) (Zpos (XI (XI
                                      XH))))
                                    (Z.coq_land b0 (Zpos (XI (XI (XI (XI (XI
                                      (XI XH)))))))))) l3 outr out_pos))

(** val decompress : z list -> z -> dres **)

let decompress src dst_len =
  dec dst_len src Z0 Z0 [] Z0

type sres =
| SOk of z list
| SRuntimeError
| SOob of dres

(** val decompress_string : z list -> z -> z -> sres **)

let decompress_string s clen ulen =
  match decompress s ulen with
  | DOk (out, consumed) ->
    if Z.eqb consumed clen then SOk out else SRuntimeError
  | x -> SOob x

(** val lzss_emitted : z list -> bool **)

let lzss_emitted data =
  match compress data with
  | Some c ->
    negb
      (Z.gtb (Z.of_nat (length c))
        (Z.sub (Z.of_nat (length data)) (Zpos (XO (XO (XO (XI (XO (XO (XI
          XH))))))))))
  | None -> false

(** val expand_r : token list -> z list -> z list **)

let rec expand_r toks outr =
  match toks with
  | [] -> outr
  | t0 :: r ->
    (match t0 with
     | TLit b -> expand_r r (b :: outr)
     | TRef (eo, len, _) ->
       expand_r r
         (app (firstn (Z.to_nat len) (skipn (Z.to_nat eo) outr)) outr))

(** val expand : token list -> z list **)

let expand toks =
  rev' (expand_r toks [])
