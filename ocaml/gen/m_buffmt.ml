
(** val negb : bool -> bool **)

let negb = function
| true -> false
| false -> true

type nat =
| O
| S of nat

(** val fst : ('a1 * 'a2) -> 'a1 **)

let fst = function
| (x, _) -> x

(** val snd : ('a1 * 'a2) -> 'a2 **)

let snd = function
| (_, y) -> y

(** val length : 'a1 list -> nat **)

let rec length = function
| [] -> O
| _ :: l' -> S (length l')

(** val app : 'a1 list -> 'a1 list -> 'a1 list **)

let rec app l m =
  match l with
  | [] -> m
  | a :: l1 -> a :: (app l1 m)

type comparison =
| Eq
| Lt
| Gt

(** val compOpp : comparison -> comparison **)

let compOpp = function
| Eq -> Eq
| Lt -> Gt
| Gt -> Lt

module Coq__1 = struct
 (** val add : nat -> nat -> nat **)
 let rec add n0 m =
   match n0 with
   | O -> m
   | S p -> S (add p m)
end
include Coq__1

type positive =
| XI of positive
| XO of positive
| XH

type n =
| N0
| Npos of positive

type z =
| Z0
| Zpos of positive
| Zneg of positive

(** val eqb : bool -> bool -> bool **)

let eqb b1 b2 =
  if b1 then b2 else if b2 then false else true

module Nat =
 struct
  (** val eqb : nat -> nat -> bool **)

  let rec eqb n0 m =
    match n0 with
    | O -> (match m with
            | O -> true
            | S _ -> false)
    | S n' -> (match m with
               | O -> false
               | S m' -> eqb n' m')

  (** val leb : nat -> nat -> bool **)

  let rec leb n0 m =
    match n0 with
    | O -> true
    | S n' -> (match m with
               | O -> false
               | S m' -> leb n' m')

  (** val ltb : nat -> nat -> bool **)

  let ltb n0 m =
    leb (S n0) m
 end

module Pos =
 struct
  (** val succ : positive -> positive **)

  let rec succ = function
  | XI p -> XO (succ p)
  | XO p -> XI p
  | XH -> XO XH

  (** val add : positive -> positive -> positive **)

  let rec add x y =
    match x with
    | XI p ->
      (match y with
       | XI q -> XO (add_carry p q)
       | XO q -> XI (add p q)
       | XH -> XO (succ p))
    | XO p ->
      (match y with
       | XI q -> XI (add p q)
       | XO q -> XO (add p q)
       | XH -> XI p)
    | XH -> (match y with
             | XI q -> XO (succ q)
             | XO q -> XI q
             | XH -> XO XH)

  (** val add_carry : positive -> positive -> positive **)

  and add_carry x y =
    match x with
    | XI p ->
      (match y with
       | XI q -> XI (add_carry p q)
       | XO q -> XO (add_carry p q)
       | XH -> XI (succ p))
    | XO p ->
      (match y with
       | XI q -> XO (add_carry p q)
       | XO q -> XI (add p q)
       | XH -> XO (succ p))
    | XH ->
      (match y with
       | XI q -> XI (succ q)
       | XO q -> XO (succ q)
       | XH -> XI XH)

  (** val pred_double : positive -> positive **)

  let rec pred_double = function
  | XI p -> XI (XO p)
  | XO p -> XI (pred_double p)
  | XH -> XH

  (** val mul : positive -> positive -> positive **)

  let rec mul x y =
    match x with
    | XI p -> add y (XO (mul p y))
    | XO p -> XO (mul p y)
    | XH -> y

  (** val size : positive -> positive **)

  let rec size = function
  | XI p0 -> succ (size p0)
  | XO p0 -> succ (size p0)
  | XH -> XH

  (** val compare_cont : comparison -> positive -> positive -> comparison **)

  let rec compare_cont r x y =
    match x with
    | XI p ->
      (match y with
       | XI q -> compare_cont r p q
       | XO q -> compare_cont Gt p q
       | XH -> Gt)
    | XO p ->
      (match y with
       | XI q -> compare_cont Lt p q
       | XO q -> compare_cont r p q
       | XH -> Gt)
    | XH -> (match y with
             | XH -> r
             | _ -> Lt)

  (** val compare : positive -> positive -> comparison **)

  let compare =
    compare_cont Eq

  (** val eqb : positive -> positive -> bool **)

  let rec eqb p q =
    match p with
    | XI p0 -> (match q with
                | XI q0 -> eqb p0 q0
                | _ -> false)
    | XO p0 -> (match q with
                | XO q0 -> eqb p0 q0
                | _ -> false)
    | XH -> (match q with
             | XH -> true
             | _ -> false)

  (** val iter_op : ('a1 -> 'a1 -> 'a1) -> positive -> 'a1 -> 'a1 **)

  let rec iter_op op p a =
    match p with
    | XI p0 -> op a (iter_op op p0 (op a a))
    | XO p0 -> iter_op op p0 (op a a)
    | XH -> a

  (** val to_nat : positive -> nat **)

  let to_nat x =
    iter_op Coq__1.add x (S O)

  (** val of_succ_nat : nat -> positive **)

  let rec of_succ_nat = function
  | O -> XH
  | S x -> succ (of_succ_nat x)
 end

module Z =
 struct
  (** val double : z -> z **)

  let double = function
  | Z0 -> Z0
  | Zpos p -> Zpos (XO p)
  | Zneg p -> Zneg (XO p)

  (** val succ_double : z -> z **)

  let succ_double = function
  | Z0 -> Zpos XH
  | Zpos p -> Zpos (XI p)
  | Zneg p -> Zneg (Pos.pred_double p)

  (** val pred_double : z -> z **)

  let pred_double = function
  | Z0 -> Zneg XH
  | Zpos p -> Zpos (Pos.pred_double p)
  | Zneg p -> Zneg (XI p)

  (** val pos_sub : positive -> positive -> z **)

  let rec pos_sub x y =
    match x with
    | XI p ->
      (match y with
       | XI q -> double (pos_sub p q)
       | XO q -> succ_double (pos_sub p q)
       | XH -> Zpos (XO p))
    | XO p ->
      (match y with
       | XI q -> pred_double (pos_sub p q)
       | XO q -> double (pos_sub p q)
       | XH -> Zpos (Pos.pred_double p))
    | XH ->
      (match y with
       | XI q -> Zneg (XO q)
       | XO q -> Zneg (Pos.pred_double q)
       | XH -> Z0)

  (** val add : z -> z -> z **)

  let add x y =
    match x with
    | Z0 -> y
    | Zpos x' ->
      (match y with
       | Z0 -> x
       | Zpos y' -> Zpos (Pos.add x' y')
       | Zneg y' -> pos_sub x' y')
    | Zneg x' ->
      (match y with
       | Z0 -> x
       | Zpos y' -> pos_sub y' x'
       | Zneg y' -> Zneg (Pos.add x' y'))

  (** val opp : z -> z **)

  let opp = function
  | Z0 -> Z0
  | Zpos x0 -> Zneg x0
  | Zneg x0 -> Zpos x0

  (** val sub : z -> z -> z **)

  let sub m n0 =
    add m (opp n0)

  (** val mul : z -> z -> z **)

  let mul x y =
    match x with
    | Z0 -> Z0
    | Zpos x' ->
      (match y with
       | Z0 -> Z0
       | Zpos y' -> Zpos (Pos.mul x' y')
       | Zneg y' -> Zneg (Pos.mul x' y'))
    | Zneg x' ->
      (match y with
       | Z0 -> Z0
       | Zpos y' -> Zneg (Pos.mul x' y')
       | Zneg y' -> Zpos (Pos.mul x' y'))

  (** val compare : z -> z -> comparison **)

  let compare x y =
    match x with
    | Z0 -> (match y with
             | Z0 -> Eq
             | Zpos _ -> Lt
             | Zneg _ -> Gt)
    | Zpos x' -> (match y with
                  | Zpos y' -> Pos.compare x' y'
                  | _ -> Gt)
    | Zneg x' ->
      (match y with
       | Zneg y' -> compOpp (Pos.compare x' y')
       | _ -> Lt)

  (** val leb : z -> z -> bool **)

  let leb x y =
    match compare x y with
    | Gt -> false
    | _ -> true

  (** val ltb : z -> z -> bool **)

  let ltb x y =
    match compare x y with
    | Lt -> true
    | _ -> false

  (** val eqb : z -> z -> bool **)

  let eqb x y =
    match x with
    | Z0 -> (match y with
             | Z0 -> true
             | _ -> false)
    | Zpos p -> (match y with
                 | Zpos q -> Pos.eqb p q
                 | _ -> false)
    | Zneg p -> (match y with
                 | Zneg q -> Pos.eqb p q
                 | _ -> false)

  (** val abs : z -> z **)

  let abs = function
  | Zneg p -> Zpos p
  | x -> x

  (** val to_nat : z -> nat **)

  let to_nat = function
  | Zpos p -> Pos.to_nat p
  | _ -> O

  (** val of_nat : nat -> z **)

  let of_nat = function
  | O -> Z0
  | S n1 -> Zpos (Pos.of_succ_nat n1)

  (** val pos_div_eucl : positive -> z -> z * z **)

  let rec pos_div_eucl a b =
    match a with
    | XI a' ->
      let (q, r) = pos_div_eucl a' b in
      let r' = add (mul (Zpos (XO XH)) r) (Zpos XH) in
      if ltb r' b
      then ((mul (Zpos (XO XH)) q), r')
      else ((add (mul (Zpos (XO XH)) q) (Zpos XH)), (sub r' b))
    | XO a' ->
      let (q, r) = pos_div_eucl a' b in
      let r' = mul (Zpos (XO XH)) r in
      if ltb r' b
      then ((mul (Zpos (XO XH)) q), r')
      else ((add (mul (Zpos (XO XH)) q) (Zpos XH)), (sub r' b))
    | XH -> if leb (Zpos (XO XH)) b then (Z0, (Zpos XH)) else ((Zpos XH), Z0)

  (** val div_eucl : z -> z -> z * z **)

  let div_eucl a b =
    match a with
    | Z0 -> (Z0, Z0)
    | Zpos a' ->
      (match b with
       | Z0 -> (Z0, a)
       | Zpos _ -> pos_div_eucl a' b
       | Zneg b' ->
         let (q, r) = pos_div_eucl a' (Zpos b') in
         (match r with
          | Z0 -> ((opp q), Z0)
          | _ -> ((opp (add q (Zpos XH))), (add b r))))
    | Zneg a' ->
      (match b with
       | Z0 -> (Z0, a)
       | Zpos _ ->
         let (q, r) = pos_div_eucl a' b in
         (match r with
          | Z0 -> ((opp q), Z0)
          | _ -> ((opp (add q (Zpos XH))), (sub b r)))
       | Zneg b' -> let (q, r) = pos_div_eucl a' (Zpos b') in (q, (opp r)))

  (** val div : z -> z -> z **)

  let div a b =
    let (q, _) = div_eucl a b in q

  (** val modulo : z -> z -> z **)

  let modulo a b =
    let (_, r) = div_eucl a b in r

  (** val log2 : z -> z **)

  let log2 = function
  | Zpos p0 ->
    (match p0 with
     | XI p -> Zpos (Pos.size p)
     | XO p -> Zpos (Pos.size p)
     | XH -> Z0)
  | _ -> Z0
 end

(** val tl : 'a1 list -> 'a1 list **)

let tl = function
| [] -> []
| _ :: m -> m

(** val nth : nat -> 'a1 list -> 'a1 -> 'a1 **)

let rec nth n0 l default =
  match n0 with
  | O -> (match l with
          | [] -> default
          | x :: _ -> x)
  | S m -> (match l with
            | [] -> default
            | _ :: t -> nth m t default)

(** val rev : 'a1 list -> 'a1 list **)

let rec rev = function
| [] -> []
| x :: l' -> app (rev l') (x :: [])

(** val concat : 'a1 list list -> 'a1 list **)

let rec concat = function
| [] -> []
| x :: l0 -> app x (concat l0)

(** val map : ('a1 -> 'a2) -> 'a1 list -> 'a2 list **)

let rec map f = function
| [] -> []
| a :: t -> (f a) :: (map f t)

(** val fold_left : ('a1 -> 'a2 -> 'a1) -> 'a2 list -> 'a1 -> 'a1 **)

let rec fold_left f l a0 =
  match l with
  | [] -> a0
  | b :: t -> fold_left f t (f a0 b)

(** val fold_right : ('a2 -> 'a1 -> 'a1) -> 'a1 -> 'a2 list -> 'a1 **)

let rec fold_right f a0 = function
| [] -> a0
| b :: t -> f b (fold_right f a0 t)

(** val existsb : ('a1 -> bool) -> 'a1 list -> bool **)

let rec existsb f = function
| [] -> false
| a :: l0 -> (||) (f a) (existsb f l0)

(** val forallb : ('a1 -> bool) -> 'a1 list -> bool **)

let rec forallb f = function
| [] -> true
| a :: l0 -> (&&) (f a) (forallb f l0)

(** val combine : 'a1 list -> 'a2 list -> ('a1 * 'a2) list **)

let rec combine l l' =
  match l with
  | [] -> []
  | x :: tl0 ->
    (match l' with
     | [] -> []
     | y :: tl' -> (x, y) :: (combine tl0 tl'))

(** val seq : nat -> nat -> nat list **)

let rec seq start = function
| O -> []
| S len0 -> start :: (seq (S start) len0)

(** val ex_keep :
    (((((nat * n) * z) * z list) * z option) * positive) * bool **)

let ex_keep =
  ((((((O, N0), Z0), []), None), XH), true)

type leaf = { l_group : z; l_size : z; l_arr : z list }

type tinfo = { ti_fields : (leaf * z) list; ti_size : z; ti_flags : z }

type fixes = { fx_name : bool; fx_arrws : bool; fx_null : bool }

type 'a res =
| Ok of 'a
| Err
| OOB
| NullDeref
| IntOvf
| OutOfFuel

(** val bind : 'a1 res -> ('a1 -> 'a2 res) -> 'a2 res **)

let bind r f =
  match r with
  | Ok a -> f a
  | Err -> Err
  | OOB -> OOB
  | NullDeref -> NullDeref
  | IntOvf -> IntOvf
  | OutOfFuel -> OutOfFuel

type ctx = { hd : (leaf * z) list; off : z; ncnt : z; ecnt : z; salign : 
             z; cplx : bool; etype : z; npm : z; epm : z; iva : bool }

(** val init : tinfo -> ctx **)

let init ti =
  { hd = ti.ti_fields; off = Z0; ncnt = (Zpos XH); ecnt = Z0; salign = Z0;
    cplx = false; etype = Z0; npm = (Zpos (XO (XO (XO (XO (XO (XO XH)))))));
    epm = (Zpos (XO (XO (XO (XO (XO (XO XH))))))); iva = false }

(** val in_list : z -> z list -> bool **)

let in_list c l =
  existsb (Z.eqb c) l

(** val b2z : bool -> z **)

let b2z = function
| true -> Zpos (XO XH)
| false -> Zpos XH

(** val native_size : z -> bool -> z **)

let native_size ch z0 =
  if in_list ch ((Zpos (XI (XI (XI (XI (XI XH)))))) :: ((Zpos (XI (XI (XO (XO
       (XO (XI XH))))))) :: ((Zpos (XO (XI (XO (XO (XO (XI
       XH))))))) :: ((Zpos (XO (XI (XO (XO (XO (XO XH))))))) :: ((Zpos (XI
       (XI (XO (XO (XI (XI XH))))))) :: ((Zpos (XO (XO (XO (XO (XI (XI
       XH))))))) :: []))))))
  then Zpos XH
  else if in_list ch ((Zpos (XO (XO (XO (XI (XO (XI XH))))))) :: ((Zpos (XO
            (XO (XO (XI (XO (XO XH))))))) :: []))
       then Zpos (XO XH)
       else if in_list ch ((Zpos (XI (XO (XO (XI (XO (XI XH))))))) :: ((Zpos
                 (XI (XO (XO (XI (XO (XO XH))))))) :: []))
            then Zpos (XO (XO XH))
            else if in_list ch ((Zpos (XO (XO (XI (XI (XO (XI
                      XH))))))) :: ((Zpos (XO (XO (XI (XI (XO (XO
                      XH))))))) :: ((Zpos (XI (XO (XO (XO (XI (XI
                      XH))))))) :: ((Zpos (XI (XO (XO (XO (XI (XO
                      XH))))))) :: []))))
                 then Zpos (XO (XO (XO XH)))
                 else if Z.eqb ch (Zpos (XO (XI (XI (XO (XO (XI XH)))))))
                      then Z.mul (Zpos (XO (XO XH))) (b2z z0)
                      else if Z.eqb ch (Zpos (XO (XO (XI (XO (XO (XI XH)))))))
                           then Z.mul (Zpos (XO (XO (XO XH)))) (b2z z0)
                           else if Z.eqb ch (Zpos (XI (XI (XI (XO (XO (XI
                                     XH)))))))
                                then Z.mul (Zpos (XO (XO (XO (XO XH)))))
                                       (b2z z0)
                                else if in_list ch ((Zpos (XI (XI (XI (XI (XO
                                          (XO XH))))))) :: ((Zpos (XO (XO (XO
                                          (XO (XI (XO XH))))))) :: []))
                                     then Zpos (XO (XO (XO XH)))
                                     else Z0

(** val standard_size : z -> bool -> z **)

let standard_size ch z0 =
  if in_list ch ((Zpos (XI (XI (XI (XI (XI XH)))))) :: ((Zpos (XI (XI (XO (XO
       (XO (XI XH))))))) :: ((Zpos (XO (XI (XO (XO (XO (XI
       XH))))))) :: ((Zpos (XO (XI (XO (XO (XO (XO XH))))))) :: ((Zpos (XI
       (XI (XO (XO (XI (XI XH))))))) :: ((Zpos (XO (XO (XO (XO (XI (XI
       XH))))))) :: []))))))
  then Zpos XH
  else if in_list ch ((Zpos (XO (XO (XO (XI (XO (XI XH))))))) :: ((Zpos (XO
            (XO (XO (XI (XO (XO XH))))))) :: []))
       then Zpos (XO XH)
       else if in_list ch ((Zpos (XI (XO (XO (XI (XO (XI XH))))))) :: ((Zpos
                 (XI (XO (XO (XI (XO (XO XH))))))) :: ((Zpos (XO (XO (XI (XI
                 (XO (XI XH))))))) :: ((Zpos (XO (XO (XI (XI (XO (XO
                 XH))))))) :: []))))
            then Zpos (XO (XO XH))
            else if in_list ch ((Zpos (XI (XO (XO (XO (XI (XI
                      XH))))))) :: ((Zpos (XI (XO (XO (XO (XI (XO
                      XH))))))) :: []))
                 then Zpos (XO (XO (XO XH)))
                 else if Z.eqb ch (Zpos (XO (XI (XI (XO (XO (XI XH)))))))
                      then Z.mul (Zpos (XO (XO XH))) (b2z z0)
                      else if Z.eqb ch (Zpos (XO (XO (XI (XO (XO (XI XH)))))))
                           then Z.mul (Zpos (XO (XO (XO XH)))) (b2z z0)
                           else if Z.eqb ch (Zpos (XI (XI (XI (XO (XO (XI
                                     XH)))))))
                                then Z0
                                else if in_list ch ((Zpos (XI (XI (XI (XI (XO
                                          (XO XH))))))) :: ((Zpos (XO (XO (XO
                                          (XO (XI (XO XH))))))) :: []))
                                     then Zpos (XO (XO (XO XH)))
                                     else Z0

(** val alignment : z -> z **)

let alignment ch =
  if in_list ch ((Zpos (XI (XI (XI (XI (XI XH)))))) :: ((Zpos (XI (XI (XO (XO
       (XO (XI XH))))))) :: ((Zpos (XO (XI (XO (XO (XO (XI
       XH))))))) :: ((Zpos (XO (XI (XO (XO (XO (XO XH))))))) :: ((Zpos (XI
       (XI (XO (XO (XI (XI XH))))))) :: ((Zpos (XO (XO (XO (XO (XI (XI
       XH))))))) :: []))))))
  then Zpos XH
  else if in_list ch ((Zpos (XO (XO (XO (XI (XO (XI XH))))))) :: ((Zpos (XO
            (XO (XO (XI (XO (XO XH))))))) :: []))
       then Zpos (XO XH)
       else if in_list ch ((Zpos (XI (XO (XO (XI (XO (XI XH))))))) :: ((Zpos
                 (XI (XO (XO (XI (XO (XO XH))))))) :: []))
            then Zpos (XO (XO XH))
            else if in_list ch ((Zpos (XO (XO (XI (XI (XO (XI
                      XH))))))) :: ((Zpos (XO (XO (XI (XI (XO (XO
                      XH))))))) :: ((Zpos (XI (XO (XO (XO (XI (XI
                      XH))))))) :: ((Zpos (XI (XO (XO (XO (XI (XO
                      XH))))))) :: []))))
                 then Zpos (XO (XO (XO XH)))
                 else if Z.eqb ch (Zpos (XO (XI (XI (XO (XO (XI XH)))))))
                      then Zpos (XO (XO XH))
                      else if Z.eqb ch (Zpos (XO (XO (XI (XO (XO (XI XH)))))))
                           then Zpos (XO (XO (XO XH)))
                           else if Z.eqb ch (Zpos (XI (XI (XI (XO (XO (XI
                                     XH)))))))
                                then Zpos (XO (XO (XO (XO XH))))
                                else if in_list ch ((Zpos (XI (XI (XI (XI (XO
                                          (XO XH))))))) :: ((Zpos (XO (XO (XO
                                          (XO (XI (XO XH))))))) :: []))
                                     then Zpos (XO (XO (XO XH)))
                                     else Z0

(** val padding : z -> z **)

let padding =
  alignment

(** val type_group : z -> bool -> z **)

let type_group ch z0 =
  if Z.eqb ch (Zpos (XI (XI (XO (XO (XO (XI XH)))))))
  then Zpos (XO (XO (XO (XI (XO (XO XH))))))
  else if in_list ch ((Zpos (XO (XI (XO (XO (XO (XI XH))))))) :: ((Zpos (XO
            (XO (XO (XI (XO (XI XH))))))) :: ((Zpos (XI (XO (XO (XI (XO (XI
            XH))))))) :: ((Zpos (XO (XO (XI (XI (XO (XI XH))))))) :: ((Zpos
            (XI (XO (XO (XO (XI (XI XH))))))) :: ((Zpos (XI (XI (XO (XO (XI
            (XI XH))))))) :: ((Zpos (XO (XO (XO (XO (XI (XI
            XH))))))) :: [])))))))
       then Zpos (XI (XO (XO (XI (XO (XO XH))))))
       else if in_list ch ((Zpos (XI (XI (XI (XI (XI XH)))))) :: ((Zpos (XO
                 (XI (XO (XO (XO (XO XH))))))) :: ((Zpos (XO (XO (XO (XI (XO
                 (XO XH))))))) :: ((Zpos (XI (XO (XO (XI (XO (XO
                 XH))))))) :: ((Zpos (XO (XO (XI (XI (XO (XO
                 XH))))))) :: ((Zpos (XI (XO (XO (XO (XI (XO
                 XH))))))) :: []))))))
            then Zpos (XI (XO (XI (XO (XI (XO XH))))))
            else if in_list ch ((Zpos (XO (XI (XI (XO (XO (XI
                      XH))))))) :: ((Zpos (XO (XO (XI (XO (XO (XI
                      XH))))))) :: ((Zpos (XI (XI (XI (XO (XO (XI
                      XH))))))) :: [])))
                 then if z0
                      then Zpos (XI (XI (XO (XO (XO (XO XH))))))
                      else Zpos (XO (XI (XO (XO (XI (XO XH))))))
                 else if Z.eqb ch (Zpos (XI (XI (XI (XI (XO (XO XH)))))))
                      then Zpos (XI (XI (XI (XI (XO (XO XH))))))
                      else if Z.eqb ch (Zpos (XO (XO (XO (XO (XI (XO XH)))))))
                           then Zpos (XO (XO (XO (XO (XI (XO XH))))))
                           else Z0

(** val is_digit : z -> bool **)

let is_digit c =
  (&&) (Z.leb (Zpos (XO (XO (XO (XO (XI XH)))))) c)
    (Z.leb c (Zpos (XI (XO (XO (XI (XI XH)))))))

(** val iNT_MAX : z **)

let iNT_MAX =
  Zpos (XI (XI (XI (XI (XI (XI (XI (XI (XI (XI (XI (XI (XI (XI (XI (XI (XI
    (XI (XI (XI (XI (XI (XI (XI (XI (XI (XI (XI (XI (XI
    XH))))))))))))))))))))))))))))))

(** val sIZE_MOD : z **)

let sIZE_MOD =
  Zpos (XO (XO (XO (XO (XO (XO (XO (XO (XO (XO (XO (XO (XO (XO (XO (XO (XO
    (XO (XO (XO (XO (XO (XO (XO (XO (XO (XO (XO (XO (XO (XO (XO (XO (XO (XO
    (XO (XO (XO (XO (XO (XO (XO (XO (XO (XO (XO (XO (XO (XO (XO (XO (XO (XO
    (XO (XO (XO (XO (XO (XO (XO (XO (XO (XO (XO
    XH))))))))))))))))))))))))))))))))))))))))))))))))))))))))))))))))

(** val pn_loop : z -> z list -> (z * z list) res **)

let rec pn_loop acc ts = match ts with
| [] -> Ok (acc, ts)
| d :: r ->
  if is_digit d
  then let a =
         Z.add (Z.mul acc (Zpos (XO (XI (XO XH)))))
           (Z.sub d (Zpos (XO (XO (XO (XO (XI XH)))))))
       in
       if Z.ltb iNT_MAX a then IntOvf else pn_loop a r
  else Ok (acc, ts)

(** val parse_number : z list -> (z * z list) option res **)

let parse_number = function
| [] -> Ok None
| d :: r ->
  if is_digit d
  then bind (pn_loop (Z.sub d (Zpos (XO (XO (XO (XO (XI XH))))))) r)
         (fun p -> Ok (Some p))
  else Ok None

(** val expect_number : z list -> (z * z list) res **)

let expect_number ts =
  bind (parse_number ts) (fun o -> match o with
                                   | Some p -> Ok p
                                   | None -> Err)

(** val dec_aux : nat -> z -> z list -> z list **)

let rec dec_aux fuel n0 acc =
  match fuel with
  | O -> acc
  | S f ->
    let acc' =
      (Z.add (Zpos (XO (XO (XO (XO (XI XH))))))
        (Z.modulo n0 (Zpos (XO (XI (XO XH)))))) :: acc
    in
    if Z.ltb n0 (Zpos (XO (XI (XO XH))))
    then acc'
    else dec_aux f (Z.div n0 (Zpos (XO (XI (XO XH))))) acc'

(** val decimal : z -> z list **)

let decimal n0 =
  dec_aux (S (Z.to_nat (Z.log2 n0))) n0 []

(** val align_up : z -> z -> z **)

let align_up o al =
  if Z.eqb (Z.modulo o al) Z0 then o else Z.add o (Z.sub al (Z.modulo o al))

(** val leaf_ok : leaf -> z -> z -> bool **)

let leaf_ok l size0 group =
  (&&) (Z.eqb l.l_size size0)
    ((||)
      ((||) (Z.eqb l.l_group group)
        (Z.eqb l.l_group (Zpos (XO (XO (XO (XI (XO (XO XH)))))))))
      (Z.eqb group (Zpos (XO (XO (XO (XI (XO (XO XH)))))))))

(** val is_native : z -> bool **)

let is_native pm =
  (||) (Z.eqb pm (Zpos (XO (XO (XO (XO (XO (XO XH))))))))
    (Z.eqb pm (Zpos (XO (XI (XI (XI (XI (XO XH))))))))

(** val chunk_loop :
    z -> bool -> z -> z -> z -> (leaf * z) list -> z -> z -> z ->
    ((((leaf * z) list * z) * z) * z) res **)

let rec chunk_loop et z0 pm group arrsz h o cnt sal =
  match h with
  | [] -> NullDeref
  | p :: rest ->
    let (l, fo) = p in
    let size0 =
      if is_native pm then native_size et z0 else standard_size et z0
    in
    let al = alignment et in
    if (&&) (Z.eqb pm (Zpos (XO (XO (XO (XO (XO (XO XH)))))))) (Z.eqb al Z0)
    then Err
    else let o1 =
           if Z.eqb pm (Zpos (XO (XO (XO (XO (XO (XO XH)))))))
           then align_up o al
           else o
         in
         let sal1 =
           if (&&) (Z.eqb pm (Zpos (XO (XO (XO (XO (XO (XO XH))))))))
                (Z.eqb sal Z0)
           then padding et
           else sal
         in
         if negb (leaf_ok l size0 group)
         then Err
         else if negb (Z.eqb o1 fo)
              then Err
              else let o2 =
                     Z.add (Z.add o1 size0)
                       (if Z.eqb arrsz Z0
                        then Z0
                        else Z.mul (Z.sub arrsz (Zpos XH)) size0)
                   in
                   let cnt1 =
                     if Z.eqb cnt Z0
                     then Z.sub sIZE_MOD (Zpos XH)
                     else Z.sub cnt (Zpos XH)
                   in
                   (match rest with
                    | [] ->
                      if Z.eqb cnt1 Z0
                      then Ok ((([], o2), cnt1), sal1)
                      else Err
                    | _ :: _ ->
                      if Z.eqb cnt1 Z0
                      then Ok (((rest, o2), cnt1), sal1)
                      else chunk_loop et z0 pm group arrsz rest o2 cnt1 sal1)

(** val process_chunk : fixes -> ctx -> ctx res **)

let process_chunk fx c =
  if Z.eqb c.etype Z0
  then Ok c
  else (match c.hd with
        | [] -> if fx.fx_null then Err else NullDeref
        | p :: _ ->
          let (l, _) = p in
          let a0 = nth O l.l_arr Z0 in
          let ndim = Z.of_nat (length l.l_arr) in
          let av =
            if Z.eqb a0 Z0
            then Ok ((c.iva, c.ecnt), (Zpos XH))
            else let isstr =
                   (||)
                     (Z.eqb c.etype (Zpos (XI (XI (XO (XO (XI (XI XH))))))))
                     (Z.eqb c.etype (Zpos (XO (XO (XO (XO (XI (XI XH))))))))
                 in
                 let iva1 = if isstr then Z.eqb ndim (Zpos XH) else c.iva in
                 if (&&) isstr (negb (Z.eqb c.ecnt a0))
                 then Err
                 else if negb iva1
                      then Err
                      else Ok ((false, (Zpos XH)),
                             (Z.modulo (fold_left Z.mul l.l_arr (Zpos XH))
                               sIZE_MOD))
          in
          bind av (fun pat ->
            let (p0, arrsz) = pat in
            let (iva1, cnt) = p0 in
            bind
              (chunk_loop c.etype c.cplx c.epm (type_group c.etype c.cplx)
                arrsz c.hd c.off cnt c.salign) (fun pat0 ->
              let (p1, sal) = pat0 in
              let (p2, cnt1) = p1 in
              let (h, o) = p2 in
              Ok { hd = h; off = o; ncnt = c.ncnt; ecnt = cnt1; salign = sal;
              cplx = false; etype = Z0; npm = c.npm; epm = c.epm; iva = iva1 })))

(** val is_arr_space : z -> bool **)

let is_arr_space c =
  in_list c ((Zpos (XO (XO (XO (XO (XO XH)))))) :: ((Zpos (XO (XO (XI
    XH)))) :: ((Zpos (XI (XO (XI XH)))) :: ((Zpos (XO (XI (XO
    XH)))) :: ((Zpos (XI (XO (XO XH)))) :: ((Zpos (XI (XI (XO
    XH)))) :: []))))))

(** val parr_loop :
    fixes -> nat -> z list -> z list -> nat -> (z list * nat) res **)

let rec parr_loop fx fuel arr ts i =
  match fuel with
  | O -> OutOfFuel
  | S fuel' ->
    (match ts with
     | [] -> Ok (ts, i)
     | ch :: r ->
       if Z.eqb ch (Zpos (XI (XO (XO (XI (XO XH))))))
       then Ok (ts, i)
       else if is_arr_space ch
            then if fx.fx_arrws
                 then parr_loop fx fuel' arr r i
                 else parr_loop fx fuel' arr ts i
            else bind (expect_number ts) (fun pat ->
                   let (number, ts1) = pat in
                   if (&&) (Nat.ltb i (length arr))
                        (negb (Z.eqb number (nth i arr Z0)))
                   then Err
                   else (match ts1 with
                         | [] -> Err
                         | z0 :: r1 ->
                           (match z0 with
                            | Zpos p ->
                              (match p with
                               | XI p0 ->
                                 (match p0 with
                                  | XO p1 ->
                                    (match p1 with
                                     | XO p2 ->
                                       (match p2 with
                                        | XI p3 ->
                                          (match p3 with
                                           | XO p4 ->
                                             (match p4 with
                                              | XH ->
                                                parr_loop fx fuel' arr ts1 (S
                                                  i)
                                              | _ -> Err)
                                           | _ -> Err)
                                        | _ -> Err)
                                     | _ -> Err)
                                  | _ -> Err)
                               | XO p0 ->
                                 (match p0 with
                                  | XO p1 ->
                                    (match p1 with
                                     | XI p2 ->
                                       (match p2 with
                                        | XI p3 ->
                                          (match p3 with
                                           | XO p4 ->
                                             (match p4 with
                                              | XH ->
                                                parr_loop fx fuel' arr r1 (S
                                                  i)
                                              | _ -> Err)
                                           | _ -> Err)
                                        | _ -> Err)
                                     | _ -> Err)
                                  | _ -> Err)
                               | XH -> Err)
                            | _ -> Err))))

(** val parse_array : fixes -> nat -> z list -> ctx -> (z list * ctx) res **)

let parse_array fx fuel ts c =
  if negb (Z.eqb c.ncnt (Zpos XH))
  then Err
  else bind (process_chunk fx c) (fun c1 ->
         match c1.hd with
         | [] -> if fx.fx_null then Err else NullDeref
         | p :: _ ->
           let (l, _) = p in
           bind (parr_loop fx fuel l.l_arr ts O) (fun pat ->
             let (ts1, i) = pat in
             if negb (Nat.eqb i (length l.l_arr))
             then Err
             else (match ts1 with
                   | [] -> Err
                   | _ :: r ->
                     Ok (r, { hd = c1.hd; off = c1.off; ncnt = (Zpos XH);
                       ecnt = c1.ecnt; salign = c1.salign; cplx = c1.cplx;
                       etype = c1.etype; npm = c1.npm; epm = c1.epm; iva =
                       true }))))

(** val skip_name : fixes -> z list -> z list res **)

let rec skip_name fx = function
| [] -> if fx.fx_name then Err else OOB
| ch :: r ->
  if Z.eqb ch (Zpos (XO (XI (XO (XI (XI XH)))))) then Ok r else skip_name fx r

(** val iter_pos : positive -> ('a1 -> 'a1 res) -> 'a1 -> 'a1 res **)

let rec iter_pos p f a =
  match p with
  | XI q -> bind (f a) (fun b -> bind (iter_pos q f b) (iter_pos q f))
  | XO q -> bind (iter_pos q f a) (iter_pos q f)
  | XH -> f a

(** val iter_z : z -> ('a1 -> 'a1 res) -> 'a1 -> 'a1 res **)

let iter_z n0 f a =
  match n0 with
  | Zpos p -> iter_pos p f a
  | _ -> Ok a

(** val type_chars : z list **)

let type_chars =
  (Zpos (XI (XI (XI (XI (XI XH)))))) :: ((Zpos (XI (XI (XO (XO (XO (XI
    XH))))))) :: ((Zpos (XO (XI (XO (XO (XO (XI XH))))))) :: ((Zpos (XO (XI
    (XO (XO (XO (XO XH))))))) :: ((Zpos (XO (XO (XO (XI (XO (XI
    XH))))))) :: ((Zpos (XO (XO (XO (XI (XO (XO XH))))))) :: ((Zpos (XI (XO
    (XO (XI (XO (XI XH))))))) :: ((Zpos (XI (XO (XO (XI (XO (XO
    XH))))))) :: ((Zpos (XO (XO (XI (XI (XO (XI XH))))))) :: ((Zpos (XO (XO
    (XI (XI (XO (XO XH))))))) :: ((Zpos (XI (XO (XO (XO (XI (XI
    XH))))))) :: ((Zpos (XI (XO (XO (XO (XI (XO XH))))))) :: ((Zpos (XO (XI
    (XI (XO (XO (XI XH))))))) :: ((Zpos (XO (XO (XI (XO (XO (XI
    XH))))))) :: ((Zpos (XI (XI (XI (XO (XO (XI XH))))))) :: ((Zpos (XI (XI
    (XI (XI (XO (XO XH))))))) :: ((Zpos (XO (XO (XO (XO (XI (XI
    XH))))))) :: []))))))))))))))))

(** val type_char : fixes -> z -> bool -> bool -> ctx -> ctx res **)

let type_char fx ch gotz pool_ok c =
  if (&&)
       ((&&) ((&&) ((&&) pool_ok (Z.eqb c.etype ch)) (eqb gotz c.cplx))
         (Z.eqb c.epm c.npm)) (negb c.iva)
  then Ok { hd = c.hd; off = c.off; ncnt = (Zpos XH); ecnt =
         (Z.add c.ecnt c.ncnt); salign = c.salign; cplx = c.cplx; etype =
         c.etype; npm = c.npm; epm = c.epm; iva = c.iva }
  else bind (process_chunk fx c) (fun c1 -> Ok { hd = c1.hd; off = c1.off;
         ncnt = (Zpos XH); ecnt = c1.ncnt; salign = c1.salign; cplx = gotz;
         etype = ch; npm = c1.npm; epm = c1.npm; iva = c1.iva })

(** val check_string : fixes -> nat -> z list -> ctx -> (z list * ctx) res **)

let rec check_string fx fuel ts c =
  match fuel with
  | O -> OutOfFuel
  | S fuel' ->
    (match ts with
     | [] ->
       if (&&) (negb (Z.eqb c.etype Z0))
            (match c.hd with
             | [] -> true
             | _ :: _ -> false)
       then Err
       else bind (process_chunk fx c) (fun c1 ->
              match c1.hd with
              | [] -> Ok (ts, c1)
              | _ :: _ -> Err)
     | ch :: r ->
       if in_list ch ((Zpos (XO (XO (XO (XO (XO XH)))))) :: ((Zpos (XI (XO
            (XI XH)))) :: ((Zpos (XO (XI (XO XH)))) :: [])))
       then check_string fx fuel' r c
       else if Z.eqb ch (Zpos (XO (XO (XI (XI (XI XH))))))
            then check_string fx fuel' r { hd = c.hd; off = c.off; ncnt =
                   c.ncnt; ecnt = c.ecnt; salign = c.salign; cplx = c.cplx;
                   etype = c.etype; npm = (Zpos (XI (XO (XI (XI (XI XH))))));
                   epm = c.epm; iva = c.iva }
            else if in_list ch ((Zpos (XO (XI (XI (XI (XI XH)))))) :: ((Zpos
                      (XI (XO (XO (XO (XO XH)))))) :: []))
                 then Err
                 else if in_list ch ((Zpos (XI (XO (XI (XI (XI
                           XH)))))) :: ((Zpos (XO (XO (XO (XO (XO (XO
                           XH))))))) :: ((Zpos (XO (XI (XI (XI (XI (XO
                           XH))))))) :: [])))
                      then check_string fx fuel' r { hd = c.hd; off = c.off;
                             ncnt = c.ncnt; ecnt = c.ecnt; salign = c.salign;
                             cplx = c.cplx; etype = c.etype; npm = ch; epm =
                             c.epm; iva = c.iva }
                      else if Z.eqb ch (Zpos (XO (XO (XI (XO (XI (XO XH)))))))
                           then (match r with
                                 | [] -> Err
                                 | z0 :: r2 ->
                                   (match z0 with
                                    | Zpos p ->
                                      (match p with
                                       | XI p0 ->
                                         (match p0 with
                                          | XI p1 ->
                                            (match p1 with
                                             | XO p2 ->
                                               (match p2 with
                                                | XI p3 ->
                                                  (match p3 with
                                                   | XI p4 ->
                                                     (match p4 with
                                                      | XI p5 ->
                                                        (match p5 with
                                                         | XH ->
                                                           let count = c.ncnt
                                                           in
                                                           let sal0 = c.salign
                                                           in
                                                           bind
                                                             (process_chunk
                                                               fx { hd =
                                                               c.hd; off =
                                                               c.off; ncnt =
                                                               (Zpos XH);
                                                               ecnt = c.ecnt;
                                                               salign =
                                                               c.salign;
                                                               cplx = c.cplx;
                                                               etype =
                                                               c.etype; npm =
                                                               c.npm; epm =
                                                               c.epm; iva =
                                                               c.iva })
                                                             (fun c1 ->
                                                             let c2 = { hd =
                                                               c1.hd; off =
                                                               c1.off; ncnt =
                                                               c1.ncnt;
                                                               ecnt = Z0;
                                                               salign = Z0;
                                                               cplx =
                                                               c1.cplx;
                                                               etype = Z0;
                                                               npm = c1.npm;
                                                               epm = c1.epm;
                                                               iva = c1.iva }
                                                             in
                                                             bind
                                                               (iter_z count
                                                                 (fun st ->
                                                                 check_string
                                                                   fx fuel'
                                                                   r2 
                                                                   (snd st))
                                                                 (r2, c2))
                                                               (fun pat ->
                                                               let (ts1, c3) =
                                                                 pat
                                                               in
                                                               let c4 =
                                                                 if Z.eqb
                                                                    sal0 Z0
                                                                 then c3
                                                                 else 
                                                                   { hd =
                                                                    c3.hd;
                                                                    off =
                                                                    c3.off;
                                                                    ncnt =
                                                                    c3.ncnt;
                                                                    ecnt =
                                                                    c3.ecnt;
                                                                    salign =
                                                                    sal0;
                                                                    cplx =
                                                                    c3.cplx;
                                                                    etype =
                                                                    c3.etype;
                                                                    npm =
                                                                    c3.npm;
                                                                    epm =
                                                                    c3.epm;
                                                                    iva =
                                                                    c3.iva }
                                                               in
                                                               check_string
                                                                 fx fuel' ts1
                                                                 c4))
                                                         | _ -> Err)
                                                      | _ -> Err)
                                                   | _ -> Err)
                                                | _ -> Err)
                                             | _ -> Err)
                                          | _ -> Err)
                                       | _ -> Err)
                                    | _ -> Err))
                           else if Z.eqb ch (Zpos (XI (XO (XI (XI (XI (XI
                                     XH)))))))
                                then let al = c.salign in
                                     bind (process_chunk fx c) (fun c1 ->
                                       let o1 =
                                         if (&&) (negb (Z.eqb al Z0))
                                              (negb
                                                (Z.eqb (Z.modulo c1.off al)
                                                  Z0))
                                         then Z.add c1.off
                                                (Z.sub al
                                                  (Z.modulo c1.off al))
                                         else c1.off
                                       in
                                       Ok (r, { hd = c1.hd; off = o1; ncnt =
                                       c1.ncnt; ecnt = c1.ecnt; salign =
                                       c1.salign; cplx = c1.cplx; etype = Z0;
                                       npm = c1.npm; epm = c1.epm; iva =
                                       c1.iva }))
                                else if Z.eqb ch (Zpos (XO (XO (XO (XI (XI
                                          (XI XH)))))))
                                     then bind (process_chunk fx c)
                                            (fun c1 ->
                                            check_string fx fuel' r { hd =
                                              c1.hd; off =
                                              (Z.add c1.off c1.ncnt); ncnt =
                                              (Zpos XH); ecnt = Z0; salign =
                                              c1.salign; cplx = c1.cplx;
                                              etype = Z0; npm = c1.npm; epm =
                                              c1.npm; iva = c1.iva })
                                     else if Z.eqb ch (Zpos (XO (XI (XO (XI
                                               (XI (XO XH)))))))
                                          then (match r with
                                                | [] -> Err
                                                | ch2 :: r2 ->
                                                  if in_list ch2 ((Zpos (XO
                                                       (XI (XI (XO (XO (XI
                                                       XH))))))) :: ((Zpos
                                                       (XO (XO (XI (XO (XO
                                                       (XI
                                                       XH))))))) :: ((Zpos
                                                       (XI (XI (XI (XO (XO
                                                       (XI XH))))))) :: [])))
                                                  then bind
                                                         (type_char fx ch2
                                                           true true c)
                                                         (fun c1 ->
                                                         check_string fx
                                                           fuel' r2 c1)
                                                  else Err)
                                          else if in_list ch type_chars
                                               then bind
                                                      (type_char fx ch false
                                                        true c) (fun c1 ->
                                                      check_string fx fuel' r
                                                        c1)
                                               else if Z.eqb ch (Zpos (XI (XI
                                                         (XO (XO (XI (XI
                                                         XH)))))))
                                                    then bind
                                                           (type_char fx ch
                                                             false false c)
                                                           (fun c1 ->
                                                           check_string fx
                                                             fuel' r c1)
                                                    else if Z.eqb ch (Zpos
                                                              (XO (XI (XO (XI
                                                              (XI XH))))))
                                                         then bind
                                                                (skip_name fx
                                                                  r)
                                                                (fun r1 ->
                                                                check_string
                                                                  fx fuel' r1
                                                                  c)
                                                         else if Z.eqb ch
                                                                   (Zpos (XO
                                                                   (XO (XO
                                                                   (XI (XO
                                                                   XH))))))
                                                              then bind
                                                                    (parse_array
                                                                    fx fuel'
                                                                    r c)
                                                                    (fun pat ->
                                                                    let (
                                                                    r1, c1) =
                                                                    pat
                                                                    in
                                                                    check_string
                                                                    fx fuel'
                                                                    r1 c1)
                                                              else bind
                                                                    (expect_number
                                                                    ts)
                                                                    (fun pat ->
                                                                    let (
                                                                    number, r1) =
                                                                    pat
                                                                    in
                                                                    check_string
                                                                    fx fuel'
                                                                    r1 { hd =
                                                                    c.hd;
                                                                    off =
                                                                    c.off;
                                                                    ncnt =
                                                                    number;
                                                                    ecnt =
                                                                    c.ecnt;
                                                                    salign =
                                                                    c.salign;
                                                                    cplx =
                                                                    c.cplx;
                                                                    etype =
                                                                    c.etype;
                                                                    npm =
                                                                    c.npm;
                                                                    epm =
                                                                    c.epm;
                                                                    iva =
                                                                    c.iva }))

(** val cstr : z list -> z list **)

let rec cstr = function
| [] -> []
| ch :: r -> if Z.eqb ch Z0 then [] else ch :: (cstr r)

(** val check_fuel : fixes -> nat -> z list -> tinfo -> z -> unit res **)

let check_fuel fx fuel s ti itemsize =
  bind (check_string fx fuel (cstr s) (init ti)) (fun _ ->
    if Z.eqb itemsize ti.ti_size then Ok () else Err)

(** val check : fixes -> z list -> tinfo -> z -> unit res **)

let check fx s ti itemsize =
  check_fuel fx (S (length s)) s ti itemsize

type tcode =
| Cc
| Cb
| CB
| Ch
| CH
| Ci
| CI
| Cl
| CL
| Cq
| CQ
| Cbool
| Cf
| Cd
| Cg
| CZf
| CZd
| CZg

type kind =
| KChar
| KInt
| KUInt
| KReal
| KComplex

(** val code_kind : tcode -> kind **)

let code_kind = function
| Cc -> KChar
| Cb -> KInt
| Ch -> KInt
| Ci -> KInt
| Cl -> KInt
| Cq -> KInt
| Cf -> KReal
| Cd -> KReal
| Cg -> KReal
| CZf -> KComplex
| CZd -> KComplex
| CZg -> KComplex
| _ -> KUInt

(** val code_nsize : tcode -> z **)

let code_nsize = function
| Cc -> Zpos XH
| Cb -> Zpos XH
| CB -> Zpos XH
| Ch -> Zpos (XO XH)
| CH -> Zpos (XO XH)
| Ci -> Zpos (XO (XO XH))
| CI -> Zpos (XO (XO XH))
| Cbool -> Zpos XH
| Cf -> Zpos (XO (XO XH))
| Cg -> Zpos (XO (XO (XO (XO XH))))
| CZd -> Zpos (XO (XO (XO (XO XH))))
| CZg -> Zpos (XO (XO (XO (XO (XO XH)))))
| _ -> Zpos (XO (XO (XO XH)))

(** val code_ssize : tcode -> z **)

let code_ssize = function
| Cc -> Zpos XH
| Cb -> Zpos XH
| CB -> Zpos XH
| Ch -> Zpos (XO XH)
| CH -> Zpos (XO XH)
| Cq -> Zpos (XO (XO (XO XH)))
| CQ -> Zpos (XO (XO (XO XH)))
| Cbool -> Zpos XH
| Cd -> Zpos (XO (XO (XO XH)))
| Cg -> Z0
| CZf -> Zpos (XO (XO (XO XH)))
| CZd -> Zpos (XO (XO (XO (XO XH))))
| CZg -> Z0
| _ -> Zpos (XO (XO XH))

(** val code_align : tcode -> z **)

let code_align = function
| Cc -> Zpos XH
| Cb -> Zpos XH
| CB -> Zpos XH
| Ch -> Zpos (XO XH)
| CH -> Zpos (XO XH)
| Ci -> Zpos (XO (XO XH))
| CI -> Zpos (XO (XO XH))
| Cbool -> Zpos XH
| Cf -> Zpos (XO (XO XH))
| Cg -> Zpos (XO (XO (XO (XO XH))))
| CZf -> Zpos (XO (XO XH))
| CZg -> Zpos (XO (XO (XO (XO XH))))
| _ -> Zpos (XO (XO (XO XH)))

(** val code_chars : tcode -> z list **)

let code_chars = function
| Cc -> (Zpos (XI (XI (XO (XO (XO (XI XH))))))) :: []
| Cb -> (Zpos (XO (XI (XO (XO (XO (XI XH))))))) :: []
| CB -> (Zpos (XO (XI (XO (XO (XO (XO XH))))))) :: []
| Ch -> (Zpos (XO (XO (XO (XI (XO (XI XH))))))) :: []
| CH -> (Zpos (XO (XO (XO (XI (XO (XO XH))))))) :: []
| Ci -> (Zpos (XI (XO (XO (XI (XO (XI XH))))))) :: []
| CI -> (Zpos (XI (XO (XO (XI (XO (XO XH))))))) :: []
| Cl -> (Zpos (XO (XO (XI (XI (XO (XI XH))))))) :: []
| CL -> (Zpos (XO (XO (XI (XI (XO (XO XH))))))) :: []
| Cq -> (Zpos (XI (XO (XO (XO (XI (XI XH))))))) :: []
| CQ -> (Zpos (XI (XO (XO (XO (XI (XO XH))))))) :: []
| Cbool -> (Zpos (XI (XI (XI (XI (XI XH)))))) :: []
| Cf -> (Zpos (XO (XI (XI (XO (XO (XI XH))))))) :: []
| Cd -> (Zpos (XO (XO (XI (XO (XO (XI XH))))))) :: []
| Cg -> (Zpos (XI (XI (XI (XO (XO (XI XH))))))) :: []
| CZf ->
  (Zpos (XO (XI (XO (XI (XI (XO XH))))))) :: ((Zpos (XO (XI (XI (XO (XO (XI
    XH))))))) :: [])
| CZd ->
  (Zpos (XO (XI (XO (XI (XI (XO XH))))))) :: ((Zpos (XO (XO (XI (XO (XO (XI
    XH))))))) :: [])
| CZg ->
  (Zpos (XO (XI (XO (XI (XI (XO XH))))))) :: ((Zpos (XI (XI (XI (XO (XO (XI
    XH))))))) :: [])

type mode =
| MNative
| MStd
| MUnaligned
| MBig

(** val mode_char : mode -> bool -> z **)

let mode_char m big_bang =
  match m with
  | MNative -> Zpos (XO (XO (XO (XO (XO (XO XH))))))
  | MStd ->
    if big_bang
    then Zpos (XO (XO (XI (XI (XI XH)))))
    else Zpos (XI (XO (XI (XI (XI XH)))))
  | MUnaligned -> Zpos (XO (XI (XI (XI (XI (XO XH))))))
  | MBig ->
    if big_bang
    then Zpos (XI (XO (XO (XO (XO XH)))))
    else Zpos (XO (XI (XI (XI (XI XH)))))

type tok =
| TWs of z
| TMode of mode * bool
| TName of z list
| TItem of z list * tcode
| TPad of z list

(** val dval : z -> z list -> z **)

let dval acc ds =
  fold_left (fun a d ->
    Z.add (Z.mul a (Zpos (XO (XI (XO XH)))))
      (Z.sub d (Zpos (XO (XO (XO (XO (XI XH)))))))) ds acc

(** val count_of : z list -> z **)

let count_of ds = match ds with
| [] -> Zpos XH
| _ :: _ -> dval Z0 ds

(** val render_tok : tok -> z list **)

let render_tok = function
| TWs c -> c :: []
| TMode (m, alt) -> (mode_char m alt) :: []
| TName n0 ->
  (Zpos (XO (XI (XO (XI (XI
    XH)))))) :: (app n0 ((Zpos (XO (XI (XO (XI (XI XH)))))) :: []))
| TItem (ds, t0) -> app ds (code_chars t0)
| TPad ds -> app ds ((Zpos (XO (XO (XO (XI (XI (XI XH))))))) :: [])

(** val render_body : tok list -> z list **)

let render_body b =
  concat (map render_tok b)

type fmt =
| FPlain of tok list
| FRec of tok list * tok list * tok list

(** val render : fmt -> z list **)

let render = function
| FPlain b -> render_body b
| FRec (pre, b, post) ->
  app (render_body pre)
    (app ((Zpos (XO (XO (XI (XO (XI (XO XH))))))) :: ((Zpos (XI (XI (XO (XI
      (XI (XI XH))))))) :: []))
      (app (render_body b)
        (app ((Zpos (XI (XO (XI (XI (XI (XI XH))))))) :: [])
          (render_body post))))

(** val fmt_toks : fmt -> tok list **)

let fmt_toks = function
| FPlain b -> b
| FRec (pre, b, post) -> app pre (app b post)

type item = (kind * z) * z

(** val msize : mode -> tcode -> z **)

let msize m t =
  match m with
  | MNative -> code_nsize t
  | MUnaligned -> code_nsize t
  | _ -> code_ssize t

(** val malign : mode -> tcode -> z -> z **)

let malign m t o =
  match m with
  | MNative -> align_up o (code_align t)
  | _ -> o

(** val items_at : kind -> z -> z -> z -> item list **)

let items_at k sz o n0 =
  map (fun i -> ((k, sz), (Z.add o (Z.mul (Z.of_nat i) sz))))
    (seq O (Z.to_nat n0))

(** val layout : tok list -> mode -> z -> (item list * z) option **)

let rec layout toks m o =
  match toks with
  | [] -> Some ([], o)
  | t0 :: r ->
    (match t0 with
     | TMode (m', _) -> (match m' with
                         | MBig -> None
                         | _ -> layout r m' o)
     | TItem (ds, t) ->
       let sz = msize m t in
       if Z.eqb sz Z0
       then None
       else let o1 = malign m t o in
            (match layout r m (Z.add o1 (Z.mul (count_of ds) sz)) with
             | Some p ->
               let (l, e) = p in
               Some ((app (items_at (code_kind t) sz o1 (count_of ds)) l), e)
             | None -> None)
     | TPad ds -> layout r m (Z.add o (count_of ds))
     | _ -> layout r m o)

(** val group_kind : z -> kind option **)

let group_kind g =
  if Z.eqb g (Zpos (XO (XO (XO (XI (XO (XO XH)))))))
  then Some KChar
  else if Z.eqb g (Zpos (XI (XO (XO (XI (XO (XO XH)))))))
       then Some KInt
       else if Z.eqb g (Zpos (XI (XO (XI (XO (XI (XO XH)))))))
            then Some KUInt
            else if Z.eqb g (Zpos (XO (XI (XO (XO (XI (XO XH)))))))
                 then Some KReal
                 else if Z.eqb g (Zpos (XI (XI (XO (XO (XO (XO XH)))))))
                      then Some KComplex
                      else None

(** val kind_compat : kind -> kind -> bool **)

let kind_compat a b =
  match a with
  | KChar -> (match b with
              | KReal -> false
              | KComplex -> false
              | _ -> true)
  | KInt -> (match b with
             | KChar -> true
             | KInt -> true
             | _ -> false)
  | KUInt -> (match b with
              | KChar -> true
              | KUInt -> true
              | _ -> false)
  | KReal -> (match b with
              | KReal -> true
              | _ -> false)
  | KComplex -> (match b with
                 | KComplex -> true
                 | _ -> false)

(** val item_matches : item -> (leaf * z) -> bool **)

let item_matches it f =
  let (p, o) = it in
  let (k, sz) = p in
  (match group_kind (fst f).l_group with
   | Some k' ->
     (&&) ((&&) (kind_compat k k') (Z.eqb sz (fst f).l_size))
       (Z.eqb o (snd f))
   | None -> false)

(** val layout_matches : item list -> (leaf * z) list -> bool **)

let rec layout_matches l fs =
  match l with
  | [] -> (match fs with
           | [] -> true
           | _ :: _ -> false)
  | it :: l' ->
    (match fs with
     | [] -> false
     | f :: fs' -> (&&) (item_matches it f) (layout_matches l' fs'))

(** val spec_accept : fmt -> tinfo -> z -> bool **)

let spec_accept f ti itemsize =
  match layout (fmt_toks f) MNative Z0 with
  | Some p ->
    let (l, _) = p in
    (&&) (layout_matches l ti.ti_fields) (Z.eqb itemsize ti.ti_size)
  | None -> false

(** val consume :
    z -> kind -> z -> z -> (leaf * z) list -> ((leaf * z) list * z) option **)

let rec consume k kd sz o = function
| [] -> None
| f :: r ->
  if item_matches ((kd, sz), o) f
  then if Z.eqb k (Zpos XH)
       then Some (r, (Z.add o sz))
       else consume (Z.sub k (Zpos XH)) kd sz (Z.add o sz) r
  else None

(** val smatch :
    tok list -> mode -> z -> (leaf * z) list -> ((leaf * z) list * z) option **)

let rec smatch toks m o h =
  match toks with
  | [] -> Some (h, o)
  | t0 :: r ->
    (match t0 with
     | TMode (m', _) -> (match m' with
                         | MBig -> None
                         | _ -> smatch r m' o h)
     | TItem (ds, t) ->
       let sz = msize m t in
       if Z.eqb sz Z0
       then None
       else (match consume (count_of ds) (code_kind t) sz (malign m t o) h with
             | Some p -> let (h', o') = p in smatch r m o' h'
             | None -> None)
     | TPad ds -> smatch r m (Z.add o (count_of ds)) h
     | _ -> smatch r m o h)

type ttype =
| TLeaf of leaf
| TStruct of z * (ttype * z) list

type frame = (ttype * z) list * z

type stack = frame list

(** val init_push : ttype -> stack -> stack res **)

let rec init_push t st =
  match t with
  | TLeaf _ -> Ok st
  | TStruct (_, fs) ->
    (match fs with
     | [] -> NullDeref
     | p :: _ -> let (t1, _) = p in init_push t1 ((fs, Z0) :: st))

(** val s_init : ttype -> stack res **)

let s_init t =
  init_push t ((((t, Z0) :: []), Z0) :: [])

(** val push_sub : bool -> ttype -> z -> stack -> stack **)

let rec push_sub deep t a st =
  match t with
  | TLeaf _ -> st
  | TStruct (_, fs) ->
    (match fs with
     | [] -> st
     | p :: _ ->
       let (t1, o1) = p in
       let st' = (fs, a) :: st in
       if deep then push_sub deep t1 (Z.add a o1) st' else st')

(** val next_in :
    bool -> bool -> (ttype * z) list -> z -> z -> stack -> stack option **)

let rec next_in deep grand fs po gpo below =
  match fs with
  | [] -> None
  | p :: r ->
    let (t, fo) = p in
    (match t with
     | TLeaf _ -> Some ((fs, po) :: below)
     | TStruct (sz, sub0) ->
       (match sub0 with
        | [] -> next_in deep grand r po gpo below
        | _ :: _ ->
          Some
            (push_sub deep (TStruct (sz, sub0))
              (Z.add (if grand then gpo else po) fo) ((fs, po) :: below))))

(** val s_advance : bool -> bool -> stack -> stack **)

let rec s_advance deep grand = function
| [] -> []
| f :: below ->
  let (fs, po) = f in
  (match below with
   | [] -> []
   | f0 :: _ ->
     let (_, gpo) = f0 in
     (match next_in deep grand (tl fs) po gpo below with
      | Some st' -> st'
      | None -> s_advance deep grand below))

(** val s_cur : stack -> (leaf * z) option **)

let s_cur = function
| [] -> None
| f :: _ ->
  let (l1, po) = f in
  (match l1 with
   | [] -> None
   | p :: _ ->
     let (t, fo) = p in
     (match t with
      | TLeaf l -> Some (l, (Z.add po fo))
      | TStruct (sz, _) ->
        Some ({ l_group = (Zpos (XI (XI (XO (XO (XI (XO XH))))))); l_size =
          sz; l_arr = [] }, (Z.add po fo))))

(** val walk_from : nat -> bool -> bool -> stack -> (leaf * z) list res **)

let rec walk_from fuel deep grand st = match st with
| [] -> Ok []
| _ :: _ ->
  (match fuel with
   | O -> OutOfFuel
   | S f ->
     (match s_cur st with
      | Some x ->
        bind (walk_from f deep grand (s_advance deep grand st)) (fun l -> Ok
          (x :: l))
      | None -> NullDeref))

(** val tnodes : ttype -> nat **)

let rec tnodes = function
| TLeaf _ -> S O
| TStruct (_, fs) ->
  S
    (let rec go = function
     | [] -> O
     | p :: r -> let (t1, _) = p in add (tnodes t1) (go r)
     in go fs)

(** val walk : bool -> bool -> ttype -> (leaf * z) list res **)

let walk deep grand t =
  bind (s_init t) (walk_from (tnodes t) deep grand)

(** val t_size : ttype -> z **)

let t_size = function
| TLeaf l -> l.l_size
| TStruct (sz, _) -> sz

(** val check_tree :
    fixes -> bool -> bool -> z list -> ttype -> z -> unit res **)

let check_tree fx deep grand s t itemsize =
  bind (walk deep grand t) (fun l ->
    check fx s { ti_fields = l; ti_size = (t_size t); ti_flags = Z0 } itemsize)

(** val flatten : ttype -> z -> (leaf * z) list **)

let rec flatten t a =
  match t with
  | TLeaf l -> (l, a) :: []
  | TStruct (_, fs) ->
    let rec go = function
    | [] -> []
    | p :: r -> let (t1, o1) = p in app (flatten t1 (Z.add a o1)) (go r)
    in go fs

(** val flat_ti : ttype -> tinfo **)

let flat_ti t =
  { ti_fields = (flatten t Z0); ti_size = (t_size t); ti_flags = Z0 }

type cinfo =
| CInfo of z * z * z * z list * z * (cinfo * z) list option

(** val zlist_eqb : z list -> z list -> bool **)

let rec zlist_eqb a b =
  match a with
  | [] -> (match b with
           | [] -> true
           | _ :: _ -> false)
  | x :: a' ->
    (match b with
     | [] -> false
     | y :: b' -> (&&) (Z.eqb x y) (zlist_eqb a' b'))

(** val arr_prefix_eqb : z list -> z list -> bool **)

let rec arr_prefix_eqb a b =
  match a with
  | [] -> true
  | x :: a' -> (&&) (Z.eqb x (nth O b Z0)) (arr_prefix_eqb a' (tl b))

(** val is_none : 'a1 option -> bool **)

let is_none = function
| Some _ -> false
| None -> true

(** val ticmp : bool -> cinfo -> cinfo -> bool **)

let rec ticmp fixh a b =
  let CInfo (sa, ga, ua, aa, fa, fsa) = a in
  let CInfo (sb, gb, ub, ab, fb, fsb) = b in
  let ndim_eq = Nat.eqb (length aa) (length ab) in
  let base_eq =
    (&&) ((&&) ((&&) (Z.eqb sa sb) (Z.eqb ga gb)) (Z.eqb ua ub)) ndim_eq
  in
  let is_h =
    (||) (Z.eqb ga (Zpos (XO (XO (XO (XI (XO (XO XH))))))))
      (Z.eqb gb (Zpos (XO (XO (XO (XI (XO (XO XH))))))))
  in
  let cont =
    if negb (arr_prefix_eqb aa ab)
    then false
    else if Z.eqb ga (Zpos (XI (XI (XO (XO (XI (XO XH)))))))
         then if negb (Z.eqb fa fb)
              then false
              else (match fsa with
                    | Some la ->
                      (match fsb with
                       | Some lb ->
                         let rec go la0 lb0 =
                           match la0 with
                           | [] ->
                             (match lb0 with
                              | [] -> true
                              | _ :: _ -> false)
                           | p :: ra ->
                             let (ta, oa) = p in
                             (match lb0 with
                              | [] -> false
                              | p0 :: rb ->
                                let (tb, ob) = p0 in
                                (&&) ((&&) (Z.eqb oa ob) (ticmp fixh ta tb))
                                  (go ra rb))
                         in go la lb
                       | None -> false)
                    | None -> (match fsb with
                               | Some _ -> false
                               | None -> true))
         else true
  in
  if base_eq
  then cont
  else if fixh
       then if (&&)
                 ((&&) ((&&) ((&&) is_h (Z.eqb sa sb)) ndim_eq) (is_none fsa))
                 (is_none fsb)
            then cont
            else false
       else if is_h then Z.eqb sa sb else false

type cleaf = (((z * z) * z) * z list) * z

(** val cflat : cinfo -> z -> cleaf list **)

let rec cflat a o =
  let CInfo (s, g, u, arr, _, fs) = a in
  (match fs with
   | Some l ->
     if Z.eqb g (Zpos (XI (XI (XO (XO (XI (XO XH)))))))
     then let rec go = function
          | [] -> []
          | p :: r -> let (t, fo) = p in app (cflat t (Z.add o fo)) (go r)
          in go l
     else ((((g, s), u), arr), o) :: []
   | None -> ((((g, s), u), arr), o) :: [])

(** val cleaf_compat : cleaf -> cleaf -> bool **)

let cleaf_compat x y =
  let (p, ox) = x in
  let (p0, dx) = p in
  let (p1, ux) = p0 in
  let (gx, sx) = p1 in
  let (p2, oy) = y in
  let (p3, dy) = p2 in
  let (p4, uy) = p3 in
  let (gy, sy) = p4 in
  (&&) ((&&) ((&&) (Z.eqb sx sy) (zlist_eqb dx dy)) (Z.eqb ox oy))
    ((||)
      ((||) ((&&) (Z.eqb gx gy) (Z.eqb ux uy))
        (Z.eqb gx (Zpos (XO (XO (XO (XI (XO (XO XH)))))))))
      (Z.eqb gy (Zpos (XO (XO (XO (XI (XO (XO XH)))))))))

(** val forall2b : ('a1 -> 'a1 -> bool) -> 'a1 list -> 'a1 list -> bool **)

let rec forall2b f l1 l2 =
  match l1 with
  | [] -> (match l2 with
           | [] -> true
           | _ :: _ -> false)
  | x :: r1 ->
    (match l2 with
     | [] -> false
     | y :: r2 -> (&&) (f x y) (forall2b f r1 r2))

(** val cinfo_compat : cinfo -> cinfo -> bool **)

let cinfo_compat a b =
  forall2b cleaf_compat (cflat a Z0) (cflat b Z0)

type axis =
| AStrided
| AContig
| AFollow

type cflag =
| FNone
| FC
| FF

(** val check_stride : z -> axis -> z -> z -> bool **)

let check_stride isz ax sh st =
  if Z.leb sh (Zpos XH)
  then true
  else (match ax with
        | AStrided -> true
        | AContig -> Z.eqb st isz
        | AFollow -> Z.leb isz (Z.abs st))

(** val vc_loop : z -> z -> (z * z) list -> bool **)

let rec vc_loop isz stride = function
| [] -> true
| p :: r ->
  let (sh, st) = p in
  if (&&) (negb (Z.eqb (Z.mul stride isz) st)) (Z.ltb (Zpos XH) sh)
  then false
  else vc_loop isz (Z.mul stride sh) r

(** val verify_contig : cflag -> z -> z list -> z list -> bool **)

let verify_contig fl isz shape strides =
  match fl with
  | FNone -> true
  | FC -> vc_loop isz (Zpos XH) (rev (combine shape strides))
  | FF -> vc_loop isz (Zpos XH) (combine shape strides)

(** val check_axes : z -> axis list -> z list -> z list -> bool **)

let check_axes isz axes shape strides =
  forallb (fun t -> check_stride isz (fst t) (fst (snd t)) (snd (snd t)))
    (combine axes (combine shape strides))

(** val prodz : z list -> z **)

let prodz l =
  fold_right Z.mul (Zpos XH) l

(** val validate_axes :
    axis list -> cflag -> z -> z list -> z list -> bool **)

let validate_axes axes fl isz shape strides =
  if negb (Nat.eqb (length shape) (length axes))
  then false
  else if Z.leb (Z.mul (prodz shape) isz) Z0
       then true
       else (&&) (check_axes isz axes shape strides)
              (verify_contig fl isz shape strides)
