
val xorb : bool -> bool -> bool

val negb : bool -> bool

type nat =
| O
| S of nat

val fst : ('a1 * 'a2) -> 'a1

type comparison =
| Eq
| Lt
| Gt

val compOpp : comparison -> comparison

type positive =
| XI of positive
| XO of positive
| XH

type n =
| N0
| Npos of positive

type z =
| Z0
| Zpos of positive
| Zneg of positive

val eqb : bool -> bool -> bool

module Pos :
 sig
  type mask =
  | IsNul
  | IsPos of positive
  | IsNeg
 end

module Coq_Pos :
 sig
  val succ : positive -> positive

  val add : positive -> positive -> positive

  val add_carry : positive -> positive -> positive

  val pred_double : positive -> positive

  type mask = Pos.mask =
  | IsNul
  | IsPos of positive
  | IsNeg

  val succ_double_mask : mask -> mask

  val double_mask : mask -> mask

  val double_pred_mask : positive -> mask

  val sub_mask : positive -> positive -> mask

  val sub_mask_carry : positive -> positive -> mask

  val mul : positive -> positive -> positive

  val iter : ('a1 -> 'a1) -> 'a1 -> positive -> 'a1

  val div2 : positive -> positive

  val div2_up : positive -> positive

  val compare_cont : comparison -> positive -> positive -> comparison

  val compare : positive -> positive -> comparison

  val leb : positive -> positive -> bool

  val sqrtrem_step :
    (positive -> positive) -> (positive -> positive) -> (positive * mask) ->
    positive * mask

  val sqrtrem : positive -> positive * mask
 end

module Z :
 sig
  val double : z -> z

  val succ_double : z -> z

  val pred_double : z -> z

  val pos_sub : positive -> positive -> z

  val add : z -> z -> z

  val opp : z -> z

  val sub : z -> z -> z

  val mul : z -> z -> z

  val pow_pos : z -> positive -> z

  val pow : z -> z -> z

  val compare : z -> z -> comparison

  val leb : z -> z -> bool

  val ltb : z -> z -> bool

  val max : z -> z -> z

  val min : z -> z -> z

  val pos_div_eucl : positive -> z -> z * z

  val div_eucl : z -> z -> z * z

  val div : z -> z -> z

  val even : z -> bool

  val div2 : z -> z

  val sqrtrem : z -> z * z

  val shiftl : z -> z -> z
 end

val zeq_bool : z -> z -> bool

val shift_pos : positive -> positive -> positive

type spec_float =
| S754_zero of bool
| S754_infinity of bool
| S754_nan
| S754_finite of bool * positive * z

val emin : z -> z -> z

val fexp : z -> z -> z -> z

val digits2_pos : positive -> positive

val zdigits2 : z -> z

val canonical_mantissa : z -> z -> positive -> z -> bool

val bounded : z -> z -> positive -> z -> bool

val valid_binary : z -> z -> spec_float -> bool

val iter_pos : ('a1 -> 'a1) -> positive -> 'a1 -> 'a1

type location =
| Loc_Exact
| Loc_Inexact of comparison

type shr_record = { shr_m : z; shr_r : bool; shr_s : bool }

val shr_1 : shr_record -> shr_record

val loc_of_shr_record : shr_record -> location

val shr_record_of_loc : z -> location -> shr_record

val shr : shr_record -> z -> z -> shr_record * z

val shr_fexp : z -> z -> z -> z -> location -> shr_record * z

val round_nearest_even : z -> location -> z

val binary_round_aux : z -> z -> bool -> z -> z -> location -> spec_float

val shl_align : positive -> z -> z -> positive * z

val binary_round : z -> z -> bool -> positive -> z -> spec_float

val binary_normalize : z -> z -> z -> z -> bool -> spec_float

val sFopp : spec_float -> spec_float

val sFabs : spec_float -> spec_float

val sFcompare : spec_float -> spec_float -> comparison option

val sFeqb : spec_float -> spec_float -> bool

val sFltb : spec_float -> spec_float -> bool

val sFleb : spec_float -> spec_float -> bool

val sFmul : z -> z -> spec_float -> spec_float -> spec_float

val cond_Zopp : bool -> z -> z

val sFadd : z -> z -> spec_float -> spec_float -> spec_float

val sFsub : z -> z -> spec_float -> spec_float -> spec_float

val new_location_even : z -> z -> location

val new_location_odd : z -> z -> location

val new_location : z -> z -> location

val sFdiv_core_binary : z -> z -> z -> z -> z -> z -> (z * z) * location

val sFdiv : z -> z -> spec_float -> spec_float -> spec_float

val sFsqrt_core_binary : z -> z -> z -> z -> (z * z) * location

val sFsqrt : z -> z -> spec_float -> spec_float

val ex_keep : (((((nat * n) * z) * z list) * z option) * positive) * bool

type f = spec_float

val dprec : z

val demax : z

val fadd : f -> f -> f

val fsub : f -> f -> f

val fmul : f -> f -> f

val fdiv : f -> f -> f

val feqb : f -> f -> bool

val fltb : f -> f -> bool

val fleb : f -> f -> bool

val fvalid : f -> bool

val fzero : f

val fone : f

val floor_exact : f -> f

type cplx = { re : f; im : f }

val fopp : f -> f

val fabs : f -> f

val fsqrt : f -> f

val fgeb : f -> f -> bool

val is_inf : f -> bool

val c_1 : cplx

val f100 : f

val c_eq : cplx -> cplx -> bool

val c_sum : cplx -> cplx -> cplx

val c_diff : cplx -> cplx -> cplx

val c_prod : cplx -> cplx -> cplx

val c_neg : cplx -> cplx

val c_is_zero : cplx -> bool

val c_conj : cplx -> cplx

val c_quot_old : cplx -> cplx -> cplx

val c_quot_new : cplx -> cplx -> cplx

val c_quot : bool -> cplx -> cplx -> cplx

type divres =
| DivVal of cplx
| DivZeroDiv

val div_node : bool -> bool -> cplx -> cplx -> divres

val int_min : z

val trunc_Z : f -> z option

val trunc_int : f -> z

val f_of_Z : z -> f

type powres =
| PowVal of cplx
| PowLibm

val c_recip_naive : cplx -> cplx

val c_pow_small : cplx -> z -> cplx option

val c_pow : cplx -> cplx -> powres

val c_abs_naive : cplx -> f

val from_parts_struct : f -> f -> cplx

val from_parts_native_old : f -> f -> cplx

val from_parts : bool -> bool -> f -> f -> cplx

val from_py : bool -> bool -> cplx -> cplx

val to_py : cplx -> cplx

val py_c_sum : cplx -> cplx -> cplx

val py_c_diff : cplx -> cplx -> cplx

val py_c_neg : cplx -> cplx

val py_c_prod : cplx -> cplx -> cplx

val py_conj : cplx -> cplx

val py_eq : cplx -> cplx -> bool

val py_c_quot : cplx -> cplx -> cplx option

type pyres =
| PyVal of cplx
| PyZeroDiv
| PyOverflow
| PyLibm

val py_complex_div : cplx -> cplx -> pyres

val powu_pos : cplx -> cplx -> positive -> cplx

val py_c_powu : cplx -> z -> cplx

val py_c_powi : cplx -> z -> cplx option

val has_inf : cplx -> bool

val py_complex_pow : cplx -> cplx -> pyres
