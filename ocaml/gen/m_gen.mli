
val negb : bool -> bool

type nat =
| O
| S of nat

val fst : ('a1 * 'a2) -> 'a1

val snd : ('a1 * 'a2) -> 'a2



val add : nat -> nat -> nat

type positive =
| XI of positive
| XO of positive
| XH

type n =
| N0
| Npos of positive

type z =
| Z0
| Zpos of positive
| Zneg of positive

module Pos :
 sig
  val succ : positive -> positive

  val add : positive -> positive -> positive

  val add_carry : positive -> positive -> positive

  val pred_double : positive -> positive

  val pred_N : positive -> n

  val eqb : positive -> positive -> bool

  val testbit : positive -> n -> bool

  val iter_op : ('a1 -> 'a1 -> 'a1) -> positive -> 'a1 -> 'a1

  val to_nat : positive -> nat
 end

module N :
 sig
  val testbit : n -> n -> bool
 end

module Z :
 sig
  val double : z -> z

  val succ_double : z -> z

  val pred_double : z -> z

  val pos_sub : positive -> positive -> z

  val add : z -> z -> z

  val opp : z -> z

  val sub : z -> z -> z

  val eqb : z -> z -> bool

  val to_nat : z -> nat

  val odd : z -> bool

  val testbit : z -> z -> bool
 end

val nth_error : 'a1 list -> nat -> 'a1 option

val map : ('a1 -> 'a2) -> 'a1 list -> 'a2 list

val ex_keep : (((((nat * n) * z) * z list) * z option) * positive) * bool

type val0 =
| VNone
| VInt of z

type exc =
| EStopIter of val0
| EGenExit
| ERuntime of z
| EType of z
| EValue of z
| EAttr
| EUser of z

type input =
| ISend of val0
| IThrow of exc

type sres =
| SYield of val0
| SErr of exc

type subiter = __subiter Lazy.t
and __subiter =
| SubIter of (sres * subiter) * (val0 -> sres * subiter) option
   * (exc -> sres * subiter) option * (exc option * subiter) option

val si_next : subiter -> sres * subiter

val si_send : subiter -> (val0 -> sres * subiter) option

val si_throw : subiter -> (exc -> sres * subiter) option

val si_close : subiter -> (exc option * subiter) option

type 'l outcome =
| OYield of val0 * 'l
| ODelegate of val0 * subiter * 'l
| OReturn of val0
| ORaise of exc

type op =
| Next
| Send of val0
| Throw of exc
| Close
| Del
| ThrowNC of exc

type result =
| RYield of val0
| RRaise of exc
| RNone
| RUnraisable of exc
| RWarn

val is_none : val0 -> bool

val is_stopiter : exc -> bool

val is_genexit : exc -> bool

val eStopAsync : exc

val pep479 : bool -> exc -> exc

val sub_send : subiter -> val0 -> sres * subiter

type fixes = { fx_first_send : bool; fx_throw_si_fresh : bool;
               fx_close_ret : bool; fx_si_at_yf : bool; fx_ag_fresh_del : 
               bool }

val fx_none : fixes

val fx_all : fixes

type 'l rlabel =
| RFresh
| RAt of 'l
| RDone

type 'l cstate = { c_label : 'l rlabel; c_running : bool;
                   c_yf : subiter option }

type 'l pstate =
| PCreated
| PSuspended of 'l * subiter option
| PExecuting
| PCompleted

type sendarg =
| AVal of val0
| AExc of exc

type gres =
| GNext of val0
| GReturn of val0
| GError of exc

type 'l log = ('l * input) list

val c_set_label : 'a1 cstate -> 'a1 rlabel -> 'a1 cstate

val c_set_running : 'a1 cstate -> bool -> 'a1 cstate

val c_set_yf : 'a1 cstate -> subiter option -> 'a1 cstate

val cy_exit_error : bool -> 'a1 cstate -> exc -> gres * 'a1 cstate

val cy_run_user :
  ('a1 -> input -> 'a1 outcome) -> bool -> 'a1 cstate -> 'a1 -> input ->
  (gres * 'a1 cstate) * 'a1 log

val cy_body :
  'a1 -> ('a1 -> input -> 'a1 outcome) -> bool -> 'a1 cstate -> sendarg ->
  (gres * 'a1 cstate) * 'a1 log

val cy_send_ex :
  'a1 -> ('a1 -> input -> 'a1 outcome) -> bool -> bool -> 'a1 cstate ->
  sendarg -> bool -> (gres * 'a1 cstate) * 'a1 log

val cy_send_ex_guard :
  'a1 -> ('a1 -> input -> 'a1 outcome) -> bool -> bool -> fixes -> 'a1 cstate
  -> sendarg -> bool -> (gres * 'a1 cstate) * 'a1 log

val arg_of_sub_error : exc -> sendarg

val arg_at_yf : fixes -> exc -> sendarg

val unrun : ((gres * 'a1 cstate) * 'a1 log) -> (gres * 'a1 cstate) * 'a1 log

val cy_amsend :
  'a1 -> ('a1 -> input -> 'a1 outcome) -> bool -> bool -> fixes -> 'a1 cstate
  -> val0 -> (gres * 'a1 cstate) * 'a1 log

val result_of_gres : bool -> gres -> result

val cy_close_iter : subiter -> exc option * subiter

val cy_close :
  'a1 -> ('a1 -> input -> 'a1 outcome) -> bool -> bool -> fixes -> 'a1 cstate
  -> (gres * 'a1 cstate) * 'a1 log

val cy_throw :
  'a1 -> ('a1 -> input -> 'a1 outcome) -> bool -> bool -> fixes -> bool ->
  'a1 cstate -> exc -> (gres * 'a1 cstate) * 'a1 log

val cy_del :
  'a1 -> ('a1 -> input -> 'a1 outcome) -> bool -> bool -> fixes -> 'a1 cstate
  -> (result * 'a1 cstate) * 'a1 log

val cy_op :
  'a1 -> ('a1 -> input -> 'a1 outcome) -> bool -> bool -> fixes -> 'a1 cstate
  -> op -> (result * 'a1 cstate) * 'a1 log

val py_send_ex :
  'a1 -> ('a1 -> input -> 'a1 outcome) -> bool -> bool -> 'a1 pstate ->
  sendarg -> bool -> (gres * 'a1 pstate) * 'a1 log

val py_arg_at_yf : exc -> sendarg

val py_send :
  'a1 -> ('a1 -> input -> 'a1 outcome) -> bool -> bool -> 'a1 pstate -> val0
  -> (gres * 'a1 pstate) * 'a1 log

val py_close_iter : subiter -> exc option * subiter

val py_throw :
  'a1 -> ('a1 -> input -> 'a1 outcome) -> bool -> bool -> bool -> 'a1 pstate
  -> exc -> (gres * 'a1 pstate) * 'a1 log

val py_close :
  'a1 -> ('a1 -> input -> 'a1 outcome) -> bool -> bool -> 'a1 pstate ->
  (gres * 'a1 pstate) * 'a1 log

val py_del :
  'a1 -> ('a1 -> input -> 'a1 outcome) -> bool -> bool -> 'a1 pstate ->
  (result * 'a1 pstate) * 'a1 log

val py_op :
  'a1 -> ('a1 -> input -> 'a1 outcome) -> bool -> bool -> 'a1 pstate -> op ->
  (result * 'a1 pstate) * 'a1 log

val run_cy :
  'a1 -> ('a1 -> input -> 'a1 outcome) -> bool -> bool -> fixes -> 'a1 cstate
  -> op list -> (result * 'a1 log) list * 'a1 cstate option

val run_py :
  'a1 -> ('a1 -> input -> 'a1 outcome) -> bool -> bool -> 'a1 pstate -> op
  list -> (result * 'a1 log) list * 'a1 pstate option

val c_init : 'a1 cstate

val p_init : 'a1 pstate

val nONE_CODE : z

val rECV_CODE : z

val fUEL_ID : z

type row = { r_label : z; r_cls : z; r_tag : z; r_a : z; r_b : z }

type subspec = { sp_kind : z; sp_k0 : z; sp_caps : z; sp_vals : z list }

type table = { t_rows : row list; t_subs : subspec list }

val exc_cls : exc -> z

val in_cls : input -> z

val val_of_code : z -> val0

val val_of_spec : z -> input -> val0

val exc_of_spec : z -> z -> input -> exc

val find_row : row list -> z -> z -> row option

val lookup : table -> z -> z -> row option

val list_sub : val0 list -> subiter

val fuel_sub : subiter

val sres_of_result : result -> sres

val close_of_result : result -> exc option

val cy_gen_sub :
  z -> (z -> input -> z outcome) -> bool -> fixes -> z cstate -> subiter

val py_gen_sub : z -> (z -> input -> z outcome) -> bool -> z pstate -> subiter

val dEAD : z

val scr_resp : table -> z -> input -> sres * z

val scr_close : table -> z -> exc option * z

val scr_sub : table -> z -> z -> subiter

val mk_sub :
  table -> bool -> fixes -> bool -> (z -> input -> z outcome) option -> z ->
  subiter

val tstep_fuel :
  table -> bool -> fixes -> bool -> (z -> input -> z outcome) option -> nat
  -> z -> input -> z outcome

val tstep : table -> bool -> fixes -> bool -> nat -> z -> input -> z outcome

val run_table_cy :
  table -> bool -> fixes -> nat -> z -> op list -> (result * (z * input)
  list) list

val run_table_py :
  table -> bool -> nat -> z -> op list -> (result * (z * input) list) list

val running_probe_cy : bool -> fixes -> op -> result
