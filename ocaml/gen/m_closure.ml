
(** val negb : bool -> bool **)

let negb = function
| true -> false
| false -> true

type nat =
| O
| S of nat

type ('a, 'b) sum =
| Inl of 'a
| Inr of 'b

(** val fst : ('a1 * 'a2) -> 'a1 **)

let fst = function
| (x, _) -> x

(** val snd : ('a1 * 'a2) -> 'a2 **)

let snd = function
| (_, y) -> y

(** val length : 'a1 list -> nat **)

let rec length = function
| [] -> O
| _ :: l' -> S (length l')

(** val app : 'a1 list -> 'a1 list -> 'a1 list **)

let rec app l m =
  match l with
  | [] -> m
  | a :: l1 -> a :: (app l1 m)

type comparison =
| Eq
| Lt
| Gt

(** val compOpp : comparison -> comparison **)

let compOpp = function
| Eq -> Eq
| Lt -> Gt
| Gt -> Lt

type positive =
| XI of positive
| XO of positive
| XH

type n =
| N0
| Npos of positive

type z =
| Z0
| Zpos of positive
| Zneg of positive

(** val eqb : bool -> bool -> bool **)

let eqb b1 b2 =
  if b1 then b2 else if b2 then false else true

module Nat =
 struct
  (** val eqb : nat -> nat -> bool **)

  let rec eqb n0 m =
    match n0 with
    | O -> (match m with
            | O -> true
            | S _ -> false)
    | S n' -> (match m with
               | O -> false
               | S m' -> eqb n' m')
 end

module Pos =
 struct
  (** val succ : positive -> positive **)

  let rec succ = function
  | XI p -> XO (succ p)
  | XO p -> XI p
  | XH -> XO XH

  (** val add : positive -> positive -> positive **)

  let rec add x y =
    match x with
    | XI p ->
      (match y with
       | XI q -> XO (add_carry p q)
       | XO q -> XI (add p q)
       | XH -> XO (succ p))
    | XO p ->
      (match y with
       | XI q -> XI (add p q)
       | XO q -> XO (add p q)
       | XH -> XI p)
    | XH -> (match y with
             | XI q -> XO (succ q)
             | XO q -> XI q
             | XH -> XO XH)

  (** val add_carry : positive -> positive -> positive **)

  and add_carry x y =
    match x with
    | XI p ->
      (match y with
       | XI q -> XI (add_carry p q)
       | XO q -> XO (add_carry p q)
       | XH -> XI (succ p))
    | XO p ->
      (match y with
       | XI q -> XO (add_carry p q)
       | XO q -> XI (add p q)
       | XH -> XO (succ p))
    | XH ->
      (match y with
       | XI q -> XI (succ q)
       | XO q -> XO (succ q)
       | XH -> XI XH)

  (** val pred_double : positive -> positive **)

  let rec pred_double = function
  | XI p -> XI (XO p)
  | XO p -> XI (pred_double p)
  | XH -> XH

  (** val mul : positive -> positive -> positive **)

  let rec mul x y =
    match x with
    | XI p -> add y (XO (mul p y))
    | XO p -> XO (mul p y)
    | XH -> y

  (** val compare_cont : comparison -> positive -> positive -> comparison **)

  let rec compare_cont r x y =
    match x with
    | XI p ->
      (match y with
       | XI q -> compare_cont r p q
       | XO q -> compare_cont Gt p q
       | XH -> Gt)
    | XO p ->
      (match y with
       | XI q -> compare_cont Lt p q
       | XO q -> compare_cont r p q
       | XH -> Gt)
    | XH -> (match y with
             | XH -> r
             | _ -> Lt)

  (** val compare : positive -> positive -> comparison **)

  let compare =
    compare_cont Eq

  (** val eqb : positive -> positive -> bool **)

  let rec eqb p q =
    match p with
    | XI p0 -> (match q with
                | XI q0 -> eqb p0 q0
                | _ -> false)
    | XO p0 -> (match q with
                | XO q0 -> eqb p0 q0
                | _ -> false)
    | XH -> (match q with
             | XH -> true
             | _ -> false)
 end

module Z =
 struct
  (** val double : z -> z **)

  let double = function
  | Z0 -> Z0
  | Zpos p -> Zpos (XO p)
  | Zneg p -> Zneg (XO p)

  (** val succ_double : z -> z **)

  let succ_double = function
  | Z0 -> Zpos XH
  | Zpos p -> Zpos (XI p)
  | Zneg p -> Zneg (Pos.pred_double p)

  (** val pred_double : z -> z **)

  let pred_double = function
  | Z0 -> Zneg XH
  | Zpos p -> Zpos (Pos.pred_double p)
  | Zneg p -> Zneg (XI p)

  (** val pos_sub : positive -> positive -> z **)

  let rec pos_sub x y =
    match x with
    | XI p ->
      (match y with
       | XI q -> double (pos_sub p q)
       | XO q -> succ_double (pos_sub p q)
       | XH -> Zpos (XO p))
    | XO p ->
      (match y with
       | XI q -> pred_double (pos_sub p q)
       | XO q -> double (pos_sub p q)
       | XH -> Zpos (Pos.pred_double p))
    | XH ->
      (match y with
       | XI q -> Zneg (XO q)
       | XO q -> Zneg (Pos.pred_double q)
       | XH -> Z0)

  (** val add : z -> z -> z **)

  let add x y =
    match x with
    | Z0 -> y
    | Zpos x' ->
      (match y with
       | Z0 -> x
       | Zpos y' -> Zpos (Pos.add x' y')
       | Zneg y' -> pos_sub x' y')
    | Zneg x' ->
      (match y with
       | Z0 -> x
       | Zpos y' -> pos_sub y' x'
       | Zneg y' -> Zneg (Pos.add x' y'))

  (** val opp : z -> z **)

  let opp = function
  | Z0 -> Z0
  | Zpos x0 -> Zneg x0
  | Zneg x0 -> Zpos x0

  (** val sub : z -> z -> z **)

  let sub m n0 =
    add m (opp n0)

  (** val mul : z -> z -> z **)

  let mul x y =
    match x with
    | Z0 -> Z0
    | Zpos x' ->
      (match y with
       | Z0 -> Z0
       | Zpos y' -> Zpos (Pos.mul x' y')
       | Zneg y' -> Zneg (Pos.mul x' y'))
    | Zneg x' ->
      (match y with
       | Z0 -> Z0
       | Zpos y' -> Zneg (Pos.mul x' y')
       | Zneg y' -> Zpos (Pos.mul x' y'))

  (** val compare : z -> z -> comparison **)

  let compare x y =
    match x with
    | Z0 -> (match y with
             | Z0 -> Eq
             | Zpos _ -> Lt
             | Zneg _ -> Gt)
    | Zpos x' -> (match y with
                  | Zpos y' -> Pos.compare x' y'
                  | _ -> Gt)
    | Zneg x' ->
      (match y with
       | Zneg y' -> compOpp (Pos.compare x' y')
       | _ -> Lt)

  (** val leb : z -> z -> bool **)

  let leb x y =
    match compare x y with
    | Gt -> false
    | _ -> true

  (** val ltb : z -> z -> bool **)

  let ltb x y =
    match compare x y with
    | Lt -> true
    | _ -> false

  (** val eqb : z -> z -> bool **)

  let eqb x y =
    match x with
    | Z0 -> (match y with
             | Z0 -> true
             | _ -> false)
    | Zpos p -> (match y with
                 | Zpos q -> Pos.eqb p q
                 | _ -> false)
    | Zneg p -> (match y with
                 | Zneg q -> Pos.eqb p q
                 | _ -> false)

  (** val pos_div_eucl : positive -> z -> z * z **)

  let rec pos_div_eucl a b =
    match a with
    | XI a' ->
      let (q, r) = pos_div_eucl a' b in
      let r' = add (mul (Zpos (XO XH)) r) (Zpos XH) in
      if ltb r' b
      then ((mul (Zpos (XO XH)) q), r')
      else ((add (mul (Zpos (XO XH)) q) (Zpos XH)), (sub r' b))
    | XO a' ->
      let (q, r) = pos_div_eucl a' b in
      let r' = mul (Zpos (XO XH)) r in
      if ltb r' b
      then ((mul (Zpos (XO XH)) q), r')
      else ((add (mul (Zpos (XO XH)) q) (Zpos XH)), (sub r' b))
    | XH -> if leb (Zpos (XO XH)) b then (Z0, (Zpos XH)) else ((Zpos XH), Z0)

  (** val div_eucl : z -> z -> z * z **)

  let div_eucl a b =
    match a with
    | Z0 -> (Z0, Z0)
    | Zpos a' ->
      (match b with
       | Z0 -> (Z0, a)
       | Zpos _ -> pos_div_eucl a' b
       | Zneg b' ->
         let (q, r) = pos_div_eucl a' (Zpos b') in
         (match r with
          | Z0 -> ((opp q), Z0)
          | _ -> ((opp (add q (Zpos XH))), (add b r))))
    | Zneg a' ->
      (match b with
       | Z0 -> (Z0, a)
       | Zpos _ ->
         let (q, r) = pos_div_eucl a' b in
         (match r with
          | Z0 -> ((opp q), Z0)
          | _ -> ((opp (add q (Zpos XH))), (sub b r)))
       | Zneg b' -> let (q, r) = pos_div_eucl a' (Zpos b') in (q, (opp r)))

  (** val div : z -> z -> z **)

  let div a b =
    let (q, _) = div_eucl a b in q

  (** val modulo : z -> z -> z **)

  let modulo a b =
    let (_, r) = div_eucl a b in r
 end

(** val nth_error : 'a1 list -> nat -> 'a1 option **)

let rec nth_error l = function
| O -> (match l with
        | [] -> None
        | x :: _ -> Some x)
| S n1 -> (match l with
           | [] -> None
           | _ :: l0 -> nth_error l0 n1)

(** val rev : 'a1 list -> 'a1 list **)

let rec rev = function
| [] -> []
| x :: l' -> app (rev l') (x :: [])

(** val map : ('a1 -> 'a2) -> 'a1 list -> 'a2 list **)

let rec map f = function
| [] -> []
| a :: t -> (f a) :: (map f t)

(** val flat_map : ('a1 -> 'a2 list) -> 'a1 list -> 'a2 list **)

let rec flat_map f = function
| [] -> []
| x :: t -> app (f x) (flat_map f t)

(** val fold_right : ('a2 -> 'a1 -> 'a1) -> 'a1 -> 'a2 list -> 'a1 **)

let rec fold_right f a0 = function
| [] -> a0
| b :: t -> f b (fold_right f a0 t)

(** val existsb : ('a1 -> bool) -> 'a1 list -> bool **)

let rec existsb f = function
| [] -> false
| a :: l0 -> (||) (f a) (existsb f l0)

(** val filter : ('a1 -> bool) -> 'a1 list -> 'a1 list **)

let rec filter f = function
| [] -> []
| x :: l0 -> if f x then x :: (filter f l0) else filter f l0

(** val ex_keep :
    (((((nat * n) * z) * z list) * z option) * positive) * bool **)

let ex_keep =
  ((((((O, N0), Z0), []), None), XH), true)

type ident = nat

type binop =
| Add
| Sub
| Mul
| FloorDiv
| Mod

type cmpop =
| CLt
| CLe
| CEq
| CNe
| CGt
| CGe

type expr =
| EInt of z
| EBool of bool
| ENone
| EName of ident
| ENeg of expr
| ENot of expr
| EBin of binop * expr * expr
| ECmp of cmpop * expr * expr
| ECond of expr * expr * expr
| ELog of expr
| ELambda of ident list * expr
| ECall of expr * expr list

type stmt =
| SExpr of expr
| SAssign of ident * expr
| SAug of ident * binop * expr
| SIf of expr * stmt list * stmt list
| SWhile of expr * stmt list
| SReturn of expr
| SDef of ident * ident list * stmt list
| SGlobal of ident
| SNonlocal of ident
| SDel of ident
| SPass

type value =
| VInt of z
| VBool of bool
| VNone
| VFun of nat

type exc =
| UnboundLocalError
| NameError
| TypeError
| ZeroDivisionError
| AttributeError

(** val as_int : value -> z option **)

let as_int = function
| VInt z0 -> Some z0
| VBool b -> Some (if b then Zpos XH else Z0)
| _ -> None

(** val truthy : value -> bool **)

let truthy = function
| VInt z0 -> negb (Z.eqb z0 Z0)
| VBool b -> b
| VNone -> false
| VFun _ -> true

(** val do_bin : binop -> value -> value -> (value, exc) sum **)

let do_bin op a b =
  match as_int a with
  | Some x ->
    (match as_int b with
     | Some y ->
       (match op with
        | Add -> Inl (VInt (Z.add x y))
        | Sub -> Inl (VInt (Z.sub x y))
        | Mul -> Inl (VInt (Z.mul x y))
        | FloorDiv ->
          if Z.eqb y Z0 then Inr ZeroDivisionError else Inl (VInt (Z.div x y))
        | Mod ->
          if Z.eqb y Z0
          then Inr ZeroDivisionError
          else Inl (VInt (Z.modulo x y)))
     | None -> Inr TypeError)
  | None -> Inr TypeError

(** val py_eq : value -> value -> bool **)

let py_eq a b =
  match as_int a with
  | Some x ->
    (match as_int b with
     | Some y -> Z.eqb x y
     | None ->
       (match a with
        | VNone -> (match b with
                    | VNone -> true
                    | _ -> false)
        | VFun i -> (match b with
                     | VFun j -> Nat.eqb i j
                     | _ -> false)
        | _ -> false))
  | None ->
    (match a with
     | VNone -> (match b with
                 | VNone -> true
                 | _ -> false)
     | VFun i -> (match b with
                  | VFun j -> Nat.eqb i j
                  | _ -> false)
     | _ -> false)

(** val do_cmp : cmpop -> value -> value -> (value, exc) sum **)

let do_cmp op a b =
  match op with
  | CEq -> Inl (VBool (py_eq a b))
  | CNe -> Inl (VBool (negb (py_eq a b)))
  | _ ->
    (match as_int a with
     | Some x ->
       (match as_int b with
        | Some y ->
          Inl (VBool
            (match op with
             | CLt -> Z.ltb x y
             | CLe -> Z.leb x y
             | CGt -> Z.ltb y x
             | _ -> Z.leb y x))
        | None -> Inr TypeError)
     | None -> Inr TypeError)

(** val do_neg : value -> (value, exc) sum **)

let do_neg a =
  match as_int a with
  | Some x -> Inl (VInt (Z.opp x))
  | None -> Inr TypeError

(** val mem : ident -> ident list -> bool **)

let rec mem x = function
| [] -> false
| y :: r -> if Nat.eqb x y then true else mem x r

(** val memb : bool -> ident -> (bool * ident) list -> bool **)

let rec memb b x = function
| [] -> false
| p :: r ->
  let (c, y) = p in if (&&) (eqb b c) (Nat.eqb x y) then true else memb b x r

(** val assoc : ident -> (ident * 'a1) list -> 'a1 option **)

let rec assoc x = function
| [] -> None
| p :: r -> let (y, a) = p in if Nat.eqb x y then Some a else assoc x r

type env = (ident * value option) list

(** val env_get : env -> ident -> value option **)

let env_get e x =
  match assoc x e with
  | Some o -> o
  | None -> None

(** val env_set : env -> ident -> value -> env **)

let env_set e x v =
  (x, (Some v)) :: e

(** val env_del : env -> ident -> env **)

let env_del e x =
  (x, None) :: e

type scope_info = { si_locals : ident list; si_globals : ident list;
                    si_refs : (bool * ident) list }

type sctx = scope_info list

(** val cfree : scope_info -> ident list **)

let cfree i =
  filter (fun x ->
    (&&) (negb (mem x i.si_locals)) (negb (mem x i.si_globals)))
    (map snd i.si_refs)

(** val nested : scope_info -> (bool * ident) list **)

let nested i =
  map (fun x -> (true, x)) (cfree i)

(** val si_cells : scope_info -> ident list **)

let si_cells i =
  filter (fun x -> memb true x i.si_refs) i.si_locals

(** val is_cell : scope_info -> ident -> bool **)

let is_cell i x =
  mem x (si_cells i)

(** val lam_info : ident list -> (bool * ident) list -> scope_info **)

let lam_info ps r =
  { si_locals = ps; si_globals = []; si_refs = r }

(** val refs_e : expr -> (bool * ident) list **)

let rec refs_e = function
| EName x -> (false, x) :: []
| ENeg a -> refs_e a
| ENot a -> refs_e a
| EBin (_, a, b) -> app (refs_e a) (refs_e b)
| ECmp (_, a, b) -> app (refs_e a) (refs_e b)
| ECond (c, t, f) -> app (refs_e c) (app (refs_e t) (refs_e f))
| ELog a -> refs_e a
| ELambda (ps, b) -> nested (lam_info ps (refs_e b))
| ECall (f, args) -> app (refs_e f) (flat_map refs_e args)
| _ -> []

(** val binds_s : stmt -> ident list **)

let rec binds_s = function
| SAssign (x, _) -> x :: []
| SAug (x, _, _) -> x :: []
| SIf (_, t, f) -> app (flat_map binds_s t) (flat_map binds_s f)
| SWhile (_, b) -> flat_map binds_s b
| SDef (f, _, _) -> f :: []
| SDel x -> x :: []
| _ -> []

(** val globals_s : stmt -> ident list **)

let rec globals_s = function
| SIf (_, t, f) -> app (flat_map globals_s t) (flat_map globals_s f)
| SWhile (_, b) -> flat_map globals_s b
| SGlobal x -> x :: []
| _ -> []

(** val nonlocals_s : stmt -> ident list **)

let rec nonlocals_s = function
| SIf (_, t, f) -> app (flat_map nonlocals_s t) (flat_map nonlocals_s f)
| SWhile (_, b) -> flat_map nonlocals_s b
| SNonlocal x -> x :: []
| _ -> []

(** val fn_locals : ident list -> stmt list -> ident list **)

let fn_locals ps body =
  app ps
    (filter (fun x ->
      (&&) (negb (mem x (flat_map globals_s body)))
        (negb (mem x (flat_map nonlocals_s body)))) (flat_map binds_s body))

(** val mk_info_raw :
    ident list -> stmt list -> (bool * ident) list -> scope_info **)

let mk_info_raw ps body r =
  { si_locals = (fn_locals ps body); si_globals = (flat_map globals_s body);
    si_refs = r }

(** val refs_s : stmt -> (bool * ident) list **)

let rec refs_s = function
| SExpr e -> refs_e e
| SAssign (x, e) -> (false, x) :: (refs_e e)
| SAug (x, _, e) -> (false, x) :: (refs_e e)
| SIf (c, t, f) ->
  app (refs_e c) (app (flat_map refs_s t) (flat_map refs_s f))
| SWhile (c, b) -> app (refs_e c) (flat_map refs_s b)
| SReturn e -> refs_e e
| SDef (f, ps, body) ->
  (false, f) :: (nested (mk_info_raw ps body (flat_map refs_s body)))
| SDel x -> (false, x) :: []
| _ -> []

(** val mk_info : ident list -> stmt list -> scope_info **)

let mk_info ps body =
  mk_info_raw ps body (flat_map refs_s body)

(** val module_info : stmt list -> scope_info **)

let module_info prog =
  { si_locals = []; si_globals = []; si_refs = (flat_map refs_s prog) }

(** val has_owner : sctx -> ident -> bool **)

let rec has_owner ctx x =
  match ctx with
  | [] -> false
  | p :: r ->
    if mem x p.si_locals
    then true
    else if mem x p.si_globals then false else has_owner r x

type kind =
| KLocal
| KFree
| KGlobal

(** val classify : scope_info -> sctx -> ident -> kind **)

let classify i ctx x =
  if mem x i.si_locals
  then KLocal
  else if mem x i.si_globals
       then KGlobal
       else if has_owner ctx x then KFree else KGlobal

type ('s, 'a) res =
| Ok of 'a * 's
| Exn of exc * 's
| OutOfFuel
| Stuck

(** val bind :
    ('a1, 'a2) res -> ('a2 -> 'a1 -> ('a1, 'a3) res) -> ('a1, 'a3) res **)

let bind r k =
  match r with
  | Ok (a, s) -> k a s
  | Exn (e, s) -> Exn (e, s)
  | OutOfFuel -> OutOfFuel
  | Stuck -> Stuck

(** val lift : (value, exc) sum -> 'a1 -> ('a1, value) res **)

let lift r s =
  match r with
  | Inl v -> Ok (v, s)
  | Inr e -> Exn (e, s)

type 'a lres =
| LVal of 'a
| LExn of exc
| LStuck

type loc =
| LGlob
| LFast
| LHeap of nat * bool

type flow =
| FNext
| FRet of value

type 'x frame = { f_info : scope_info; f_ctx : sctx; f_fast : env; f_x : 'x }

type 'c fn = { fn_ps : ident list; fn_body : stmt list; fn_info : scope_info;
               fn_ctx : sctx; fn_cap : 'c }

type ('h, 'c) state = { g_glob : env; g_heap : 'h; g_funs : 'c fn list;
                        g_next : nat; g_trace : value list }

type ('x, 'h, 'c) ops = { op_loc : ('x frame -> 'h -> ident -> loc option);
                          op_get : ('h -> nat -> ident -> value option option);
                          op_set : ('h -> nat -> ident -> value option -> 'h);
                          op_capture : ('x frame -> scope_info -> 'c option);
                          op_enter : ('h -> 'c fn -> nat -> 'x * 'h);
                          op_delglob_exc : exc }

(** val set_heap : ('a1, 'a2) state -> 'a1 -> ('a1, 'a2) state **)

let set_heap st h =
  { g_glob = st.g_glob; g_heap = h; g_funs = st.g_funs; g_next = st.g_next;
    g_trace = st.g_trace }

(** val set_glob : ('a1, 'a2) state -> env -> ('a1, 'a2) state **)

let set_glob st g =
  { g_glob = g; g_heap = st.g_heap; g_funs = st.g_funs; g_next = st.g_next;
    g_trace = st.g_trace }

(** val set_fast : 'a1 frame -> env -> 'a1 frame **)

let set_fast fr e =
  { f_info = fr.f_info; f_ctx = fr.f_ctx; f_fast = e; f_x = fr.f_x }

(** val add_trace : ('a1, 'a2) state -> value -> ('a1, 'a2) state **)

let add_trace st v =
  { g_glob = st.g_glob; g_heap = st.g_heap; g_funs = st.g_funs; g_next =
    st.g_next; g_trace = (v :: st.g_trace) }

(** val load :
    ('a1, 'a2, 'a3) ops -> 'a1 frame -> ('a2, 'a3) state -> ident -> value
    lres **)

let load o fr st x =
  match o.op_loc fr st.g_heap x with
  | Some l ->
    (match l with
     | LGlob ->
       (match env_get st.g_glob x with
        | Some v -> LVal v
        | None -> LExn NameError)
     | LFast ->
       (match env_get fr.f_fast x with
        | Some v -> LVal v
        | None -> LExn UnboundLocalError)
     | LHeap (m, free) ->
       (match o.op_get st.g_heap m x with
        | Some o0 ->
          (match o0 with
           | Some v -> LVal v
           | None -> LExn (if free then NameError else UnboundLocalError))
        | None -> LStuck))
  | None -> LStuck

(** val store :
    ('a1, 'a2, 'a3) ops -> 'a1 frame -> ('a2, 'a3) state -> ident -> value ->
    ('a1 frame * ('a2, 'a3) state) option **)

let store o fr st x v =
  match o.op_loc fr st.g_heap x with
  | Some l ->
    (match l with
     | LGlob -> Some (fr, (set_glob st (env_set st.g_glob x v)))
     | LFast -> Some ((set_fast fr (env_set fr.f_fast x v)), st)
     | LHeap (m, _) ->
       (match o.op_get st.g_heap m x with
        | Some _ -> Some (fr, (set_heap st (o.op_set st.g_heap m x (Some v))))
        | None -> None))
  | None -> None

(** val delete :
    ('a1, 'a2, 'a3) ops -> 'a1 frame -> ('a2, 'a3) state -> ident -> ('a1
    frame * ('a2, 'a3) state) lres **)

let delete o fr st x =
  match o.op_loc fr st.g_heap x with
  | Some l ->
    (match l with
     | LGlob ->
       (match env_get st.g_glob x with
        | Some _ -> LVal (fr, (set_glob st (env_del st.g_glob x)))
        | None -> LExn o.op_delglob_exc)
     | LFast ->
       (match env_get fr.f_fast x with
        | Some _ -> LVal ((set_fast fr (env_del fr.f_fast x)), st)
        | None -> LExn UnboundLocalError)
     | LHeap (m, free) ->
       (match o.op_get st.g_heap m x with
        | Some o0 ->
          (match o0 with
           | Some _ -> LVal (fr, (set_heap st (o.op_set st.g_heap m x None)))
           | None -> LExn (if free then NameError else UnboundLocalError))
        | None -> LStuck))
  | None -> LStuck

(** val store_r :
    ('a1, 'a2, 'a3) ops -> 'a1 frame -> ('a2, 'a3) state -> ident -> value ->
    (('a2, 'a3) state, 'a1 frame * flow) res **)

let store_r o fr st x v =
  match store o fr st x v with
  | Some p -> let (fr', st') = p in Ok ((fr', FNext), st')
  | None -> Stuck

(** val mkfun :
    ('a1, 'a2, 'a3) ops -> 'a1 frame -> ('a2, 'a3) state -> ident list ->
    stmt list -> scope_info -> (('a2, 'a3) state, value) res **)

let mkfun o fr st ps body i =
  match o.op_capture fr i with
  | Some c ->
    Ok ((VFun (length st.g_funs)), { g_glob = st.g_glob; g_heap = st.g_heap;
      g_funs =
      (app st.g_funs ({ fn_ps = ps; fn_body = body; fn_info = i; fn_ctx =
        (fr.f_info :: fr.f_ctx); fn_cap = c } :: [])); g_next = st.g_next;
      g_trace = st.g_trace })
  | None -> Stuck

(** val bind_params :
    ('a1, 'a2, 'a3) ops -> 'a1 frame -> ('a2, 'a3) state -> ident list ->
    value list -> ('a1 frame * ('a2, 'a3) state) option **)

let rec bind_params o fr st ps vs =
  match ps with
  | [] -> Some (fr, st)
  | p :: ps' ->
    (match vs with
     | [] -> Some (fr, st)
     | v :: vs' ->
       (match store o fr st p v with
        | Some p0 -> let (fr', st') = p0 in bind_params o fr' st' ps' vs'
        | None -> None))

(** val eval :
    ('a1, 'a2, 'a3) ops -> nat -> 'a1 frame -> ('a2, 'a3) state -> expr ->
    (('a2, 'a3) state, value) res **)

let eval o =
  let rec eval0 n0 fr st e =
    match n0 with
    | O -> OutOfFuel
    | S n1 ->
      (match e with
       | EInt z0 -> Ok ((VInt z0), st)
       | EBool b -> Ok ((VBool b), st)
       | ENone -> Ok (VNone, st)
       | EName x ->
         (match load o fr st x with
          | LVal v -> Ok (v, st)
          | LExn e0 -> Exn (e0, st)
          | LStuck -> Stuck)
       | ENeg a -> bind (eval0 n1 fr st a) (fun v st0 -> lift (do_neg v) st0)
       | ENot a ->
         bind (eval0 n1 fr st a) (fun v st0 -> Ok ((VBool (negb (truthy v))),
           st0))
       | EBin (op, a, b) ->
         bind (eval0 n1 fr st a) (fun va st0 ->
           bind (eval0 n1 fr st0 b) (fun vb st1 -> lift (do_bin op va vb) st1))
       | ECmp (op, a, b) ->
         bind (eval0 n1 fr st a) (fun va st0 ->
           bind (eval0 n1 fr st0 b) (fun vb st1 -> lift (do_cmp op va vb) st1))
       | ECond (c, t, f) ->
         bind (eval0 n1 fr st c) (fun v st0 ->
           eval0 n1 fr st0 (if truthy v then t else f))
       | ELog a ->
         bind (eval0 n1 fr st a) (fun v st0 -> Ok (v, (add_trace st0 v)))
       | ELambda (ps, b) ->
         mkfun o fr st ps ((SReturn b) :: []) (lam_info ps (refs_e b))
       | ECall (f, args) ->
         bind (eval0 n1 fr st f) (fun vf st0 ->
           bind (evals n1 fr st0 args) (fun vs st1 -> call n1 st1 vf vs)))
  and evals n0 fr st es =
    match n0 with
    | O -> OutOfFuel
    | S n1 ->
      (match es with
       | [] -> Ok ([], st)
       | e :: r ->
         bind (eval0 n1 fr st e) (fun v st0 ->
           bind (evals n1 fr st0 r) (fun vs st1 -> Ok ((v :: vs), st1))))
  and call n0 st vf vs =
    match n0 with
    | O -> OutOfFuel
    | S n1 ->
      (match vf with
       | VFun id ->
         (match nth_error st.g_funs id with
          | Some f ->
            if Nat.eqb (length f.fn_ps) (length vs)
            then let (x, h) = o.op_enter st.g_heap f st.g_next in
                 let fr0 = { f_info = f.fn_info; f_ctx = f.fn_ctx; f_fast =
                   []; f_x = x }
                 in
                 let st1 = { g_glob = st.g_glob; g_heap = h; g_funs =
                   st.g_funs; g_next = (S st.g_next); g_trace = st.g_trace }
                 in
                 (match bind_params o fr0 st1 f.fn_ps vs with
                  | Some p ->
                    let (fr1, st2) = p in
                    bind (block0 n1 fr1 st2 f.fn_body) (fun r st3 -> Ok
                      ((match snd r with
                        | FNext -> VNone
                        | FRet v -> v), st3))
                  | None -> Stuck)
            else Exn (TypeError, st)
          | None -> Stuck)
       | _ -> Exn (TypeError, st))
  and exec n0 fr st s =
    match n0 with
    | O -> OutOfFuel
    | S n1 ->
      (match s with
       | SExpr e ->
         bind (eval0 n1 fr st e) (fun _ st0 -> Ok ((fr, FNext), st0))
       | SAssign (x, e) ->
         bind (eval0 n1 fr st e) (fun v st0 -> store_r o fr st0 x v)
       | SAug (x, op, e) ->
         (match load o fr st x with
          | LVal v0 ->
            bind (eval0 n1 fr st e) (fun v st0 ->
              match do_bin op v0 v with
              | Inl r -> store_r o fr st0 x r
              | Inr ex -> Exn (ex, st0))
          | LExn ex -> Exn (ex, st)
          | LStuck -> Stuck)
       | SIf (c, t, f) ->
         bind (eval0 n1 fr st c) (fun v st0 ->
           block0 n1 fr st0 (if truthy v then t else f))
       | SWhile (c, b) ->
         bind (eval0 n1 fr st c) (fun v st0 ->
           if truthy v
           then bind (block0 n1 fr st0 b) (fun r st1 ->
                  match snd r with
                  | FNext -> exec n1 (fst r) st1 (SWhile (c, b))
                  | FRet _ -> Ok (r, st1))
           else Ok ((fr, FNext), st0))
       | SReturn e ->
         bind (eval0 n1 fr st e) (fun v st0 -> Ok ((fr, (FRet v)), st0))
       | SDef (f, ps, body) ->
         bind (mkfun o fr st ps body (mk_info ps body)) (fun v st0 ->
           store_r o fr st0 f v)
       | SDel x ->
         (match delete o fr st x with
          | LVal a -> let (fr', st') = a in Ok ((fr', FNext), st')
          | LExn ex -> Exn (ex, st)
          | LStuck -> Stuck)
       | _ -> Ok ((fr, FNext), st))
  and block0 n0 fr st ss =
    match n0 with
    | O -> OutOfFuel
    | S n1 ->
      (match ss with
       | [] -> Ok ((fr, FNext), st)
       | s :: r ->
         bind (exec n1 fr st s) (fun q st0 ->
           match snd q with
           | FNext -> block0 n1 (fst q) st0 r
           | FRet _ -> Ok (q, st0)))
  in eval0

(** val block :
    ('a1, 'a2, 'a3) ops -> nat -> 'a1 frame -> ('a2, 'a3) state -> stmt list
    -> (('a2, 'a3) state, 'a1 frame * flow) res **)

let block o =
  let rec eval0 n0 fr st e =
    match n0 with
    | O -> OutOfFuel
    | S n1 ->
      (match e with
       | EInt z0 -> Ok ((VInt z0), st)
       | EBool b -> Ok ((VBool b), st)
       | ENone -> Ok (VNone, st)
       | EName x ->
         (match load o fr st x with
          | LVal v -> Ok (v, st)
          | LExn e0 -> Exn (e0, st)
          | LStuck -> Stuck)
       | ENeg a -> bind (eval0 n1 fr st a) (fun v st0 -> lift (do_neg v) st0)
       | ENot a ->
         bind (eval0 n1 fr st a) (fun v st0 -> Ok ((VBool (negb (truthy v))),
           st0))
       | EBin (op, a, b) ->
         bind (eval0 n1 fr st a) (fun va st0 ->
           bind (eval0 n1 fr st0 b) (fun vb st1 -> lift (do_bin op va vb) st1))
       | ECmp (op, a, b) ->
         bind (eval0 n1 fr st a) (fun va st0 ->
           bind (eval0 n1 fr st0 b) (fun vb st1 -> lift (do_cmp op va vb) st1))
       | ECond (c, t, f) ->
         bind (eval0 n1 fr st c) (fun v st0 ->
           eval0 n1 fr st0 (if truthy v then t else f))
       | ELog a ->
         bind (eval0 n1 fr st a) (fun v st0 -> Ok (v, (add_trace st0 v)))
       | ELambda (ps, b) ->
         mkfun o fr st ps ((SReturn b) :: []) (lam_info ps (refs_e b))
       | ECall (f, args) ->
         bind (eval0 n1 fr st f) (fun vf st0 ->
           bind (evals n1 fr st0 args) (fun vs st1 -> call n1 st1 vf vs)))
  and evals n0 fr st es =
    match n0 with
    | O -> OutOfFuel
    | S n1 ->
      (match es with
       | [] -> Ok ([], st)
       | e :: r ->
         bind (eval0 n1 fr st e) (fun v st0 ->
           bind (evals n1 fr st0 r) (fun vs st1 -> Ok ((v :: vs), st1))))
  and call n0 st vf vs =
    match n0 with
    | O -> OutOfFuel
    | S n1 ->
      (match vf with
       | VFun id ->
         (match nth_error st.g_funs id with
          | Some f ->
            if Nat.eqb (length f.fn_ps) (length vs)
            then let (x, h) = o.op_enter st.g_heap f st.g_next in
                 let fr0 = { f_info = f.fn_info; f_ctx = f.fn_ctx; f_fast =
                   []; f_x = x }
                 in
                 let st1 = { g_glob = st.g_glob; g_heap = h; g_funs =
                   st.g_funs; g_next = (S st.g_next); g_trace = st.g_trace }
                 in
                 (match bind_params o fr0 st1 f.fn_ps vs with
                  | Some p ->
                    let (fr1, st2) = p in
                    bind (block0 n1 fr1 st2 f.fn_body) (fun r st3 -> Ok
                      ((match snd r with
                        | FNext -> VNone
                        | FRet v -> v), st3))
                  | None -> Stuck)
            else Exn (TypeError, st)
          | None -> Stuck)
       | _ -> Exn (TypeError, st))
  and exec n0 fr st s =
    match n0 with
    | O -> OutOfFuel
    | S n1 ->
      (match s with
       | SExpr e ->
         bind (eval0 n1 fr st e) (fun _ st0 -> Ok ((fr, FNext), st0))
       | SAssign (x, e) ->
         bind (eval0 n1 fr st e) (fun v st0 -> store_r o fr st0 x v)
       | SAug (x, op, e) ->
         (match load o fr st x with
          | LVal v0 ->
            bind (eval0 n1 fr st e) (fun v st0 ->
              match do_bin op v0 v with
              | Inl r -> store_r o fr st0 x r
              | Inr ex -> Exn (ex, st0))
          | LExn ex -> Exn (ex, st)
          | LStuck -> Stuck)
       | SIf (c, t, f) ->
         bind (eval0 n1 fr st c) (fun v st0 ->
           block0 n1 fr st0 (if truthy v then t else f))
       | SWhile (c, b) ->
         bind (eval0 n1 fr st c) (fun v st0 ->
           if truthy v
           then bind (block0 n1 fr st0 b) (fun r st1 ->
                  match snd r with
                  | FNext -> exec n1 (fst r) st1 (SWhile (c, b))
                  | FRet _ -> Ok (r, st1))
           else Ok ((fr, FNext), st0))
       | SReturn e ->
         bind (eval0 n1 fr st e) (fun v st0 -> Ok ((fr, (FRet v)), st0))
       | SDef (f, ps, body) ->
         bind (mkfun o fr st ps body (mk_info ps body)) (fun v st0 ->
           store_r o fr st0 f v)
       | SDel x ->
         (match delete o fr st x with
          | LVal a -> let (fr', st') = a in Ok ((fr', FNext), st')
          | LExn ex -> Exn (ex, st)
          | LStuck -> Stuck)
       | _ -> Ok ((fr, FNext), st))
  and block0 n0 fr st ss =
    match n0 with
    | O -> OutOfFuel
    | S n1 ->
      (match ss with
       | [] -> Ok ((fr, FNext), st)
       | s :: r ->
         bind (exec n1 fr st s) (fun q st0 ->
           match snd q with
           | FNext -> block0 n1 (fst q) st0 r
           | FRet _ -> Ok (q, st0)))
  in block0

type outcome =
| Done of value * value list
| Failed of exc * value list
| NoFuel
| IsStuck

(** val run_gen :
    ('a1, 'a2, 'a3) ops -> 'a1 -> 'a2 -> nat -> stmt list -> expr -> outcome **)

let run_gen o x0 h0 n0 prog main =
  let fr0 = { f_info = (module_info (app prog ((SExpr main) :: []))); f_ctx =
    []; f_fast = []; f_x = x0 }
  in
  let st0 = { g_glob = []; g_heap = h0; g_funs = []; g_next = (S O);
    g_trace = [] }
  in
  (match block o n0 fr0 st0 prog with
   | Ok (q, st) ->
     (match eval o n0 (fst q) st main with
      | Ok (v, st') -> Done (v, (rev st'.g_trace))
      | Exn (e, st') -> Failed (e, (rev st'.g_trace))
      | OutOfFuel -> NoFuel
      | Stuck -> IsStuck)
   | Exn (e, st) -> Failed (e, (rev st.g_trace))
   | OutOfFuel -> NoFuel
   | Stuck -> IsStuck)

type cellheap = ((nat * ident) * value option) list

(** val cget : cellheap -> nat -> ident -> value option option **)

let rec cget h m x =
  match h with
  | [] -> None
  | p :: r ->
    let (p0, v) = p in
    let (m', x') = p0 in
    if (&&) (Nat.eqb m m') (Nat.eqb x x') then Some v else cget r m x

(** val cset : cellheap -> nat -> ident -> value option -> cellheap **)

let cset h m x v =
  ((m, x), v) :: h

type cX = (ident * nat) list * nat

type cC = (ident * nat) list

(** val actual_free : scope_info -> sctx -> ident list **)

let actual_free i ctx =
  filter (has_owner ctx) (cfree i)

(** val c_loc : cX frame -> cellheap -> ident -> loc option **)

let c_loc fr _ x =
  match classify fr.f_info fr.f_ctx x with
  | KLocal ->
    if is_cell fr.f_info x
    then Some (LHeap ((snd fr.f_x), false))
    else Some LFast
  | KFree ->
    (match assoc x (fst fr.f_x) with
     | Some m -> Some (LHeap (m, true))
     | None -> None)
  | KGlobal -> Some LGlob

(** val cap1 : cX frame -> ident -> nat option **)

let cap1 fr x =
  if mem x fr.f_info.si_locals
  then if is_cell fr.f_info x then Some (snd fr.f_x) else None
  else assoc x (fst fr.f_x)

(** val c_capture_list : cX frame -> ident list -> cC option **)

let rec c_capture_list fr = function
| [] -> Some []
| x :: r ->
  (match cap1 fr x with
   | Some m ->
     (match c_capture_list fr r with
      | Some l -> Some ((x, m) :: l)
      | None -> None)
   | None -> None)

(** val c_capture : cX frame -> scope_info -> cC option **)

let c_capture fr i =
  c_capture_list fr (actual_free i (fr.f_info :: fr.f_ctx))

(** val c_enter : cellheap -> cC fn -> nat -> cX * cellheap **)

let c_enter h f a =
  ((f.fn_cap, a),
    (fold_right (fun x h0 -> cset h0 a x None) h (si_cells f.fn_info)))

(** val cells_ops : (cX, cellheap, cC) ops **)

let cells_ops =
  { op_loc = c_loc; op_get = cget; op_set = cset; op_capture = c_capture;
    op_enter = c_enter; op_delglob_exc = NameError }

(** val run_cells : nat -> stmt list -> expr -> outcome **)

let run_cells n0 prog main =
  run_gen cells_ops ([], O) [] n0 prog main

type sobj = { so_outer : nat option; so_vars : (ident * value option) list }

type sheap = (nat * sobj) list

(** val sfind : sheap -> nat -> sobj option **)

let rec sfind h m =
  match h with
  | [] -> None
  | p :: r -> let (m', ob) = p in if Nat.eqb m m' then Some ob else sfind r m

(** val sget : sheap -> nat -> ident -> value option option **)

let sget h m x =
  match sfind h m with
  | Some ob -> assoc x ob.so_vars
  | None -> None

(** val sset : sheap -> nat -> ident -> value option -> sheap **)

let sset h m x v =
  match sfind h m with
  | Some ob ->
    (m, { so_outer = ob.so_outer; so_vars = ((x, v) :: ob.so_vars) }) :: h
  | None -> h

(** val walk : sheap -> nat -> nat option -> nat option **)

let rec walk h k p =
  match k with
  | O -> p
  | S k' ->
    (match p with
     | Some m ->
       (match sfind h m with
        | Some ob -> walk h k' ob.so_outer
        | None -> None)
     | None -> None)

(** val own_scope : scope_info -> bool **)

let own_scope i =
  match si_cells i with
  | [] -> false
  | _ :: _ -> true

(** val lookup_outer : sctx -> ident -> nat option **)

let rec lookup_outer ctx x =
  match ctx with
  | [] -> None
  | p :: r ->
    if mem x p.si_locals
    then Some O
    else if mem x p.si_globals
         then None
         else (match lookup_outer r x with
               | Some k -> Some (if own_scope p then S k else k)
               | None -> None)

(** val found : nat option -> bool **)

let found = function
| Some _ -> true
| None -> false

(** val from_closure : scope_info -> sctx -> bool **)

let from_closure i ctx =
  existsb (fun x -> found (lookup_outer ctx x)) (cfree i)

type cykind =
| CLocal
| CClosure of nat
| CGlobal

(** val cy_lookup : scope_info -> sctx -> ident -> cykind **)

let cy_lookup i ctx x =
  if mem x i.si_locals
  then CLocal
  else if mem x i.si_globals
       then CGlobal
       else (match lookup_outer ctx x with
             | Some k -> CClosure (if own_scope i then S k else k)
             | None -> CGlobal)

type sX = nat option

type sC = nat option

(** val s_loc : sX frame -> sheap -> ident -> loc option **)

let s_loc fr h x =
  match cy_lookup fr.f_info fr.f_ctx x with
  | CLocal ->
    if is_cell fr.f_info x
    then (match fr.f_x with
          | Some m -> Some (LHeap (m, false))
          | None -> None)
    else Some LFast
  | CClosure k ->
    (match walk h k fr.f_x with
     | Some m -> Some (LHeap (m, true))
     | None -> None)
  | CGlobal -> Some LGlob

(** val s_capture : sX frame -> scope_info -> sC option **)

let s_capture fr i =
  Some (if from_closure i (fr.f_info :: fr.f_ctx) then fr.f_x else None)

(** val s_enter : sheap -> sC fn -> nat -> sX * sheap **)

let s_enter h f a =
  let outer = if from_closure f.fn_info f.fn_ctx then f.fn_cap else None in
  if own_scope f.fn_info
  then ((Some a), ((a, { so_outer = outer; so_vars =
         (map (fun x -> (x, None)) (si_cells f.fn_info)) }) :: h))
  else (outer, h)

(** val scopes_ops : bool -> (sX, sheap, sC) ops **)

let scopes_ops delglob_fixed =
  { op_loc = s_loc; op_get = sget; op_set = sset; op_capture = s_capture;
    op_enter = s_enter; op_delglob_exc =
    (if delglob_fixed then NameError else AttributeError) }

(** val run_scopes : bool -> nat -> stmt list -> expr -> outcome **)

let run_scopes delglob_fixed n0 prog main =
  run_gen (scopes_ops delglob_fixed) None [] n0 prog main
