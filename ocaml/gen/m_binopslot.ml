
(** val negb : bool -> bool **)

let negb = function
| true -> false
| false -> true

type nat =
| O
| S of nat

(** val fst : ('a1 * 'a2) -> 'a1 **)

let fst = function
| (x, _) -> x

(** val snd : ('a1 * 'a2) -> 'a2 **)

let snd = function
| (_, y) -> y

(** val app : 'a1 list -> 'a1 list -> 'a1 list **)

let rec app l m0 =
  match l with
  | [] -> m0
  | a :: l1 -> a :: (app l1 m0)

type positive =
| XI of positive
| XO of positive
| XH

type n =
| N0
| Npos of positive

type z =
| Z0
| Zpos of positive
| Zneg of positive

(** val map : ('a1 -> 'a2) -> 'a1 list -> 'a2 list **)

let rec map f = function
| [] -> []
| a :: t -> (f a) :: (map f t)

(** val existsb : ('a1 -> bool) -> 'a1 list -> bool **)

let rec existsb f = function
| [] -> false
| a :: l0 -> (||) (f a) (existsb f l0)

(** val find : ('a1 -> bool) -> 'a1 list -> 'a1 option **)

let rec find f = function
| [] -> None
| x :: tl -> if f x then Some x else find f tl

(** val ex_keep :
    (((((nat * n) * z) * z list) * z option) * positive) * bool **)

let ex_keep =
  ((((((O, N0), Z0), []), None), XH), true)

type cls =
| CB
| CT
| CCS
| CPS
| CU

type kind =
| KOp
| KRop
| KIop

type mstate =
| Undef
| RetNI
| RetVal

type world =
| WPy
| WCy

(** val cls_eqb : cls -> cls -> bool **)

let cls_eqb a b =
  match a with
  | CB -> (match b with
           | CB -> true
           | _ -> false)
  | CT -> (match b with
           | CT -> true
           | _ -> false)
  | CCS -> (match b with
            | CCS -> true
            | _ -> false)
  | CPS -> (match b with
            | CPS -> true
            | _ -> false)
  | CU -> (match b with
           | CU -> true
           | _ -> false)

(** val parent : cls -> cls option **)

let parent = function
| CB -> None
| CT -> Some CB
| CU -> None
| _ -> Some CT

(** val chain : cls -> cls list **)

let chain = function
| CB -> CB :: []
| CT -> CT :: (CB :: [])
| CU -> CU :: []
| x -> x :: (CT :: (CB :: []))

(** val issub : cls -> cls -> bool **)

let issub a b =
  existsb (cls_eqb b) (chain a)

type slot =
| SNone
| SPy
| SCy of cls

(** val slot_eqb : slot -> slot -> bool **)

let slot_eqb a b =
  match a with
  | SNone -> (match b with
              | SNone -> true
              | _ -> false)
  | SPy -> (match b with
            | SPy -> true
            | _ -> false)
  | SCy x -> (match b with
              | SCy y -> cls_eqb x y
              | _ -> false)

(** val is_some : slot -> bool **)

let is_some = function
| SNone -> false
| _ -> true

type entry =
| ENone
| EFun of cls * kind
| EWrap of cls * kind

(** val entry_eqb : entry -> entry -> bool **)

let entry_eqb a b =
  match a with
  | ENone -> (match b with
              | ENone -> true
              | _ -> false)
  | EFun (c, k) ->
    (match b with
     | EFun (c', k') ->
       (&&) (cls_eqb c c')
         (match k with
          | KOp -> (match k' with
                    | KOp -> true
                    | _ -> false)
          | KRop -> (match k' with
                     | KRop -> true
                     | _ -> false)
          | KIop -> (match k' with
                     | KIop -> true
                     | _ -> false))
     | _ -> false)
  | EWrap (c, k) ->
    (match b with
     | EWrap (c', k') ->
       (&&) (cls_eqb c c')
         (match k with
          | KOp -> (match k' with
                    | KOp -> true
                    | _ -> false)
          | KRop -> (match k' with
                     | KRop -> true
                     | _ -> false)
          | KIop -> (match k' with
                     | KIop -> true
                     | _ -> false))
     | _ -> false)

type res =
| NI
| Val of cls * kind
| Fuel

type ev = (cls * kind) * bool

type m = ev list * res

type opnd = bool * cls

(** val ty : opnd -> cls **)

let ty =
  snd

(** val orelse : m -> (unit -> m) -> m **)

let orelse a k =
  match snd a with
  | NI -> let b = k () in ((app (fst a) (fst b)), (snd b))
  | _ -> a

(** val defd : (cls -> kind -> mstate) -> cls -> kind -> bool **)

let defd st c k =
  match st c k with
  | Undef -> false
  | _ -> true

(** val is_py : world -> bool -> cls -> bool **)

let is_py w upy c =
  match w with
  | WPy -> true
  | WCy -> (match c with
            | CPS -> true
            | CU -> upy
            | _ -> false)

(** val own_slot : (cls -> kind -> mstate) -> cls -> bool **)

let own_slot st c =
  (||) (defd st c KOp) (defd st c KRop)

(** val entry_of :
    world -> (cls -> kind -> mstate) -> bool -> cls -> kind -> entry **)

let entry_of w st upy c k =
  if is_py w upy c
  then if defd st c k then EFun (c, k) else ENone
  else (match k with
        | KIop -> if defd st c k then EFun (c, k) else ENone
        | _ ->
          if own_slot st c
          then if defd st c k then EFun (c, k) else EWrap (c, k)
          else ENone)

(** val lookup_in :
    world -> (cls -> kind -> mstate) -> bool -> cls list -> kind -> entry **)

let rec lookup_in w st upy l k =
  match l with
  | [] -> ENone
  | c :: r ->
    (match entry_of w st upy c k with
     | ENone -> lookup_in w st upy r k
     | x -> x)

(** val lookup :
    world -> (cls -> kind -> mstate) -> bool -> cls -> kind -> entry **)

let lookup w st upy c k =
  lookup_in w st upy (chain c) k

(** val upd :
    ((cls option * bool) * bool) -> entry -> (cls option * bool) * bool **)

let upd acc d =
  let (p, _) = acc in
  let (sp, ug) = p in
  (match d with
   | ENone -> acc
   | EFun (_, _) -> ((sp, true), true)
   | EWrap (c, _) ->
     (match sp with
      | Some c' ->
        if cls_eqb c c' then ((sp, ug), true) else ((sp, true), true)
      | None -> (((Some c), ug), true)))

(** val py_slot : world -> (cls -> kind -> mstate) -> bool -> cls -> slot **)

let py_slot w st upy c =
  let (p, g) =
    upd (upd ((None, false), false) (lookup w st upy c KOp))
      (lookup w st upy c KRop)
  in
  let (sp, ug) = p in
  (match sp with
   | Some x -> if ug then if g then SPy else SNone else SCy x
   | None -> if g then SPy else SNone)

(** val cy_slot_in : (cls -> kind -> mstate) -> cls list -> slot **)

let rec cy_slot_in st = function
| [] -> SNone
| c :: r -> if own_slot st c then SCy c else cy_slot_in st r

(** val binslot : world -> (cls -> kind -> mstate) -> bool -> cls -> slot **)

let binslot w st upy c =
  if is_py w upy c then py_slot w st upy c else cy_slot_in st (chain c)

(** val base_slot :
    world -> (cls -> kind -> mstate) -> bool -> cls -> slot **)

let base_slot w st upy c =
  match parent c with
  | Some p -> binslot w st upy p
  | None -> SNone

(** val user : (cls -> kind -> mstate) -> cls -> kind -> opnd -> m **)

let user st c k self =
  ((((c, k), (fst self)) :: []),
    (match st c k with
     | RetVal -> Val (c, k)
     | _ -> NI))

(** val call_entry :
    (cls -> kind -> mstate) -> (slot -> opnd -> opnd -> m) -> entry -> opnd
    -> opnd -> m **)

let call_entry st rec0 d x y =
  match d with
  | ENone -> ([], NI)
  | EFun (c, k) -> user st c k x
  | EWrap (c, k) ->
    (match k with
     | KOp -> rec0 (SCy c) x y
     | _ -> rec0 (SCy c) y x)

(** val overloaded :
    world -> (cls -> kind -> mstate) -> bool -> opnd -> opnd -> bool **)

let overloaded w st upy l r =
  match lookup w st upy (ty r) KRop with
  | ENone -> false
  | x ->
    (match lookup w st upy (ty l) KRop with
     | ENone -> true
     | x0 -> negb (entry_eqb x x0))

(** val slot_py :
    world -> (cls -> kind -> mstate) -> bool -> (slot -> opnd -> opnd -> m)
    -> opnd -> opnd -> m **)

let slot_py w st upy rec0 s o =
  let do_other =
    (&&) (negb (cls_eqb (ty s) (ty o)))
      (slot_eqb (binslot w st upy (ty o)) SPy)
  in
  let tail = fun d ->
    if d
    then call_entry st rec0 (lookup w st upy (ty o) KRop) o s
    else ([], NI)
  in
  if slot_eqb (binslot w st upy (ty s)) SPy
  then let main = fun d ->
         let r = call_entry st rec0 (lookup w st upy (ty s) KOp) s o in
         (match snd r with
          | NI ->
            if cls_eqb (ty o) (ty s) then r else orelse r (fun _ -> tail d)
          | _ -> r)
       in
       if (&&) ((&&) do_other (issub (ty o) (ty s))) (overloaded w st upy s o)
       then orelse (call_entry st rec0 (lookup w st upy (ty o) KRop) o s)
              (fun _ -> main false)
       else main do_other
  else tail do_other

(** val cy_binop :
    world -> (cls -> kind -> mstate) -> bool -> bool -> (slot -> opnd -> opnd
    -> m) -> cls -> opnd -> opnd -> m **)

let cy_binop w st upy fx rec0 c lft rgt =
  let ol = defd st c KOp in
  let orr = defd st c KRop in
  let same = cls_eqb (ty lft) (ty rgt) in
  let is_self = fun x leftpos ->
    if (&&) fx same
    then leftpos
    else (||) ((||) same (slot_eqb (binslot w st upy (ty x)) (SCy c)))
           (issub (ty x) c)
  in
  let call_left = fun _ ->
    if ol then user st c KOp lft else rec0 (base_slot w st upy c) lft rgt
  in
  let call_right = fun _ ->
    if orr then user st c KRop rgt else rec0 (base_slot w st upy c) lft rgt
  in
  let msl = is_self lft true in
  let msr0 = if ol then false else is_self rgt false in
  let final = fun msr -> if msr then call_right () else ([], NI) in
  let msr_late = if ol then is_self rgt false else msr0 in
  if msl
  then if (&&) ((&&) orr (negb ol)) msr0
       then orelse (call_right ()) (fun _ ->
              orelse (call_left ()) (fun _ -> ([], NI)))
       else orelse (call_left ()) (fun _ -> final msr_late)
  else final msr_late

(** val call_slot :
    world -> (cls -> kind -> mstate) -> bool -> bool -> nat -> slot -> opnd
    -> opnd -> m **)

let rec call_slot w st upy fx fuel s v x =
  match fuel with
  | O -> ([], Fuel)
  | S f ->
    (match s with
     | SNone -> ([], NI)
     | SPy -> slot_py w st upy (call_slot w st upy fx f) v x
     | SCy c -> cy_binop w st upy fx (call_slot w st upy fx f) c v x)

(** val fUEL : nat **)

let fUEL =
  S (S (S (S (S (S (S (S (S (S (S (S O)))))))))))

(** val binary_op1 :
    world -> (cls -> kind -> mstate) -> bool -> bool -> opnd -> opnd -> m **)

let binary_op1 w st upy fx v x =
  let slotv = binslot w st upy (ty v) in
  let slotw =
    if cls_eqb (ty x) (ty v)
    then SNone
    else let s = binslot w st upy (ty x) in
         if slot_eqb s slotv then SNone else s
  in
  if is_some slotv
  then if (&&) (is_some slotw) (issub (ty x) (ty v))
       then orelse (call_slot w st upy fx fUEL slotw v x) (fun _ ->
              call_slot w st upy fx fUEL slotv v x)
       else orelse (call_slot w st upy fx fUEL slotv v x) (fun _ ->
              call_slot w st upy fx fUEL slotw v x)
  else call_slot w st upy fx fUEL slotw v x

type cst = mstate * mstate

type bcfg = ((((cst * cst) * cst) * cst) * cst) * bool

type icfg = (((mstate * mstate) * mstate) * mstate) * mstate

(** val bc_upy : bcfg -> bool **)

let bc_upy =
  snd

(** val mkst : bcfg -> icfg -> cls -> kind -> mstate **)

let mkst bc ic c k =
  let (p0, _) = bc in
  let (p1, u) = p0 in
  let (p2, p) = p1 in
  let (p3, s) = p2 in
  let (b, t) = p3 in
  let (p4, iu) = ic in
  let (p5, ip) = p4 in
  let (p6, is_) = p5 in
  let (ib, it) = p6 in
  let pick = fun x i -> match k with
                        | KOp -> fst x
                        | KRop -> snd x
                        | KIop -> i
  in
  (match c with
   | CB -> pick b ib
   | CT -> pick t it
   | CCS -> pick s is_
   | CPS -> pick p ip
   | CU -> pick u iu)

(** val ic0 : icfg **)

let ic0 =
  ((((Undef, Undef), Undef), Undef), Undef)

type fres =
| FTypeError
| FVal of cls * kind
| FNotImplementedObject
| FFuel

type out = ev list * fres

(** val finish : m -> out **)

let finish m0 =
  ((fst m0),
    (match snd m0 with
     | NI -> FTypeError
     | Val (c, k) -> FVal (c, k)
     | Fuel -> FFuel))

(** val relevant : cls -> cls -> cls -> bool **)

let relevant l r c =
  existsb (cls_eqb c) (app (chain l) (chain r))

(** val keep : cls -> cls -> cls -> cst -> cst **)

let keep l r c x =
  if relevant l r c then x else (Undef, Undef)

(** val norm : cls -> cls -> bcfg -> bcfg **)

let norm l r = function
| (p0, y) ->
  let (p1, u) = p0 in
  let (p2, p) = p1 in
  let (p3, s) = p2 in
  let (b, t) = p3 in
  ((((((keep l r CB b), (keep l r CT t)), (keep l r CCS s)),
  (keep l r CPS p)), (keep l r CU u)), (if relevant l r CU then y else false))

(** val run_bin : world -> bool -> bcfg -> cls -> cls -> m **)

let run_bin w fx bc l r =
  let nb = norm l r bc in
  binary_op1 w (mkst nb ic0) (bc_upy nb) fx (true, l) (false, r)

(** val iop_part : bcfg -> icfg -> cls -> m **)

let iop_part bc ic l =
  match lookup WPy (mkst bc ic) false l KIop with
  | EFun (c, k) -> user (mkst bc ic) c k (true, l)
  | _ -> ([], NI)

(** val sq_concat_applies : world -> bool -> bcfg -> icfg -> cls -> bool **)

let sq_concat_applies w isadd bc ic l =
  match w with
  | WPy -> false
  | WCy ->
    (&&) ((&&) isadd (is_py WCy (bc_upy bc) l))
      (match lookup WPy (mkst bc ic) false l KIop with
       | EFun (c, _) -> negb (is_py WCy (bc_upy bc) c)
       | _ -> false)

(** val run :
    world -> bool -> bool -> bool -> bcfg -> icfg -> cls -> cls -> out **)

let run w fx isadd inplace bc ic l r =
  if inplace
  then let m0 = orelse (iop_part bc ic l) (fun _ -> run_bin w fx bc l r) in
       (match snd m0 with
        | NI ->
          if sq_concat_applies w isadd bc ic l
          then let m2 = iop_part bc ic l in
               ((app (fst m0) (fst m2)),
               (match snd m2 with
                | NI -> FNotImplementedObject
                | Val (c, k) -> FVal (c, k)
                | Fuel -> FFuel))
          else finish m0
        | _ -> finish m0)
  else finish (run_bin w fx bc l r)

(** val related : cls -> cls -> bool **)

let related l r =
  match l with
  | CU -> (match r with
           | CU -> true
           | _ -> false)
  | _ -> (match r with
          | CU -> false
          | _ -> true)

(** val slots_of : bcfg -> cls -> cls -> slot list **)

let slots_of bc l r =
  let nb = norm l r bc in
  map (binslot WCy (mkst nb ic0) (bc_upy nb)) (app (chain l) (chain r))

(** val multi_slot : bcfg -> cls -> cls -> bool **)

let multi_slot bc l r =
  let l0 = slots_of bc l r in
  existsb (fun a ->
    existsb (fun b ->
      (&&) ((&&) (is_some a) (is_some b)) (negb (slot_eqb a b))) l0) l0

(** val any_rop : bcfg -> cls -> bool **)

let any_rop bc l =
  existsb (fun c -> defd (mkst bc ic0) c KRop) (chain l)

(** val any_slot : bcfg -> cls -> cls -> bool **)

let any_slot bc l r =
  existsb is_some (slots_of bc l r)

(** val exc_same_type : bool -> bcfg -> cls -> cls -> bool **)

let exc_same_type fx bc l r =
  (&&) ((&&) (cls_eqb l r) (negb fx))
    ((||) ((&&) (any_rop bc l) (any_slot bc l r)) (multi_slot bc l r))

(** val exc_multi_slot : bcfg -> cls -> cls -> bool **)

let exc_multi_slot bc l r =
  (&&) ((&&) (related l r) (negb (cls_eqb l r))) (multi_slot bc l r)

(** val capi_slot_in : (cls -> kind -> mstate) -> cls list -> cls option **)

let capi_slot_in st l =
  find (fun c -> defd st c KOp) l

(** val run_capi : bcfg -> cls -> cls -> out **)

let run_capi bc l r =
  let st = mkst bc ic0 in
  let sv = capi_slot_in st (chain l) in
  let sw =
    if cls_eqb l r
    then None
    else (match capi_slot_in st (chain r) with
          | Some a ->
            (match sv with
             | Some b -> if cls_eqb a b then None else Some a
             | None -> Some a)
          | None -> None)
  in
  let call = fun s ->
    match s with
    | Some c -> user st c KOp (true, l)
    | None -> ([], NI)
  in
  finish
    (match sv with
     | Some _ ->
       if (&&) (match sw with
                | Some _ -> true
                | None -> false) (issub r l)
       then orelse (call sw) (fun _ -> call sv)
       else orelse (call sv) (fun _ -> call sw)
     | None -> call sw)

type rcls =
| RT
| RX
| RU

type cop =
| LT
| LE
| EQ
| NE
| GT
| GE

type cstate =
| CU0
| CN
| CTr
| CFa

type rres =
| RNI
| RB of bool
| RTypeErr
| RFuel

type rev = (rcls * cop) * bool

type rM = rev list * rres

type ropnd = bool * rcls

(** val rcls_eqb : rcls -> rcls -> bool **)

let rcls_eqb a b =
  match a with
  | RT -> (match b with
           | RT -> true
           | _ -> false)
  | RX -> (match b with
           | RX -> true
           | _ -> false)
  | RU -> (match b with
           | RU -> true
           | _ -> false)

(** val swap : cop -> cop **)

let swap = function
| LT -> GT
| LE -> GE
| GT -> LT
| GE -> LE
| x -> x

(** val all_cop : cop list **)

let all_cop =
  LT :: (LE :: (EQ :: (NE :: (GT :: (GE :: [])))))

(** val root_pref : cop list **)

let root_pref =
  LT :: (LE :: (GT :: (GE :: [])))

(** val rsub : rcls -> rcls -> bool **)

let rsub a b =
  match a with
  | RX -> (match b with
           | RT -> true
           | _ -> rcls_eqb a b)
  | _ -> rcls_eqb a b

(** val rchain : rcls -> rcls list **)

let rchain = function
| RX -> RX :: (RT :: [])
| x -> x :: []

(** val rbind : rM -> (rres -> rM) -> rM **)

let rbind a k =
  let b = k (snd a) in ((app (fst a) (fst b)), (snd b))

(** val rret : rres -> rM **)

let rret r =
  ([], r)

(** val rnot : rres -> rres **)

let rnot r = match r with
| RB b -> RB (negb b)
| _ -> r

(** val derive : cop -> cop -> bool * nat **)

let derive root0 op =
  match root0 with
  | LT ->
    (match op with
     | LE -> (false, (S O))
     | GT -> (true, (S (S O)))
     | GE -> (true, O)
     | _ -> (false, O))
  | LE ->
    (match op with
     | LT -> (false, (S (S O)))
     | GT -> (true, O)
     | GE -> (true, (S O))
     | _ -> (false, O))
  | GT ->
    (match op with
     | LT -> (true, (S (S O)))
     | LE -> (true, O)
     | GE -> (false, (S O))
     | _ -> (false, O))
  | GE ->
    (match op with
     | LT -> (true, O)
     | LE -> (true, (S O))
     | GT -> (false, (S (S O)))
     | _ -> (false, O))
  | _ -> (false, O)

(** val is_ordering : cop -> bool **)

let is_ordering = function
| EQ -> false
| NE -> false
| _ -> true

(** val rst : (cop -> cstate) -> (cop -> cstate) -> rcls -> cop -> cstate **)

let rst tst xst c m0 =
  match c with
  | RT -> tst m0
  | RX -> xst m0
  | RU -> CU0

(** val rdef : (cop -> cstate) -> (cop -> cstate) -> rcls -> cop -> bool **)

let rdef tst xst c m0 =
  match rst tst xst c m0 with
  | CU0 -> false
  | _ -> true

(** val r_is_py : world -> bool -> rcls -> bool **)

let r_is_py w xpy c =
  match w with
  | WPy -> true
  | WCy -> (match c with
            | RX -> xpy
            | _ -> false)

(** val ruser :
    (cop -> cstate) -> (cop -> cstate) -> rcls -> cop -> ropnd -> rM **)

let ruser tst xst c m0 s =
  ((((c, m0), (fst s)) :: []),
    (match rst tst xst c m0 with
     | CTr -> RB true
     | CFa -> RB false
     | _ -> RNI))

(** val root : (cop -> cstate) -> (cop -> cstate) -> cop option **)

let root tst xst =
  find (rdef tst xst RT) root_pref

(** val any_def : (cop -> cstate) -> (cop -> cstate) -> rcls -> bool **)

let any_def tst xst c =
  existsb (rdef tst xst c) all_cop

(** val comp :
    world -> (cop -> cstate) -> (cop -> cstate) -> bool -> rcls -> cop ->
    rcls option **)

let comp w tst xst xpy c m0 =
  find (fun x -> (&&) (negb (r_is_py w xpy x)) (rdef tst xst x m0)) (rchain c)

type rreq =
| QDo of ropnd * ropnd * cop
| QTp of rcls * ropnd * ropnd * cop

(** val rev_ :
    world -> (cop -> cstate) -> (cop -> cstate) -> bool -> bool -> cstate ->
    cstate -> bool -> nat -> rreq -> rM **)

let rec rev_ w tst xst tord xpy uord ueq nefix fuel q =
  match fuel with
  | O -> rret RFuel
  | S f ->
    (match q with
     | QDo (v, x, op) ->
       let first =
         (&&) (negb (rcls_eqb (snd v) (snd x))) (rsub (snd x) (snd v))
       in
       let refl = fun _ ->
         rev_ w tst xst tord xpy uord ueq nefix f (QTp ((snd x), x, v,
           (swap op)))
       in
       let fwd = fun _ ->
         rev_ w tst xst tord xpy uord ueq nefix f (QTp ((snd v), v, x, op))
       in
       let dflt =
         rret (match op with
               | EQ -> RB false
               | NE -> RB true
               | _ -> RTypeErr)
       in
       let step = fun a k ->
         rbind a (fun r -> match r with
                           | RNI -> k ()
                           | _ -> rret r)
       in
       if first
       then step (refl ()) (fun _ -> step (fwd ()) (fun _ -> dflt))
       else step (fwd ()) (fun _ -> step (refl ()) (fun _ -> dflt))
     | QTp (c, s, o, op) ->
       let object_rc = fun op0 ->
         match op0 with
         | NE ->
           rbind
             (rev_ w tst xst tord xpy uord ueq nefix f (QTp ((snd s), s, o,
               EQ))) (fun r -> rret (rnot r))
         | _ -> rret RNI
       in
       (match c with
        | RU ->
          ((((RU, op), (fst s)) :: []),
            (match if is_ordering op then uord else ueq with
             | CTr -> RB true
             | CFa -> RB false
             | _ -> RNI))
        | _ ->
          if r_is_py w xpy c
          then (match w with
                | WPy ->
                  (match find (fun x -> rdef tst xst x op) (rchain c) with
                   | Some x -> ruser tst xst x op s
                   | None ->
                     (match if (&&) tord (is_ordering op)
                            then root tst xst
                            else None with
                      | Some r ->
                        let (neg, comb) = derive r op in
                        rbind
                          (rev_ w tst xst tord xpy uord ueq nefix f (QTp
                            ((snd s), s, o, r))) (fun a ->
                          match a with
                          | RB b ->
                            let b' = if neg then negb b else b in
                            (match comb with
                             | O -> rret (RB b')
                             | S n0 ->
                               (match n0 with
                                | O ->
                                  if b'
                                  then rret (RB true)
                                  else rev_ w tst xst tord xpy uord ueq nefix
                                         f (QDo (s, o, EQ))
                                | S n1 ->
                                  (match n1 with
                                   | O ->
                                     if b'
                                     then rev_ w tst xst tord xpy uord ueq
                                            nefix f (QDo (s, o, NE))
                                     else rret (RB false)
                                   | S _ -> rret (RB b'))))
                          | _ -> rret a)
                      | None -> object_rc op))
                | WCy ->
                  if rdef tst xst RX op
                  then ruser tst xst RX op s
                  else rev_ w tst xst tord xpy uord ueq nefix f (QTp (RT, s,
                         o, op)))
          else (match find (any_def tst xst) (rchain c) with
                | Some g ->
                  let tor = (&&) tord (rcls_eqb g RT) in
                  let src =
                    find (fun m0 ->
                      match comp w tst xst xpy g m0 with
                      | Some _ -> true
                      | None -> false) root_pref
                  in
                  let has = fun m0 ->
                    match comp w tst xst xpy g m0 with
                    | Some _ -> true
                    | None -> false
                  in
                  let tor0 =
                    (&&)
                      ((&&) tor
                        (match src with
                         | Some _ -> true
                         | None -> false)) ((||) (has EQ) (has NE))
                  in
                  (match comp w tst xst xpy g op with
                   | Some d -> ruser tst xst d op s
                   | None ->
                     (match if (&&) tor0 (is_ordering op) then src else None with
                      | Some r ->
                        let (neg, comb) = derive r op in
                        rbind
                          (match comp w tst xst xpy g r with
                           | Some d -> ruser tst xst d r s
                           | None -> rret RNI) (fun a ->
                          match a with
                          | RB b ->
                            let b' = if neg then negb b else b in
                            let eqcall = fun inv ->
                              let m0 = if has EQ then EQ else NE in
                              let inv0 = if has EQ then inv else negb inv in
                              rbind
                                (match comp w tst xst xpy g m0 with
                                 | Some d -> ruser tst xst d m0 s
                                 | None -> rret RNI) (fun e ->
                                rret (if inv0 then rnot e else e))
                            in
                            (match comb with
                             | O -> rret (RB b')
                             | S n0 ->
                               (match n0 with
                                | O ->
                                  if b' then rret (RB true) else eqcall false
                                | S n1 ->
                                  (match n1 with
                                   | O ->
                                     if b'
                                     then eqcall true
                                     else rret (RB false)
                                   | S _ -> rret (RB b'))))
                          | _ -> rret a)
                      | None ->
                        (match op with
                         | NE ->
                           if has EQ
                           then if nefix
                                then rbind
                                       (rev_ w tst xst tord xpy uord ueq
                                         nefix f (QTp ((snd s), s, o, EQ)))
                                       (fun r -> rret (rnot r))
                                else rbind
                                       (match comp w tst xst xpy g EQ with
                                        | Some d -> ruser tst xst d EQ s
                                        | None -> rret RNI) (fun r ->
                                       rret (rnot r))
                           else rret RNI
                         | _ -> rret RNI)))
                | None -> object_rc op)))

(** val rc_run :
    world -> (cop -> cstate) -> (cop -> cstate) -> bool -> bool -> cstate ->
    cstate -> bool -> rcls -> rcls -> cop -> rM **)

let rc_run w tst xst tord xpy uord ueq nefix l r op =
  rev_ w tst xst tord xpy uord ueq nefix (S (S (S (S (S (S (S (S (S (S (S (S
    (S (S O)))))))))))))) (QDo ((true, l), (false, r), op))
