
val negb : bool -> bool

type nat =
| O
| S of nat

val fst : ('a1 * 'a2) -> 'a1

val snd : ('a1 * 'a2) -> 'a2

val length : 'a1 list -> nat

val app : 'a1 list -> 'a1 list -> 'a1 list

val add : nat -> nat -> nat

val sub : nat -> nat -> nat

type positive =
| XI of positive
| XO of positive
| XH

type n =
| N0
| Npos of positive

type z =
| Z0
| Zpos of positive
| Zneg of positive

module Nat :
 sig
  val eqb : nat -> nat -> bool
 end

val map : ('a1 -> 'a2) -> 'a1 list -> 'a2 list

val filter : ('a1 -> bool) -> 'a1 list -> 'a1 list

val firstn : nat -> 'a1 list -> 'a1 list

val skipn : nat -> 'a1 list -> 'a1 list

val ex_keep : (((((nat * n) * z) * z list) * z option) * positive) * bool

type 'a tok =
| TArg of 'a
| TSlash
| TStar
| TVarArgs of 'a
| TKwArgs of 'a

val insert : nat -> 'a1 -> 'a1 list -> 'a1 list

val ins_opt : nat -> 'a1 option -> 'a1 list -> 'a1 list

type order =
| StarThenSlash
| SlashThenStar

type 'a argnode = bool * 'a

val visible : bool -> 'a1 argnode list -> 'a1 argnode list

val star_tok : 'a1 option -> nat -> 'a1 tok option

val slash_tok : nat -> 'a1 tok option

val kw_toks : 'a1 option -> 'a1 tok list

val adjust : bool -> 'a1 argnode list -> nat -> nat -> nat * nat

val fmt_arglist :
  order -> bool -> 'a1 argnode list -> nat -> nat -> 'a1 option -> nat -> 'a1
  option -> bool -> 'a1 tok list

type 'a sigsrc = { s_po : 'a list; s_pk : 'a list; s_va : 'a option;
                   s_ko : 'a list; s_kw : 'a option }

val opt_list : 'a1 option -> 'a1 list

val canon : 'a1 sigsrc -> 'a1 tok list

val take_args : 'a1 tok list -> 'a1 list * 'a1 tok list

val read_tail :
  'a1 list -> 'a1 list -> 'a1 option -> 'a1 list -> 'a1 tok list -> 'a1
  sigsrc option

val read_star : 'a1 list -> 'a1 list -> 'a1 tok list -> 'a1 sigsrc option

val read_sig : 'a1 tok list -> 'a1 sigsrc option

val plain : 'a1 list -> 'a1 argnode list

val args_of : 'a1 sigsrc -> 'a1 argnode list

val fmt_of : order -> bool -> 'a1 sigsrc -> bool -> 'a1 tok list

val fmt_of_self :
  order -> bool -> 'a1 -> bool -> 'a1 sigsrc -> bool -> 'a1 tok list
