
(** val negb : bool -> bool **)

let negb = function
| true -> false
| false -> true

type nat =
| O
| S of nat

(** val fst : ('a1 * 'a2) -> 'a1 **)

let fst = function
| (x, _) -> x

(** val snd : ('a1 * 'a2) -> 'a2 **)

let snd = function
| (_, y) -> y

(** val length : 'a1 list -> nat **)

let rec length = function
| [] -> O
| _ :: l' -> S (length l')

(** val app : 'a1 list -> 'a1 list -> 'a1 list **)

let rec app l m =
  match l with
  | [] -> m
  | a :: l1 -> a :: (app l1 m)

(** val add : nat -> nat -> nat **)

let rec add n0 m =
  match n0 with
  | O -> m
  | S p -> S (add p m)

(** val sub : nat -> nat -> nat **)

let rec sub n0 m =
  match n0 with
  | O -> n0
  | S k -> (match m with
            | O -> n0
            | S l -> sub k l)

type positive =
| XI of positive
| XO of positive
| XH

type n =
| N0
| Npos of positive

type z =
| Z0
| Zpos of positive
| Zneg of positive

module Nat =
 struct
  (** val eqb : nat -> nat -> bool **)

  let rec eqb n0 m =
    match n0 with
    | O -> (match m with
            | O -> true
            | S _ -> false)
    | S n' -> (match m with
               | O -> false
               | S m' -> eqb n' m')
 end

(** val map : ('a1 -> 'a2) -> 'a1 list -> 'a2 list **)

let rec map f = function
| [] -> []
| a :: t -> (f a) :: (map f t)

(** val filter : ('a1 -> bool) -> 'a1 list -> 'a1 list **)

let rec filter f = function
| [] -> []
| x :: l0 -> if f x then x :: (filter f l0) else filter f l0

(** val firstn : nat -> 'a1 list -> 'a1 list **)

let rec firstn n0 l =
  match n0 with
  | O -> []
  | S n1 -> (match l with
             | [] -> []
             | a :: l0 -> a :: (firstn n1 l0))

(** val skipn : nat -> 'a1 list -> 'a1 list **)

let rec skipn n0 l =
  match n0 with
  | O -> l
  | S n1 -> (match l with
             | [] -> []
             | _ :: l0 -> skipn n1 l0)

(** val ex_keep :
    (((((nat * n) * z) * z list) * z option) * positive) * bool **)

let ex_keep =
  ((((((O, N0), Z0), []), None), XH), true)

type 'a tok =
| TArg of 'a
| TSlash
| TStar
| TVarArgs of 'a
| TKwArgs of 'a

(** val insert : nat -> 'a1 -> 'a1 list -> 'a1 list **)

let insert i x l =
  app (firstn i l) (x :: (skipn i l))

(** val ins_opt : nat -> 'a1 option -> 'a1 list -> 'a1 list **)

let ins_opt i o l =
  match o with
  | Some x -> insert i x l
  | None -> l

type order =
| StarThenSlash
| SlashThenStar

type 'a argnode = bool * 'a

(** val visible : bool -> 'a1 argnode list -> 'a1 argnode list **)

let visible hide_self args =
  filter (fun a -> negb ((&&) hide_self (fst a))) args

(** val star_tok : 'a1 option -> nat -> 'a1 tok option **)

let star_tok pargs nk =
  match pargs with
  | Some p -> Some (TVarArgs p)
  | None -> if Nat.eqb nk O then None else Some TStar

(** val slash_tok : nat -> 'a1 tok option **)

let slash_tok npo =
  if Nat.eqb npo O then None else Some TSlash

(** val kw_toks : 'a1 option -> 'a1 tok list **)

let kw_toks = function
| Some k -> (TKwArgs k) :: []
| None -> []

(** val adjust : bool -> 'a1 argnode list -> nat -> nat -> nat * nat **)

let rec adjust hide_self args npo np =
  match args with
  | [] -> (npo, np)
  | a :: r ->
    if (&&) hide_self (fst a)
    then if Nat.eqb npo O
         then adjust hide_self r npo (sub np (S O))
         else adjust hide_self r (sub npo (S O)) np
    else adjust hide_self r npo np

(** val fmt_arglist :
    order -> bool -> 'a1 argnode list -> nat -> nat -> 'a1 option -> nat ->
    'a1 option -> bool -> 'a1 tok list **)

let fmt_arglist ord fix_hidden args npo np pargs nk kargs hide_self =
  let l0 = map (fun a -> TArg (snd a)) (visible hide_self args) in
  let c = if fix_hidden then adjust hide_self args npo np else (npo, np) in
  let npo' = fst c in
  let np' = snd c in
  let l2 =
    match ord with
    | StarThenSlash ->
      ins_opt npo' (slash_tok npo')
        (ins_opt (add np' npo') (star_tok pargs nk) l0)
    | SlashThenStar ->
      ins_opt (add np' npo') (star_tok pargs nk)
        (ins_opt npo' (slash_tok npo') l0)
  in
  app l2 (kw_toks kargs)

type 'a sigsrc = { s_po : 'a list; s_pk : 'a list; s_va : 'a option;
                   s_ko : 'a list; s_kw : 'a option }

(** val opt_list : 'a1 option -> 'a1 list **)

let opt_list = function
| Some x -> x :: []
| None -> []

(** val canon : 'a1 sigsrc -> 'a1 tok list **)

let canon s =
  app (map (fun x -> TArg x) s.s_po)
    (app (match s.s_po with
          | [] -> []
          | _ :: _ -> TSlash :: [])
      (app (map (fun x -> TArg x) s.s_pk)
        (app (opt_list (star_tok s.s_va (length s.s_ko)))
          (app (map (fun x -> TArg x) s.s_ko) (kw_toks s.s_kw)))))

(** val take_args : 'a1 tok list -> 'a1 list * 'a1 tok list **)

let rec take_args l = match l with
| [] -> ([], l)
| t :: r ->
  (match t with
   | TArg a -> let p = take_args r in ((a :: (fst p)), (snd p))
   | _ -> ([], l))

(** val read_tail :
    'a1 list -> 'a1 list -> 'a1 option -> 'a1 list -> 'a1 tok list -> 'a1
    sigsrc option **)

let read_tail po pk va ko = function
| [] -> Some { s_po = po; s_pk = pk; s_va = va; s_ko = ko; s_kw = None }
| t :: l ->
  (match t with
   | TKwArgs k ->
     (match l with
      | [] ->
        Some { s_po = po; s_pk = pk; s_va = va; s_ko = ko; s_kw = (Some k) }
      | _ :: _ -> None)
   | _ -> None)

(** val read_star :
    'a1 list -> 'a1 list -> 'a1 tok list -> 'a1 sigsrc option **)

let read_star po pk r = match r with
| [] -> read_tail po pk None [] r
| t :: r' ->
  (match t with
   | TStar ->
     let p = take_args r' in
     (match fst p with
      | [] -> None
      | _ :: _ -> read_tail po pk None (fst p) (snd p))
   | TVarArgs v ->
     let p = take_args r' in read_tail po pk (Some v) (fst p) (snd p)
   | _ -> read_tail po pk None [] r)

(** val read_sig : 'a1 tok list -> 'a1 sigsrc option **)

let read_sig l =
  let p = take_args l in
  (match snd p with
   | [] -> read_star [] (fst p) []
   | t :: r ->
     (match t with
      | TSlash ->
        (match fst p with
         | [] -> None
         | _ :: _ -> let q = take_args r in read_star (fst p) (fst q) (snd q))
      | x -> read_star [] (fst p) (x :: r)))

(** val plain : 'a1 list -> 'a1 argnode list **)

let plain l =
  map (fun a -> (false, a)) l

(** val args_of : 'a1 sigsrc -> 'a1 argnode list **)

let args_of s =
  plain (app s.s_po (app s.s_pk s.s_ko))

(** val fmt_of : order -> bool -> 'a1 sigsrc -> bool -> 'a1 tok list **)

let fmt_of ord fix_hidden s hide_self =
  fmt_arglist ord fix_hidden (args_of s) (length s.s_po) (length s.s_pk)
    s.s_va (length s.s_ko) s.s_kw hide_self

(** val fmt_of_self :
    order -> bool -> 'a1 -> bool -> 'a1 sigsrc -> bool -> 'a1 tok list **)

let fmt_of_self ord fix_hidden self self_po s hide_self =
  fmt_arglist ord fix_hidden ((true, self) :: (args_of s))
    (if self_po then S (length s.s_po) else length s.s_po)
    (if self_po then length s.s_pk else S (length s.s_pk)) s.s_va
    (length s.s_ko) s.s_kw hide_self
