
val negb : bool -> bool

type nat =
| O
| S of nat

val fst : ('a1 * 'a2) -> 'a1

val snd : ('a1 * 'a2) -> 'a2

val length : 'a1 list -> nat

val app : 'a1 list -> 'a1 list -> 'a1 list

type comparison =
| Eq
| Lt
| Gt

val compOpp : comparison -> comparison

val pred : nat -> nat

val add : nat -> nat -> nat

type positive =
| XI of positive
| XO of positive
| XH

type n =
| N0
| Npos of positive

type z =
| Z0
| Zpos of positive
| Zneg of positive

module Pos :
 sig
  val succ : positive -> positive

  val add : positive -> positive -> positive

  val add_carry : positive -> positive -> positive

  val pred_double : positive -> positive

  val pred_N : positive -> n

  val mul : positive -> positive -> positive

  val iter : ('a1 -> 'a1) -> 'a1 -> positive -> 'a1

  val size : positive -> positive

  val compare_cont : comparison -> positive -> positive -> comparison

  val compare : positive -> positive -> comparison

  val eqb : positive -> positive -> bool

  val coq_Nsucc_double : n -> n

  val coq_Ndouble : n -> n

  val coq_lor : positive -> positive -> positive

  val coq_land : positive -> positive -> n

  val ldiff : positive -> positive -> n

  val testbit : positive -> n -> bool

  val iter_op : ('a1 -> 'a1 -> 'a1) -> positive -> 'a1 -> 'a1

  val to_nat : positive -> nat

  val of_succ_nat : nat -> positive
 end

module N :
 sig
  val succ_pos : n -> positive

  val eqb : n -> n -> bool

  val coq_land : n -> n -> n

  val ldiff : n -> n -> n

  val testbit : n -> n -> bool
 end

module Z :
 sig
  val double : z -> z

  val succ_double : z -> z

  val pred_double : z -> z

  val pos_sub : positive -> positive -> z

  val add : z -> z -> z

  val opp : z -> z

  val sub : z -> z -> z

  val mul : z -> z -> z

  val pow_pos : z -> positive -> z

  val pow : z -> z -> z

  val compare : z -> z -> comparison

  val leb : z -> z -> bool

  val ltb : z -> z -> bool

  val eqb : z -> z -> bool

  val max : z -> z -> z

  val to_nat : z -> nat

  val of_nat : nat -> z

  val pos_div_eucl : positive -> z -> z * z

  val div_eucl : z -> z -> z * z

  val div : z -> z -> z

  val modulo : z -> z -> z

  val odd : z -> bool

  val log2 : z -> z

  val testbit : z -> z -> bool

  val coq_lor : z -> z -> z
 end

val nth_error : 'a1 list -> nat -> 'a1 option

val map : ('a1 -> 'a2) -> 'a1 list -> 'a2 list

val fold_right : ('a2 -> 'a1 -> 'a1) -> 'a1 -> 'a2 list -> 'a1

val existsb : ('a1 -> bool) -> 'a1 list -> bool

val forallb : ('a1 -> bool) -> 'a1 list -> bool

val filter : ('a1 -> bool) -> 'a1 list -> 'a1 list

val combine : 'a1 list -> 'a2 list -> ('a1 * 'a2) list

val firstn : nat -> 'a1 list -> 'a1 list

val skipn : nat -> 'a1 list -> 'a1 list

val ex_keep : (((((nat * n) * z) * z list) * z option) * positive) * bool

type name = n

type dflt = n

type fkind =
| KPlain
| KGen
| KCoro
| KAsyncGen
| KGenExpr

val fkind_eqb : fkind -> fkind -> bool

type param = name * dflt option

type fsrc = { s_kind : fkind; s_po : param list; s_pk : param list;
              s_star : name option; s_ko : param list; s_ss : name option;
              s_locals : name list; s_synth : z; s_line : z }

type pkind =
| POnly
| PosOrKw
| VarPos
| KwOnly
| VarKw

type sigparam = (name * pkind) * dflt option

val tag : pkind -> param -> sigparam

val opt_list : ('a1 -> 'a2) -> 'a1 option -> 'a2 list

val source_sig : fsrc -> sigparam list

val is_some : 'a1 option -> bool

val somes : 'a1 option list -> 'a1 list

val defaults_of : fsrc -> dflt list

val kwd_of : param list -> (name * dflt) list

val kwdefaults_of : fsrc -> (name * dflt) list

val suffix_defaults : dflt option list -> bool

val nodupb : n list -> bool

val wf_src : fsrc -> bool

val zlen : 'a1 list -> z

val num_posonly : fsrc -> z

val num_kwonly : fsrc -> z

val num_args : fsrc -> z

val varnames : fsrc -> name list

val cO_OPTIMIZED : z

val cO_NEWLOCALS : z

val cO_VARARGS : z

val cO_VARKEYWORDS : z

val cO_GENERATOR : z

val cO_COROUTINE : z

val cO_ASYNC_GENERATOR : z

val kind_flag : fkind -> z

val flags_gen : fkind -> bool -> bool -> z

val flags_of : fsrc -> z

type descr = { d_argcount : z; d_posonly : z; d_kwonly : z; d_nlocals : 
               z; d_flags : z; d_line : z }

val emitted : fsrc -> descr

val bitlen : z -> z

val maxl : z list -> z

val skip_genexpr : fkind -> bool

val skip_generators : fkind -> bool

val skip_none : fkind -> bool

val counted : (fkind -> bool) -> fsrc list -> fsrc list

val max_flags : z

val widths : (fkind -> bool) -> fsrc list -> descr

val store_field : z -> z -> z

val store : descr -> descr -> descr

val fields : descr -> z list

val pack : z list -> z list -> z

val unpack : z list -> z -> z list

type code = { co_argcount : z; co_posonlyargcount : z; co_kwonlyargcount : 
              z; co_nlocals : z; co_flags : z; co_firstlineno : z;
              co_varnames : name list }

val code_of_descr : descr -> name list -> code

val code_of : (fkind -> bool) -> fsrc list -> fsrc -> code

val lookup : name -> (name * dflt) list -> dflt option

val ploop : param list -> nat -> sigparam list

type sigres =
| SigOk of sigparam list
| SigError

val zfirstn : z -> 'a1 list -> 'a1 list

val zskipn : z -> 'a1 list -> 'a1 list

val py_upto : z -> 'a1 list -> 'a1 list

val py_from : z -> 'a1 list -> 'a1 list

val sig_of_code : code -> dflt list -> (name * dflt) list -> sigres

val compiled_sig : (fkind -> bool) -> fsrc list -> fsrc -> sigres

val descr_eqb : descr -> descr -> bool

val survives : (fkind -> bool) -> fsrc list -> fsrc -> bool
