
(** val negb : bool -> bool **)

let negb = function
| true -> false
| false -> true

type nat =
| O
| S of nat

(** val fst : ('a1 * 'a2) -> 'a1 **)

let fst = function
| (x, _) -> x

(** val snd : ('a1 * 'a2) -> 'a2 **)

let snd = function
| (_, y) -> y

(** val length : 'a1 list -> nat **)

let rec length = function
| [] -> O
| _ :: l' -> S (length l')

(** val app : 'a1 list -> 'a1 list -> 'a1 list **)

let rec app l m =
  match l with
  | [] -> m
  | a :: l1 -> a :: (app l1 m)

type comparison =
| Eq
| Lt
| Gt

(** val compOpp : comparison -> comparison **)

let compOpp = function
| Eq -> Eq
| Lt -> Gt
| Gt -> Lt

module Coq__1 = struct
 (** val add : nat -> nat -> nat **)
 let rec add n0 m =
   match n0 with
   | O -> m
   | S p -> S (add p m)
end
include Coq__1

(** val mul : nat -> nat -> nat **)

let rec mul n0 m =
  match n0 with
  | O -> O
  | S p -> add m (mul p m)

(** val sub : nat -> nat -> nat **)

let rec sub n0 m =
  match n0 with
  | O -> n0
  | S k -> (match m with
            | O -> n0
            | S l -> sub k l)

type positive =
| XI of positive
| XO of positive
| XH

type n =
| N0
| Npos of positive

type z =
| Z0
| Zpos of positive
| Zneg of positive

module Nat =
 struct
  (** val eqb : nat -> nat -> bool **)

  let rec eqb n0 m =
    match n0 with
    | O -> (match m with
            | O -> true
            | S _ -> false)
    | S n' -> (match m with
               | O -> false
               | S m' -> eqb n' m')

  (** val leb : nat -> nat -> bool **)

  let rec leb n0 m =
    match n0 with
    | O -> true
    | S n' -> (match m with
               | O -> false
               | S m' -> leb n' m')

  (** val ltb : nat -> nat -> bool **)

  let ltb n0 m =
    leb (S n0) m
 end

module Pos =
 struct
  (** val succ : positive -> positive **)

  let rec succ = function
  | XI p -> XO (succ p)
  | XO p -> XI p
  | XH -> XO XH

  (** val add : positive -> positive -> positive **)

  let rec add x y =
    match x with
    | XI p ->
      (match y with
       | XI q -> XO (add_carry p q)
       | XO q -> XI (add p q)
       | XH -> XO (succ p))
    | XO p ->
      (match y with
       | XI q -> XI (add p q)
       | XO q -> XO (add p q)
       | XH -> XI p)
    | XH -> (match y with
             | XI q -> XO (succ q)
             | XO q -> XI q
             | XH -> XO XH)

  (** val add_carry : positive -> positive -> positive **)

  and add_carry x y =
    match x with
    | XI p ->
      (match y with
       | XI q -> XI (add_carry p q)
       | XO q -> XO (add_carry p q)
       | XH -> XI (succ p))
    | XO p ->
      (match y with
       | XI q -> XO (add_carry p q)
       | XO q -> XI (add p q)
       | XH -> XO (succ p))
    | XH ->
      (match y with
       | XI q -> XI (succ q)
       | XO q -> XO (succ q)
       | XH -> XI XH)

  (** val pred_double : positive -> positive **)

  let rec pred_double = function
  | XI p -> XI (XO p)
  | XO p -> XI (pred_double p)
  | XH -> XH

  (** val pred_N : positive -> n **)

  let pred_N = function
  | XI p -> Npos (XO p)
  | XO p -> Npos (pred_double p)
  | XH -> N0

  (** val mul : positive -> positive -> positive **)

  let rec mul x y =
    match x with
    | XI p -> add y (XO (mul p y))
    | XO p -> XO (mul p y)
    | XH -> y

  (** val iter : ('a1 -> 'a1) -> 'a1 -> positive -> 'a1 **)

  let rec iter f x = function
  | XI n' -> f (iter f (iter f x n') n')
  | XO n' -> iter f (iter f x n') n'
  | XH -> f x

  (** val pow : positive -> positive -> positive **)

  let pow x =
    iter (mul x) XH

  (** val size : positive -> positive **)

  let rec size = function
  | XI p0 -> succ (size p0)
  | XO p0 -> succ (size p0)
  | XH -> XH

  (** val compare_cont : comparison -> positive -> positive -> comparison **)

  let rec compare_cont r x y =
    match x with
    | XI p ->
      (match y with
       | XI q -> compare_cont r p q
       | XO q -> compare_cont Gt p q
       | XH -> Gt)
    | XO p ->
      (match y with
       | XI q -> compare_cont Lt p q
       | XO q -> compare_cont r p q
       | XH -> Gt)
    | XH -> (match y with
             | XH -> r
             | _ -> Lt)

  (** val compare : positive -> positive -> comparison **)

  let compare =
    compare_cont Eq

  (** val eqb : positive -> positive -> bool **)

  let rec eqb p q =
    match p with
    | XI p0 -> (match q with
                | XI q0 -> eqb p0 q0
                | _ -> false)
    | XO p0 -> (match q with
                | XO q0 -> eqb p0 q0
                | _ -> false)
    | XH -> (match q with
             | XH -> true
             | _ -> false)

  (** val coq_Nsucc_double : n -> n **)

  let coq_Nsucc_double = function
  | N0 -> Npos XH
  | Npos p -> Npos (XI p)

  (** val coq_Ndouble : n -> n **)

  let coq_Ndouble = function
  | N0 -> N0
  | Npos p -> Npos (XO p)

  (** val coq_lor : positive -> positive -> positive **)

  let rec coq_lor p q =
    match p with
    | XI p0 ->
      (match q with
       | XI q0 -> XI (coq_lor p0 q0)
       | XO q0 -> XI (coq_lor p0 q0)
       | XH -> p)
    | XO p0 ->
      (match q with
       | XI q0 -> XI (coq_lor p0 q0)
       | XO q0 -> XO (coq_lor p0 q0)
       | XH -> XI p0)
    | XH -> (match q with
             | XO q0 -> XI q0
             | _ -> q)

  (** val coq_land : positive -> positive -> n **)

  let rec coq_land p q =
    match p with
    | XI p0 ->
      (match q with
       | XI q0 -> coq_Nsucc_double (coq_land p0 q0)
       | XO q0 -> coq_Ndouble (coq_land p0 q0)
       | XH -> Npos XH)
    | XO p0 ->
      (match q with
       | XI q0 -> coq_Ndouble (coq_land p0 q0)
       | XO q0 -> coq_Ndouble (coq_land p0 q0)
       | XH -> N0)
    | XH -> (match q with
             | XO _ -> N0
             | _ -> Npos XH)

  (** val ldiff : positive -> positive -> n **)

  let rec ldiff p q =
    match p with
    | XI p0 ->
      (match q with
       | XI q0 -> coq_Ndouble (ldiff p0 q0)
       | XO q0 -> coq_Nsucc_double (ldiff p0 q0)
       | XH -> Npos (XO p0))
    | XO p0 ->
      (match q with
       | XI q0 -> coq_Ndouble (ldiff p0 q0)
       | XO q0 -> coq_Ndouble (ldiff p0 q0)
       | XH -> Npos p)
    | XH -> (match q with
             | XO _ -> Npos XH
             | _ -> N0)

  (** val shiftl : positive -> n -> positive **)

  let shiftl p = function
  | N0 -> p
  | Npos n1 -> iter (fun x -> XO x) p n1

  (** val testbit : positive -> n -> bool **)

  let rec testbit p n0 =
    match p with
    | XI p0 -> (match n0 with
                | N0 -> true
                | Npos n1 -> testbit p0 (pred_N n1))
    | XO p0 -> (match n0 with
                | N0 -> false
                | Npos n1 -> testbit p0 (pred_N n1))
    | XH -> (match n0 with
             | N0 -> true
             | Npos _ -> false)

  (** val iter_op : ('a1 -> 'a1 -> 'a1) -> positive -> 'a1 -> 'a1 **)

  let rec iter_op op p a =
    match p with
    | XI p0 -> op a (iter_op op p0 (op a a))
    | XO p0 -> iter_op op p0 (op a a)
    | XH -> a

  (** val to_nat : positive -> nat **)

  let to_nat x =
    iter_op Coq__1.add x (S O)

  (** val of_succ_nat : nat -> positive **)

  let rec of_succ_nat = function
  | O -> XH
  | S x -> succ (of_succ_nat x)
 end

module N =
 struct
  (** val succ_pos : n -> positive **)

  let succ_pos = function
  | N0 -> XH
  | Npos p -> Pos.succ p

  (** val compare : n -> n -> comparison **)

  let compare n0 m =
    match n0 with
    | N0 -> (match m with
             | N0 -> Eq
             | Npos _ -> Lt)
    | Npos n' -> (match m with
                  | N0 -> Gt
                  | Npos m' -> Pos.compare n' m')

  (** val eqb : n -> n -> bool **)

  let eqb n0 m =
    match n0 with
    | N0 -> (match m with
             | N0 -> true
             | Npos _ -> false)
    | Npos p -> (match m with
                 | N0 -> false
                 | Npos q -> Pos.eqb p q)

  (** val ltb : n -> n -> bool **)

  let ltb x y =
    match compare x y with
    | Lt -> true
    | _ -> false

  (** val pow : n -> n -> n **)

  let pow n0 = function
  | N0 -> Npos XH
  | Npos p0 -> (match n0 with
                | N0 -> N0
                | Npos q -> Npos (Pos.pow q p0))

  (** val size : n -> n **)

  let size = function
  | N0 -> N0
  | Npos p -> Npos (Pos.size p)

  (** val coq_lor : n -> n -> n **)

  let coq_lor n0 m =
    match n0 with
    | N0 -> m
    | Npos p -> (match m with
                 | N0 -> n0
                 | Npos q -> Npos (Pos.coq_lor p q))

  (** val ldiff : n -> n -> n **)

  let ldiff n0 m =
    match n0 with
    | N0 -> N0
    | Npos p -> (match m with
                 | N0 -> n0
                 | Npos q -> Pos.ldiff p q)

  (** val shiftl : n -> n -> n **)

  let shiftl a n0 =
    match a with
    | N0 -> N0
    | Npos a0 -> Npos (Pos.shiftl a0 n0)

  (** val testbit : n -> n -> bool **)

  let testbit a n0 =
    match a with
    | N0 -> false
    | Npos p -> Pos.testbit p n0

  (** val to_nat : n -> nat **)

  let to_nat = function
  | N0 -> O
  | Npos p -> Pos.to_nat p

  (** val of_nat : nat -> n **)

  let of_nat = function
  | O -> N0
  | S n' -> Npos (Pos.of_succ_nat n')

  (** val setbit : n -> n -> n **)

  let setbit a n0 =
    coq_lor a (shiftl (Npos XH) n0)
 end

module Z =
 struct
  (** val double : z -> z **)

  let double = function
  | Z0 -> Z0
  | Zpos p -> Zpos (XO p)
  | Zneg p -> Zneg (XO p)

  (** val succ_double : z -> z **)

  let succ_double = function
  | Z0 -> Zpos XH
  | Zpos p -> Zpos (XI p)
  | Zneg p -> Zneg (Pos.pred_double p)

  (** val pred_double : z -> z **)

  let pred_double = function
  | Z0 -> Zneg XH
  | Zpos p -> Zpos (Pos.pred_double p)
  | Zneg p -> Zneg (XI p)

  (** val pos_sub : positive -> positive -> z **)

  let rec pos_sub x y =
    match x with
    | XI p ->
      (match y with
       | XI q -> double (pos_sub p q)
       | XO q -> succ_double (pos_sub p q)
       | XH -> Zpos (XO p))
    | XO p ->
      (match y with
       | XI q -> pred_double (pos_sub p q)
       | XO q -> double (pos_sub p q)
       | XH -> Zpos (Pos.pred_double p))
    | XH ->
      (match y with
       | XI q -> Zneg (XO q)
       | XO q -> Zneg (Pos.pred_double q)
       | XH -> Z0)

  (** val add : z -> z -> z **)

  let add x y =
    match x with
    | Z0 -> y
    | Zpos x' ->
      (match y with
       | Z0 -> x
       | Zpos y' -> Zpos (Pos.add x' y')
       | Zneg y' -> pos_sub x' y')
    | Zneg x' ->
      (match y with
       | Z0 -> x
       | Zpos y' -> pos_sub y' x'
       | Zneg y' -> Zneg (Pos.add x' y'))

  (** val opp : z -> z **)

  let opp = function
  | Z0 -> Z0
  | Zpos x0 -> Zneg x0
  | Zneg x0 -> Zpos x0

  (** val sub : z -> z -> z **)

  let sub m n0 =
    add m (opp n0)

  (** val mul : z -> z -> z **)

  let mul x y =
    match x with
    | Z0 -> Z0
    | Zpos x' ->
      (match y with
       | Z0 -> Z0
       | Zpos y' -> Zpos (Pos.mul x' y')
       | Zneg y' -> Zneg (Pos.mul x' y'))
    | Zneg x' ->
      (match y with
       | Z0 -> Z0
       | Zpos y' -> Zneg (Pos.mul x' y')
       | Zneg y' -> Zpos (Pos.mul x' y'))

  (** val compare : z -> z -> comparison **)

  let compare x y =
    match x with
    | Z0 -> (match y with
             | Z0 -> Eq
             | Zpos _ -> Lt
             | Zneg _ -> Gt)
    | Zpos x' -> (match y with
                  | Zpos y' -> Pos.compare x' y'
                  | _ -> Gt)
    | Zneg x' ->
      (match y with
       | Zneg y' -> compOpp (Pos.compare x' y')
       | _ -> Lt)

  (** val leb : z -> z -> bool **)

  let leb x y =
    match compare x y with
    | Gt -> false
    | _ -> true

  (** val ltb : z -> z -> bool **)

  let ltb x y =
    match compare x y with
    | Lt -> true
    | _ -> false

  (** val geb : z -> z -> bool **)

  let geb x y =
    match compare x y with
    | Lt -> false
    | _ -> true

  (** val gtb : z -> z -> bool **)

  let gtb x y =
    match compare x y with
    | Gt -> true
    | _ -> false

  (** val eqb : z -> z -> bool **)

  let eqb x y =
    match x with
    | Z0 -> (match y with
             | Z0 -> true
             | _ -> false)
    | Zpos p -> (match y with
                 | Zpos q -> Pos.eqb p q
                 | _ -> false)
    | Zneg p -> (match y with
                 | Zneg q -> Pos.eqb p q
                 | _ -> false)

  (** val max : z -> z -> z **)

  let max n0 m =
    match compare n0 m with
    | Lt -> m
    | _ -> n0

  (** val min : z -> z -> z **)

  let min n0 m =
    match compare n0 m with
    | Gt -> m
    | _ -> n0

  (** val to_nat : z -> nat **)

  let to_nat = function
  | Zpos p -> Pos.to_nat p
  | _ -> O

  (** val of_nat : nat -> z **)

  let of_nat = function
  | O -> Z0
  | S n1 -> Zpos (Pos.of_succ_nat n1)

  (** val of_N : n -> z **)

  let of_N = function
  | N0 -> Z0
  | Npos p -> Zpos p

  (** val pos_div_eucl : positive -> z -> z * z **)

  let rec pos_div_eucl a b =
    match a with
    | XI a' ->
      let (q, r) = pos_div_eucl a' b in
      let r' = add (mul (Zpos (XO XH)) r) (Zpos XH) in
      if ltb r' b
      then ((mul (Zpos (XO XH)) q), r')
      else ((add (mul (Zpos (XO XH)) q) (Zpos XH)), (sub r' b))
    | XO a' ->
      let (q, r) = pos_div_eucl a' b in
      let r' = mul (Zpos (XO XH)) r in
      if ltb r' b
      then ((mul (Zpos (XO XH)) q), r')
      else ((add (mul (Zpos (XO XH)) q) (Zpos XH)), (sub r' b))
    | XH -> if leb (Zpos (XO XH)) b then (Z0, (Zpos XH)) else ((Zpos XH), Z0)

  (** val div_eucl : z -> z -> z * z **)

  let div_eucl a b =
    match a with
    | Z0 -> (Z0, Z0)
    | Zpos a' ->
      (match b with
       | Z0 -> (Z0, a)
       | Zpos _ -> pos_div_eucl a' b
       | Zneg b' ->
         let (q, r) = pos_div_eucl a' (Zpos b') in
         (match r with
          | Z0 -> ((opp q), Z0)
          | _ -> ((opp (add q (Zpos XH))), (add b r))))
    | Zneg a' ->
      (match b with
       | Z0 -> (Z0, a)
       | Zpos _ ->
         let (q, r) = pos_div_eucl a' b in
         (match r with
          | Z0 -> ((opp q), Z0)
          | _ -> ((opp (add q (Zpos XH))), (sub b r)))
       | Zneg b' -> let (q, r) = pos_div_eucl a' (Zpos b') in (q, (opp r)))

  (** val div : z -> z -> z **)

  let div a b =
    let (q, _) = div_eucl a b in q

  (** val coq_land : z -> z -> z **)

  let coq_land a b =
    match a with
    | Z0 -> Z0
    | Zpos a0 ->
      (match b with
       | Z0 -> Z0
       | Zpos b0 -> of_N (Pos.coq_land a0 b0)
       | Zneg b0 -> of_N (N.ldiff (Npos a0) (Pos.pred_N b0)))
    | Zneg a0 ->
      (match b with
       | Z0 -> Z0
       | Zpos b0 -> of_N (N.ldiff (Npos b0) (Pos.pred_N a0))
       | Zneg b0 ->
         Zneg (N.succ_pos (N.coq_lor (Pos.pred_N a0) (Pos.pred_N b0))))
 end

(** val hd : 'a1 -> 'a1 list -> 'a1 **)

let hd default = function
| [] -> default
| x :: _ -> x

(** val nth : nat -> 'a1 list -> 'a1 -> 'a1 **)

let rec nth n0 l default =
  match n0 with
  | O -> (match l with
          | [] -> default
          | x :: _ -> x)
  | S m -> (match l with
            | [] -> default
            | _ :: t -> nth m t default)

(** val nth_error : 'a1 list -> nat -> 'a1 option **)

let rec nth_error l = function
| O -> (match l with
        | [] -> None
        | x :: _ -> Some x)
| S n1 -> (match l with
           | [] -> None
           | _ :: l0 -> nth_error l0 n1)

(** val last : 'a1 list -> 'a1 -> 'a1 **)

let rec last l d =
  match l with
  | [] -> d
  | a :: l0 -> (match l0 with
                | [] -> a
                | _ :: _ -> last l0 d)

(** val map : ('a1 -> 'a2) -> 'a1 list -> 'a2 list **)

let rec map f = function
| [] -> []
| a :: t -> (f a) :: (map f t)

(** val fold_left : ('a1 -> 'a2 -> 'a1) -> 'a2 list -> 'a1 -> 'a1 **)

let rec fold_left f l a0 =
  match l with
  | [] -> a0
  | b :: t -> fold_left f t (f a0 b)

(** val fold_right : ('a2 -> 'a1 -> 'a1) -> 'a1 -> 'a2 list -> 'a1 **)

let rec fold_right f a0 = function
| [] -> a0
| b :: t -> f b (fold_right f a0 t)

(** val existsb : ('a1 -> bool) -> 'a1 list -> bool **)

let rec existsb f = function
| [] -> false
| a :: l0 -> (||) (f a) (existsb f l0)

(** val forallb : ('a1 -> bool) -> 'a1 list -> bool **)

let rec forallb f = function
| [] -> true
| a :: l0 -> (&&) (f a) (forallb f l0)

(** val filter : ('a1 -> bool) -> 'a1 list -> 'a1 list **)

let rec filter f = function
| [] -> []
| x :: l0 -> if f x then x :: (filter f l0) else filter f l0

(** val find : ('a1 -> bool) -> 'a1 list -> 'a1 option **)

let rec find f = function
| [] -> None
| x :: tl -> if f x then Some x else find f tl

(** val firstn : nat -> 'a1 list -> 'a1 list **)

let rec firstn n0 l =
  match n0 with
  | O -> []
  | S n1 -> (match l with
             | [] -> []
             | a :: l0 -> a :: (firstn n1 l0))

(** val skipn : nat -> 'a1 list -> 'a1 list **)

let rec skipn n0 l =
  match n0 with
  | O -> l
  | S n1 -> (match l with
             | [] -> []
             | _ :: l0 -> skipn n1 l0)

(** val seq : nat -> nat -> nat list **)

let rec seq start = function
| O -> []
| S len0 -> start :: (seq (S start) len0)

(** val ex_keep :
    (((((nat * n) * z) * z list) * z option) * positive) * bool **)

let ex_keep =
  ((((((O, N0), Z0), []), None), XH), true)

(** val maxint : z **)

let maxint =
  Zpos (XI (XI (XI (XI (XI (XI (XI (XI (XI (XI (XI (XI (XI (XI (XI (XI (XI
    (XI (XI (XI (XI (XI (XI (XI (XI (XI (XI (XI (XI (XI
    XH))))))))))))))))))))))))))))))

(** val lOWEST_PRIORITY : z **)

let lOWEST_PRIORITY =
  Z.opp maxint

type sset = n

(** val s_empty : sset **)

let s_empty =
  N0

(** val s_mem : nat -> sset -> bool **)

let s_mem i s =
  N.testbit s (N.of_nat i)

(** val s_add : nat -> sset -> sset **)

let s_add i s =
  N.setbit s (N.of_nat i)

(** val s_single : nat -> sset **)

let s_single i =
  s_add i s_empty

(** val s_union : sset -> sset -> sset **)

let s_union =
  N.coq_lor

(** val s_is_empty : sset -> bool **)

let s_is_empty s =
  N.eqb s N0

(** val s_elems : sset -> nat list **)

let s_elems s =
  filter (fun i -> s_mem i s) (seq O (N.to_nat (N.size s)))

type tmap = { tm_codes : z list; tm_sets : sset list }

(** val tm_new : tmap **)

let tm_new =
  { tm_codes = ((Z.opp maxint) :: (maxint :: [])); tm_sets = (s_empty :: []) }

(** val code_at : z list -> z -> z **)

let code_at codes flat =
  nth (Z.to_nat (Z.div flat (Zpos (XO XH)))) codes Z0

(** val split_loop : nat -> z list -> z -> z -> z -> (z * z) option **)

let rec split_loop fuel codes code lo hi =
  if Z.ltb (Z.sub hi lo) (Zpos (XO (XO XH)))
  then Some (lo, hi)
  else (match fuel with
        | O -> None
        | S f ->
          let mid =
            Z.coq_land (Z.div (Z.add lo hi) (Zpos (XO XH))) (Zneg (XO XH))
          in
          if Z.ltb code (code_at codes mid)
          then split_loop f codes code lo mid
          else split_loop f codes code mid hi)

(** val tm_split : tmap -> z -> (z * tmap) option **)

let tm_split m code =
  let hi = Z.mul (Zpos (XO XH)) (Z.of_nat (length m.tm_sets)) in
  if Z.eqb code maxint
  then Some (hi, m)
  else (match split_loop (length m.tm_codes) m.tm_codes code Z0 hi with
        | Some r ->
          let (lo, hi') = r in
          if Z.eqb (code_at m.tm_codes lo) code
          then Some (lo, m)
          else let k = Z.to_nat (Z.div hi' (Zpos (XO XH))) in
               Some (hi', { tm_codes =
               (app (firstn k m.tm_codes) (code :: (skipn k m.tm_codes)));
               tm_sets =
               (app (firstn k m.tm_sets)
                 ((nth (sub k (S O)) m.tm_sets s_empty) :: (skipn k m.tm_sets))) })
        | None -> None)

(** val upd_from : z -> z -> z -> sset -> sset list -> sset list **)

let rec upd_from k i j s = function
| [] -> []
| x :: t ->
  (if (&&) (Z.leb i (Z.mul (Zpos (XO XH)) k))
        (Z.ltb (Z.mul (Zpos (XO XH)) k) j)
   then s_union x s
   else x) :: (upd_from (Z.add k (Zpos XH)) i j s t)

(** val tm_add_set : tmap -> z -> z -> sset -> tmap option **)

let tm_add_set m c0 c1 s =
  match tm_split m c0 with
  | Some r1 ->
    let (i, m1) = r1 in
    (match tm_split m1 c1 with
     | Some r2 ->
       let (j, m2) = r2 in
       Some { tm_codes = m2.tm_codes; tm_sets =
       (upd_from Z0 i j s m2.tm_sets) }
     | None -> None)
  | None -> None

(** val tm_add : tmap -> z -> z -> nat -> tmap option **)

let tm_add m c0 c1 st =
  tm_add_set m c0 c1 (s_single st)

(** val items_loop : bool -> z list -> sset list -> ((z * z) * sset) list **)

let rec items_loop els codes sets =
  match codes with
  | [] -> []
  | c0 :: rest ->
    (match rest with
     | [] -> []
     | c1 :: _ ->
       (match sets with
        | [] -> []
        | s :: sets' ->
          app
            (if (||) (negb (s_is_empty s)) els
             then ((c0, c1), s) :: []
             else []) (items_loop els rest sets')))

(** val tm_items : tmap -> ((z * z) * sset) list **)

let tm_items m =
  items_loop (negb (s_is_empty (hd s_empty m.tm_sets))) m.tm_codes m.tm_sets

type tev =
| TRange of z * z
| TEps
| TBol
| TEol
| TEof

type nstate = { n_tm : tmap; n_eps : sset; n_bol : sset; n_eol : sset;
                n_eof : sset; n_act : z option; n_prio : z }

(** val n_new : nstate **)

let n_new =
  { n_tm = tm_new; n_eps = s_empty; n_bol = s_empty; n_eol = s_empty; n_eof =
    s_empty; n_act = None; n_prio = lOWEST_PRIORITY }

type nfa = nstate list

(** val new_state : nfa -> nfa * nat **)

let new_state m =
  ((app m (n_new :: [])), (length m))

(** val upd_nth :
    'a1 list -> nat -> ('a1 -> 'a1 option) -> 'a1 list option **)

let rec upd_nth l i f =
  match l with
  | [] -> None
  | x :: t ->
    (match i with
     | O -> (match f x with
             | Some y -> Some (y :: t)
             | None -> None)
     | S i' ->
       (match upd_nth t i' f with
        | Some t' -> Some (x :: t')
        | None -> None))

(** val node_add : nstate -> tev -> nat -> nstate option **)

let node_add st ev t =
  match ev with
  | TRange (c0, c1) ->
    (match tm_add st.n_tm c0 c1 t with
     | Some tm ->
       Some { n_tm = tm; n_eps = st.n_eps; n_bol = st.n_bol; n_eol =
         st.n_eol; n_eof = st.n_eof; n_act = st.n_act; n_prio = st.n_prio }
     | None -> None)
  | TEps ->
    Some { n_tm = st.n_tm; n_eps = (s_add t st.n_eps); n_bol = st.n_bol;
      n_eol = st.n_eol; n_eof = st.n_eof; n_act = st.n_act; n_prio =
      st.n_prio }
  | TBol ->
    Some { n_tm = st.n_tm; n_eps = st.n_eps; n_bol = (s_add t st.n_bol);
      n_eol = st.n_eol; n_eof = st.n_eof; n_act = st.n_act; n_prio =
      st.n_prio }
  | TEol ->
    Some { n_tm = st.n_tm; n_eps = st.n_eps; n_bol = st.n_bol; n_eol =
      (s_add t st.n_eol); n_eof = st.n_eof; n_act = st.n_act; n_prio =
      st.n_prio }
  | TEof ->
    Some { n_tm = st.n_tm; n_eps = st.n_eps; n_bol = st.n_bol; n_eol =
      st.n_eol; n_eof = (s_add t st.n_eof); n_act = st.n_act; n_prio =
      st.n_prio }

(** val add_tr : nfa -> nat -> tev -> nat -> nfa option **)

let add_tr m s ev t =
  upd_nth m s (fun st -> node_add st ev t)

(** val set_action : nfa -> nat -> z -> z -> nfa option **)

let set_action m s a prio =
  upd_nth m s (fun st ->
    if Z.gtb prio st.n_prio
    then Some { n_tm = st.n_tm; n_eps = st.n_eps; n_bol = st.n_bol; n_eol =
           st.n_eol; n_eof = st.n_eof; n_act = (Some a); n_prio = prio }
    else Some st)

type special =
| SBol
| SEol
| SEof

type re =
| RRange of z * z
| RNewline
| RSpecial of special
| RSeq of re list
| RAlt of re list
| RRep1 of re
| RCase of re * bool

(** val re_nullable : re -> bool **)

let rec re_nullable = function
| RSeq l ->
  let rec go = function
  | [] -> true
  | x :: t -> (&&) (re_nullable x) (go t)
  in go l
| RAlt l ->
  let rec go = function
  | [] -> false
  | x :: t -> (||) (re_nullable x) (go t)
  in go l
| RRep1 r0 -> re_nullable r0
| RCase (r0, _) -> re_nullable r0
| _ -> false

(** val re_match_nl : re -> bool **)

let rec re_match_nl = function
| RNewline -> true
| RSeq l ->
  let rec go = function
  | [] -> false
  | x :: t ->
    (||) (go t)
      ((&&) (re_match_nl x)
        (let rec nl = function
         | [] -> true
         | y :: u -> (&&) (re_nullable y) (nl u)
         in nl t))
  in go l
| RAlt l ->
  let rec go = function
  | [] -> false
  | x :: t -> (||) (re_match_nl x) (go t)
  in go l
| RRep1 r0 -> re_match_nl r0
| RCase (r0, _) -> re_match_nl r0
| _ -> false

(** val uppercase_range : z -> z -> (z * z) option **)

let uppercase_range c1 c2 =
  let c3 = Z.max c1 (Zpos (XI (XO (XO (XO (XO (XI XH))))))) in
  let c4 = Z.min c2 (Zpos (XI (XI (XO (XI (XI (XI XH))))))) in
  if Z.ltb c3 c4
  then Some ((Z.sub c3 (Zpos (XO (XO (XO (XO (XO XH))))))),
         (Z.sub c4 (Zpos (XO (XO (XO (XO (XO XH))))))))
  else None

(** val lowercase_range : z -> z -> (z * z) option **)

let lowercase_range c1 c2 =
  let c3 = Z.max c1 (Zpos (XI (XO (XO (XO (XO (XO XH))))))) in
  let c4 = Z.min c2 (Zpos (XI (XI (XO (XI (XI (XO XH))))))) in
  if Z.ltb c3 c4
  then Some ((Z.add c3 (Zpos (XO (XO (XO (XO (XO XH))))))),
         (Z.add c4 (Zpos (XO (XO (XO (XO (XO XH))))))))
  else None

(** val link : nfa -> nat -> nat -> nfa option **)

let link m s t =
  add_tr m s TEps t

(** val build_opt : nfa -> nat -> tev -> (nfa * nat) option **)

let build_opt m i c =
  let (m1, s) = new_state m in
  (match link m1 i s with
   | Some m2 ->
     (match add_tr m2 i c s with
      | Some m3 -> Some (m3, s)
      | None -> None)
   | None -> None)

(** val opt_bol : bool -> nfa -> nat -> (nfa * nat) option **)

let opt_bol mb m i =
  if mb then build_opt m i TBol else Some (m, i)

(** val build : re -> nfa -> nat -> nat -> bool -> bool -> nfa option **)

let rec build r m i f mb nc =
  match r with
  | RRange (c0, c1) ->
    (match opt_bol mb m i with
     | Some r1 ->
       let (m1, i1) = r1 in
       (match add_tr m1 i1 (TRange (c0, c1)) f with
        | Some m2 ->
          if nc
          then (match match uppercase_range c0 c1 with
                      | Some p ->
                        let (a, b) = p in add_tr m2 i1 (TRange (a, b)) f
                      | None -> Some m2 with
                | Some m3 ->
                  (match lowercase_range c0 c1 with
                   | Some p ->
                     let (a, b) = p in add_tr m3 i1 (TRange (a, b)) f
                   | None -> Some m3)
                | None -> None)
          else Some m2
        | None -> None)
     | None -> None)
  | RNewline ->
    (match opt_bol mb m i with
     | Some r1 ->
       let (m1, i1) = r1 in
       (match build_opt m1 i1 TEol with
        | Some r2 ->
          let (m2, s) = r2 in
          add_tr m2 s (TRange ((Zpos (XO (XI (XO XH)))), (Zpos (XI (XI (XO
            XH)))))) f
        | None -> None)
     | None -> None)
  | RSpecial sym ->
    (match opt_bol ((&&) mb (match sym with
                             | SEol -> true
                             | _ -> false)) m i with
     | Some r1 ->
       let (m1, i1) = r1 in
       add_tr m1 i1
         (match sym with
          | SBol -> TBol
          | SEol -> TEol
          | SEof -> TEof) f
     | None -> None)
  | RSeq l ->
    (match l with
     | [] -> link m i f
     | _ :: _ ->
       let rec go l0 m0 s1 mb0 =
         match l0 with
         | [] -> Some m0
         | x :: t ->
           (match t with
            | [] -> build x m0 s1 f mb0 nc
            | _ :: _ ->
              let (m1, s2) = new_state m0 in
              (match build x m1 s1 s2 mb0 nc with
               | Some m2 ->
                 go t m2 s2 ((||) (re_match_nl x) ((&&) mb0 (re_nullable x)))
               | None -> None))
       in go l m i mb)
  | RAlt l ->
    (match let rec go l0 m0 =
             match l0 with
             | [] -> Some m0
             | x :: t ->
               (match if re_nullable x then build x m0 i f mb nc else Some m0 with
                | Some m' -> go t m'
                | None -> None)
           in go l m with
     | Some m1 ->
       if existsb (fun x -> negb (re_nullable x)) l
       then (match opt_bol mb m1 i with
             | Some r1 ->
               let (m2, i2) = r1 in
               let rec go l0 m0 =
                 match l0 with
                 | [] -> Some m0
                 | x :: t ->
                   (match if re_nullable x
                          then Some m0
                          else build x m0 i2 f false nc with
                    | Some m' -> go t m'
                    | None -> None)
               in go l m2
             | None -> None)
       else Some m1
     | None -> None)
  | RRep1 r1 ->
    let (ma, s1) = new_state m in
    let (mb', s2) = new_state ma in
    (match link mb' i s1 with
     | Some m1 ->
       (match build r1 m1 s1 s2 ((||) mb (re_match_nl r1)) nc with
        | Some m2 ->
          (match link m2 s2 s1 with
           | Some m3 -> link m3 s2 f
           | None -> None)
        | None -> None)
     | None -> None)
  | RCase (r1, nc') -> build r1 m i f mb nc'

(** val add_tokens : re list -> z -> nfa -> nfa option **)

let rec add_tokens rules k m =
  match rules with
  | [] -> Some m
  | r :: t ->
    let (m1, fin) = new_state m in
    (match build r m1 O fin true false with
     | Some m2 ->
       (match set_action m2 fin k (Z.opp k) with
        | Some m3 -> add_tokens t (Z.add k (Zpos XH)) m3
        | None -> None)
     | None -> None)

(** val lexicon_nfa : re list -> nfa option **)

let lexicon_nfa rules =
  let (m0, _) = new_state [] in add_tokens rules (Zpos XH) m0

(** val n_get : nfa -> nat -> nstate **)

let n_get m s =
  nth s m n_new

(** val eclose_add : nat -> nfa -> sset -> nat -> sset option **)

let rec eclose_add fuel m acc s =
  match fuel with
  | O -> None
  | S f ->
    if s_mem s acc
    then Some acc
    else fold_left (fun a s2 ->
           match a with
           | Some a' -> eclose_add f m a' s2
           | None -> None) (s_elems (n_get m s).n_eps) (Some (s_add s acc))

(** val eclose : nfa -> nat -> sset option **)

let eclose m s =
  eclose_add (S (length m)) m s_empty s

(** val eclose_set : nfa -> sset -> sset option **)

let eclose_set m ss =
  fold_left (fun a s ->
    match a with
    | Some a' ->
      (match eclose m s with
       | Some c -> Some (s_union a' c)
       | None -> None)
    | None -> None) (s_elems ss) (Some s_empty)

(** val best_action : nfa -> sset -> z option **)

let best_action m ss =
  fst
    (fold_left (fun b s ->
      let st = n_get m s in
      if Z.gtb st.n_prio (snd b) then (st.n_act, st.n_prio) else b)
      (s_elems ss) (None, lOWEST_PRIORITY))

type dstate = { d_chars : ((z * z) * nat) list; d_else : nat option;
                d_bol : nat option; d_eol : nat option; d_eof : nat option }

type smap = { sm_sets : sset list; sm_acts : z option list }

(** val find_idx : sset -> sset list -> nat -> nat option **)

let rec find_idx key l k =
  match l with
  | [] -> None
  | x :: t -> if N.eqb x key then Some k else find_idx key t (S k)

(** val old_to_new : nfa -> smap -> sset -> smap * nat **)

let old_to_new m sm ss =
  match find_idx ss sm.sm_sets O with
  | Some j -> (sm, j)
  | None ->
    ({ sm_sets = (app sm.sm_sets (ss :: [])); sm_acts =
      (app sm.sm_acts ((best_action m ss) :: [])) }, (length sm.sm_sets))

type utrans = { u_tm : tmap; u_bol : sset; u_eol : sset; u_eof : sset }

(** val add_state_transitions : nfa -> utrans -> nat -> utrans option **)

let add_state_transitions m u s =
  let st = n_get m s in
  (match fold_left (fun a it ->
           match a with
           | Some tm ->
             let (y, tg) = it in
             let (c0, c1) = y in
             if s_is_empty tg
             then Some tm
             else (match eclose_set m tg with
                   | Some cl -> tm_add_set tm c0 c1 cl
                   | None -> None)
           | None -> None) (tm_items st.n_tm) (Some u.u_tm) with
   | Some tm ->
     (match eclose_set m st.n_bol with
      | Some b ->
        (match eclose_set m st.n_eol with
         | Some e ->
           (match eclose_set m st.n_eof with
            | Some f ->
              Some { u_tm = tm; u_bol = (s_union u.u_bol b); u_eol =
                (s_union u.u_eol e); u_eof = (s_union u.u_eof f) }
            | None -> None)
         | None -> None)
      | None -> None)
   | None -> None)

(** val union_transitions : nfa -> sset -> utrans option **)

let union_transitions m old =
  fold_left (fun a s ->
    match a with
    | Some u -> add_state_transitions m u s
    | None -> None) (s_elems old) (Some { u_tm = tm_new; u_bol = s_empty;
    u_eol = s_empty; u_eof = s_empty })

(** val add_range_items :
    nfa -> ((z * z) * sset) list -> smap -> dstate -> smap * dstate **)

let rec add_range_items m items sm d =
  match items with
  | [] -> (sm, d)
  | p :: t ->
    let (p0, ss) = p in
    let (c0, c1) = p0 in
    let (sm1, j) = old_to_new m sm ss in
    let d1 =
      if Z.eqb c0 (Z.opp maxint)
      then { d_chars = d.d_chars; d_else = (Some j); d_bol = d.d_bol; d_eol =
             d.d_eol; d_eof = d.d_eof }
      else if negb (Z.eqb c1 maxint)
           then { d_chars = (app d.d_chars (((c0, c1), j) :: [])); d_else =
                  d.d_else; d_bol = d.d_bol; d_eol = d.d_eol; d_eof =
                  d.d_eof }
           else d
    in
    add_range_items m t sm1 d1

(** val add_special : nfa -> sset -> smap -> smap * nat option **)

let add_special m ss sm =
  if s_is_empty ss
  then (sm, None)
  else let (sm1, j) = old_to_new m sm ss in (sm1, (Some j))

(** val process_state : nfa -> smap -> sset -> (smap * dstate) option **)

let process_state m sm old =
  match union_transitions m old with
  | Some u ->
    let d0 = { d_chars = []; d_else = None; d_bol = None; d_eol = None;
      d_eof = None }
    in
    let (sm1, d1) = add_range_items m (tm_items u.u_tm) sm d0 in
    let (sm2, jb) = add_special m u.u_bol sm1 in
    let (sm3, je) = add_special m u.u_eol sm2 in
    let (sm4, jf) = add_special m u.u_eof sm3 in
    Some (sm4, { d_chars = d1.d_chars; d_else = d1.d_else; d_bol = jb;
    d_eol = je; d_eof = jf })
  | None -> None

(** val worklist :
    nat -> nfa -> smap -> dstate list -> (smap * dstate list) option **)

let rec worklist fuel m sm done0 =
  match fuel with
  | O -> None
  | S f ->
    (match nth_error sm.sm_sets (length done0) with
     | Some old ->
       (match process_state m sm old with
        | Some r -> let (sm1, d) = r in worklist f m sm1 (app done0 (d :: []))
        | None -> None)
     | None -> Some (sm, done0))

type dfa = { dfa_sets : sset list; dfa_acts : z option list;
             dfa_trans : dstate list }

(** val nfa_to_dfa : nat -> nfa -> dfa option **)

let nfa_to_dfa fuel m =
  match eclose m O with
  | Some c0 ->
    let (sm0, _) = old_to_new m { sm_sets = []; sm_acts = [] } c0 in
    (match worklist fuel m sm0 [] with
     | Some r ->
       let (sm, tr) = r in
       Some { dfa_sets = sm.sm_sets; dfa_acts = sm.sm_acts; dfa_trans = tr }
     | None -> None)
  | None -> None

type event =
| EvChar of z
| EvBol
| EvEol
| EvEof
| EvNone

(** val d_lookup : dstate -> event -> nat option **)

let d_lookup d = function
| EvChar c ->
  (match find (fun it ->
           let (y, _) = it in
           let (c0, c1) = y in (&&) (Z.leb c0 c) (Z.ltb c c1)) d.d_chars with
   | Some p -> let (_, j) = p in Some j
   | None -> d.d_else)
| EvBol -> d.d_bol
| EvEol -> d.d_eol
| EvEof -> d.d_eof
| EvNone -> None

type config = { c_pos : z; c_line : z; c_lstart : z; c_char : event;
                c_ist : z; c_next : z }

(** val config0 : config **)

let config0 =
  { c_pos = Z0; c_line = (Zpos XH); c_lstart = Z0; c_char = EvBol; c_ist =
    (Zpos XH); c_next = Z0 }

(** val next_char : z list -> config -> config **)

let next_char text c =
  if Z.eqb c.c_ist (Zpos XH)
  then (match nth_error text (Z.to_nat c.c_next) with
        | Some ch ->
          if Z.eqb ch (Zpos (XO (XI (XO XH))))
          then { c_pos = c.c_next; c_line = c.c_line; c_lstart = c.c_lstart;
                 c_char = EvEol; c_ist = (Zpos (XO XH)); c_next =
                 (Z.add c.c_next (Zpos XH)) }
          else { c_pos = c.c_next; c_line = c.c_line; c_lstart = c.c_lstart;
                 c_char = (EvChar ch); c_ist = (Zpos XH); c_next =
                 (Z.add c.c_next (Zpos XH)) }
        | None ->
          { c_pos = c.c_next; c_line = c.c_line; c_lstart = c.c_lstart;
            c_char = EvEol; c_ist = (Zpos (XO (XO XH))); c_next = c.c_next })
  else if Z.eqb c.c_ist (Zpos (XO XH))
       then { c_pos = c.c_pos; c_line = c.c_line; c_lstart = c.c_lstart;
              c_char = (EvChar (Zpos (XO (XI (XO XH))))); c_ist = (Zpos (XI
              XH)); c_next = c.c_next }
       else if Z.eqb c.c_ist (Zpos (XI XH))
            then { c_pos = c.c_next; c_line = (Z.add c.c_line (Zpos XH));
                   c_lstart = c.c_next; c_char = EvBol; c_ist = (Zpos XH);
                   c_next = c.c_next }
            else if Z.eqb c.c_ist (Zpos (XO (XO XH)))
                 then { c_pos = c.c_pos; c_line = c.c_line; c_lstart =
                        c.c_lstart; c_char = EvEof; c_ist = (Zpos (XI (XO
                        XH))); c_next = c.c_next }
                 else { c_pos = c.c_pos; c_line = c.c_line; c_lstart =
                        c.c_lstart; c_char = EvNone; c_ist = c.c_ist;
                        c_next = c.c_next }

type run_result =
| RunOk of z * config
| RunFail of config
| RunBad
| RunFuel

(** val run_machine :
    nat -> z option list -> dstate list -> z list -> nat -> config ->
    (z * config) option -> run_result **)

let rec run_machine fuel acts tr text st cfg bk =
  match fuel with
  | O -> RunFuel
  | S f ->
    (match nth_error acts st with
     | Some act ->
       (match nth_error tr st with
        | Some d ->
          let bk' = match act with
                    | Some a -> Some (a, cfg)
                    | None -> bk in
          (match d_lookup d cfg.c_char with
           | Some st' ->
             run_machine f acts tr text st' (next_char text cfg) bk'
           | None ->
             (match bk' with
              | Some p -> let (a, c) = p in RunOk (a, c)
              | None -> RunFail cfg))
        | None -> RunBad)
     | None -> RunBad)

type token =
| TokOk of z * z * z * z * z * config
| TokEof of config
| TokErr of config
| TokBad
| TokFuel

(** val is_eof : event -> bool **)

let is_eof = function
| EvEof -> true
| _ -> false

(** val scan_fuel : z list -> nat **)

let scan_fuel text =
  add (mul (S (S (S O))) (length text)) (S (S (S (S (S (S (S (S O))))))))

(** val scan_a_token : dfa -> z list -> config -> token **)

let scan_a_token d text cfg =
  match run_machine (scan_fuel text) d.dfa_acts d.dfa_trans text O cfg None with
  | RunOk (a, c) ->
    TokOk (cfg.c_pos, c.c_pos, cfg.c_line, (Z.sub cfg.c_pos cfg.c_lstart), a,
      c)
  | RunFail c ->
    if (&&) (Z.eqb c.c_pos cfg.c_pos) (is_eof c.c_char)
    then TokEof c
    else TokErr c
  | RunBad -> TokBad
  | RunFuel -> TokFuel

(** val scan_tokens : nat -> dfa -> z list -> config -> token list **)

let rec scan_tokens n0 d text cfg =
  match n0 with
  | O -> []
  | S n' ->
    let t = scan_a_token d text cfg in
    (match t with
     | TokOk (_, _, _, _, _, c) -> t :: (scan_tokens n' d text c)
     | _ -> t :: [])

(** val events_from : nat -> z list -> config -> event list **)

let rec events_from fuel text cfg =
  match fuel with
  | O -> []
  | S f ->
    (match cfg.c_char with
     | EvNone -> []
     | x -> x :: (events_from f text (next_char text cfg)))

type ere =
| EEmpty
| EEps
| ERange of z * z
| ESym of special
| ESeq of ere * ere
| EAlt of ere * ere
| ERep1 of ere

(** val eOpt : ere -> ere **)

let eOpt a =
  EAlt (a, EEps)

(** val e_nullable : ere -> bool **)

let rec e_nullable = function
| EEps -> true
| ESeq (a, b) -> (&&) (e_nullable a) (e_nullable b)
| EAlt (a, b) -> (||) (e_nullable a) (e_nullable b)
| ERep1 a -> e_nullable a
| _ -> false

(** val ev_matches : z -> z -> event -> bool **)

let ev_matches c0 c1 = function
| EvChar c -> (&&) (Z.leb c0 c) (Z.ltb c c1)
| _ -> false

(** val ev_is : special -> event -> bool **)

let ev_is s = function
| EvBol -> (match s with
            | SBol -> true
            | _ -> false)
| EvEol -> (match s with
            | SEol -> true
            | _ -> false)
| EvEof -> (match s with
            | SEof -> true
            | _ -> false)
| _ -> false

(** val e_deriv : event -> ere -> ere **)

let rec e_deriv e = function
| ERange (c0, c1) -> if ev_matches c0 c1 e then EEps else EEmpty
| ESym s -> if ev_is s e then EEps else EEmpty
| ESeq (a, b) ->
  if e_nullable a
  then EAlt ((ESeq ((e_deriv e a), b)), (e_deriv e b))
  else ESeq ((e_deriv e a), b)
| EAlt (a, b) -> EAlt ((e_deriv e a), (e_deriv e b))
| ERep1 a -> ESeq ((e_deriv e a), (eOpt (ERep1 a)))
| _ -> EEmpty

(** val e_matches : ere -> event list -> bool **)

let rec e_matches r = function
| [] -> e_nullable r
| e :: t -> e_matches (e_deriv e r) t

(** val e_optbol : bool -> ere -> ere **)

let e_optbol mb r =
  if mb then ESeq ((eOpt (ESym SBol)), r) else r

(** val ere_of : re -> bool -> bool -> ere **)

let rec ere_of r mb nc =
  match r with
  | RRange (c0, c1) ->
    let base = ERange (c0, c1) in
    let up =
      match uppercase_range c0 c1 with
      | Some p -> let (a, b) = p in ERange (a, b)
      | None -> EEmpty
    in
    let lo =
      match lowercase_range c0 c1 with
      | Some p -> let (a, b) = p in ERange (a, b)
      | None -> EEmpty
    in
    e_optbol mb (if nc then EAlt (base, (EAlt (up, lo))) else base)
  | RNewline ->
    e_optbol mb (ESeq ((eOpt (ESym SEol)), (ERange ((Zpos (XO (XI (XO XH)))),
      (Zpos (XI (XI (XO XH))))))))
  | RSpecial s ->
    e_optbol ((&&) mb (match s with
                       | SEol -> true
                       | _ -> false)) (ESym s)
  | RSeq l ->
    let rec go l0 mb0 =
      match l0 with
      | [] -> EEps
      | x :: t ->
        ESeq ((ere_of x mb0 nc),
          (go t ((||) (re_match_nl x) ((&&) mb0 (re_nullable x)))))
    in go l mb
  | RAlt l ->
    EAlt
      ((let rec go = function
        | [] -> EEmpty
        | x :: t ->
          if re_nullable x then EAlt ((ere_of x mb nc), (go t)) else go t
        in go l),
      (e_optbol mb
        (let rec go = function
         | [] -> EEmpty
         | x :: t ->
           if re_nullable x then go t else EAlt ((ere_of x false nc), (go t))
         in go l)))
  | RRep1 r1 -> ERep1 (ere_of r1 ((||) mb (re_match_nl r1)) nc)
  | RCase (r1, nc') -> ere_of r1 mb nc'

(** val first_nullable : ere list -> z -> z option **)

let rec first_nullable rs k =
  match rs with
  | [] -> None
  | r :: t ->
    if e_nullable r then Some k else first_nullable t (Z.add k (Zpos XH))

(** val ref_longest :
    ere list -> event list -> z -> (z * z) option -> (z * z) option **)

let rec ref_longest rs w n0 best =
  let best' =
    match first_nullable rs (Zpos XH) with
    | Some k -> Some (n0, k)
    | None -> best
  in
  (match w with
   | [] -> best'
   | e :: t -> ref_longest (map (e_deriv e) rs) t (Z.add n0 (Zpos XH)) best')

(** val ref_scan : re list -> event list -> (z * z) option **)

let ref_scan rules w =
  ref_longest (map (fun r -> ere_of r true false) rules) w Z0 None

(** val iter_next : nat -> z list -> config -> config **)

let rec iter_next n0 text cfg =
  match n0 with
  | O -> cfg
  | S k -> iter_next k text (next_char text cfg)

(** val ref_token : re list -> z list -> config -> token **)

let ref_token rules text cfg =
  match ref_scan rules (events_from (scan_fuel text) text cfg) with
  | Some p ->
    let (n0, k) = p in
    let c = iter_next (Z.to_nat n0) text cfg in
    TokOk (cfg.c_pos, c.c_pos, cfg.c_line, (Z.sub cfg.c_pos cfg.c_lstart), k,
    c)
  | None -> TokErr cfg

(** val ref_tokens : nat -> re list -> z list -> config -> token list **)

let rec ref_tokens n0 rules text cfg =
  match n0 with
  | O -> []
  | S n' ->
    let t = ref_token rules text cfg in
    (match t with
     | TokOk (_, _, _, _, _, c) -> t :: (ref_tokens n' rules text c)
     | _ -> t :: [])

(** val tm_else_ok : tmap -> bool **)

let tm_else_ok m =
  N.eqb (hd s_empty m.tm_sets) (last m.tm_sets s_empty)

(** val nfa_else_ok : nfa -> bool **)

let nfa_else_ok m =
  forallb (fun st -> tm_else_ok st.n_tm) m

(** val sorted_b : z list -> bool **)

let rec sorted_b = function
| [] -> true
| x :: t ->
  (match t with
   | [] -> true
   | y :: _ -> (&&) (Z.ltb x y) (sorted_b t))

(** val tm_inv_b : tmap -> bool **)

let tm_inv_b m =
  (&&)
    ((&&)
      ((&&)
        ((&&) (Nat.eqb (length m.tm_codes) (S (length m.tm_sets)))
          (Nat.leb (S O) (length m.tm_sets)))
        (Z.eqb (nth O m.tm_codes Z0) (Z.opp maxint)))
      (Z.eqb (nth (length m.tm_sets) m.tm_codes Z0) maxint))
    (sorted_b m.tm_codes)

(** val nfa_ok : nfa -> bool **)

let nfa_ok m =
  forallb (fun st -> (&&) (tm_inv_b st.n_tm) (tm_else_ok st.n_tm)) m

(** val insert_sorted : z -> z list -> z list **)

let rec insert_sorted x l = match l with
| [] -> x :: []
| y :: t -> if Z.leb x y then x :: l else y :: (insert_sorted x t)

(** val sort_codes : z list -> z list **)

let sort_codes l =
  fold_right insert_sorted [] l

(** val dedup_sorted : z list -> z list **)

let rec dedup_sorted = function
| [] -> []
| x :: t ->
  (match t with
   | [] -> x :: []
   | y :: _ -> if Z.eqb x y then dedup_sorted t else x :: (dedup_sorted t))

(** val c2r_go : z -> z -> z list -> z list **)

let rec c2r_go code1 code2 = function
| [] -> code1 :: (code2 :: [])
| c :: t ->
  if Z.geb code2 c
  then c2r_go code1 (Z.add code2 (Zpos XH)) t
  else code1 :: (code2 :: (c2r_go c (Z.add c (Zpos XH)) t))

(** val chars_to_ranges : bool -> z list -> z list **)

let chars_to_ranges dedup s =
  let l = sort_codes s in
  let l0 = if dedup then dedup_sorted l else l in
  (match l0 with
   | [] -> []
   | c :: t -> c2r_go c (Z.add c (Zpos XH)) t)

(** val ranges_cover : z list -> z -> bool **)

let rec ranges_cover r c =
  match r with
  | [] -> false
  | a :: l ->
    (match l with
     | [] -> false
     | b :: t -> (||) ((&&) (Z.leb a c) (Z.ltb c b)) (ranges_cover t c))

(** val set_bounded_b : nat -> sset -> bool **)

let set_bounded_b n0 s =
  N.ltb s (N.pow (Npos (XO XH)) (N.of_nat n0))

(** val nfa_bounded : nfa -> bool **)

let nfa_bounded m =
  (&&) (Nat.ltb O (length m))
    (forallb (fun st ->
      (&&)
        ((&&)
          ((&&)
            ((&&) (forallb (set_bounded_b (length m)) st.n_tm.tm_sets)
              (set_bounded_b (length m) st.n_eps))
            (set_bounded_b (length m) st.n_bol))
          (set_bounded_b (length m) st.n_eol))
        (set_bounded_b (length m) st.n_eof)) m)
