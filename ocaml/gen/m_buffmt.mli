
val negb : bool -> bool

type nat =
| O
| S of nat

val fst : ('a1 * 'a2) -> 'a1

val snd : ('a1 * 'a2) -> 'a2

val length : 'a1 list -> nat

val app : 'a1 list -> 'a1 list -> 'a1 list

type comparison =
| Eq
| Lt
| Gt

val compOpp : comparison -> comparison

val add : nat -> nat -> nat

type positive =
| XI of positive
| XO of positive
| XH

type n =
| N0
| Npos of positive

type z =
| Z0
| Zpos of positive
| Zneg of positive

val eqb : bool -> bool -> bool

module Nat :
 sig
  val eqb : nat -> nat -> bool

  val leb : nat -> nat -> bool

  val ltb : nat -> nat -> bool
 end

module Pos :
 sig
  val succ : positive -> positive

  val add : positive -> positive -> positive

  val add_carry : positive -> positive -> positive

  val pred_double : positive -> positive

  val mul : positive -> positive -> positive

  val size : positive -> positive

  val compare_cont : comparison -> positive -> positive -> comparison

  val compare : positive -> positive -> comparison

  val eqb : positive -> positive -> bool

  val iter_op : ('a1 -> 'a1 -> 'a1) -> positive -> 'a1 -> 'a1

  val to_nat : positive -> nat

  val of_succ_nat : nat -> positive
 end

module Z :
 sig
  val double : z -> z

  val succ_double : z -> z

  val pred_double : z -> z

  val pos_sub : positive -> positive -> z

  val add : z -> z -> z

  val opp : z -> z

  val sub : z -> z -> z

  val mul : z -> z -> z

  val compare : z -> z -> comparison

  val leb : z -> z -> bool

  val ltb : z -> z -> bool

  val eqb : z -> z -> bool

  val abs : z -> z

  val to_nat : z -> nat

  val of_nat : nat -> z

  val pos_div_eucl : positive -> z -> z * z

  val div_eucl : z -> z -> z * z

  val div : z -> z -> z

  val modulo : z -> z -> z

  val log2 : z -> z
 end

val tl : 'a1 list -> 'a1 list

val nth : nat -> 'a1 list -> 'a1 -> 'a1

val rev : 'a1 list -> 'a1 list

val concat : 'a1 list list -> 'a1 list

val map : ('a1 -> 'a2) -> 'a1 list -> 'a2 list

val fold_left : ('a1 -> 'a2 -> 'a1) -> 'a2 list -> 'a1 -> 'a1

val fold_right : ('a2 -> 'a1 -> 'a1) -> 'a1 -> 'a2 list -> 'a1

val existsb : ('a1 -> bool) -> 'a1 list -> bool

val forallb : ('a1 -> bool) -> 'a1 list -> bool

val combine : 'a1 list -> 'a2 list -> ('a1 * 'a2) list

val seq : nat -> nat -> nat list

val ex_keep : (((((nat * n) * z) * z list) * z option) * positive) * bool

type leaf = { l_group : z; l_size : z; l_arr : z list }

type tinfo = { ti_fields : (leaf * z) list; ti_size : z; ti_flags : z }

type fixes = { fx_name : bool; fx_arrws : bool; fx_null : bool }

type 'a res =
| Ok of 'a
| Err
| OOB
| NullDeref
| IntOvf
| OutOfFuel

val bind : 'a1 res -> ('a1 -> 'a2 res) -> 'a2 res

type ctx = { hd : (leaf * z) list; off : z; ncnt : z; ecnt : z; salign : 
             z; cplx : bool; etype : z; npm : z; epm : z; iva : bool }

val init : tinfo -> ctx

val in_list : z -> z list -> bool

val b2z : bool -> z

val native_size : z -> bool -> z

val standard_size : z -> bool -> z

val alignment : z -> z

val padding : z -> z

val type_group : z -> bool -> z

val is_digit : z -> bool

val iNT_MAX : z

val sIZE_MOD : z

val pn_loop : z -> z list -> (z * z list) res

val parse_number : z list -> (z * z list) option res

val expect_number : z list -> (z * z list) res

val dec_aux : nat -> z -> z list -> z list

val decimal : z -> z list

val align_up : z -> z -> z

val leaf_ok : leaf -> z -> z -> bool

val is_native : z -> bool

val chunk_loop :
  z -> bool -> z -> z -> z -> (leaf * z) list -> z -> z -> z -> ((((leaf * z)
  list * z) * z) * z) res

val process_chunk : fixes -> ctx -> ctx res

val is_arr_space : z -> bool

val parr_loop : fixes -> nat -> z list -> z list -> nat -> (z list * nat) res

val parse_array : fixes -> nat -> z list -> ctx -> (z list * ctx) res

val skip_name : fixes -> z list -> z list res

val iter_pos : positive -> ('a1 -> 'a1 res) -> 'a1 -> 'a1 res

val iter_z : z -> ('a1 -> 'a1 res) -> 'a1 -> 'a1 res

val type_chars : z list

val type_char : fixes -> z -> bool -> bool -> ctx -> ctx res

val check_string : fixes -> nat -> z list -> ctx -> (z list * ctx) res

val cstr : z list -> z list

val check_fuel : fixes -> nat -> z list -> tinfo -> z -> unit res

val check : fixes -> z list -> tinfo -> z -> unit res

type tcode =
| Cc
| Cb
| CB
| Ch
| CH
| Ci
| CI
| Cl
| CL
| Cq
| CQ
| Cbool
| Cf
| Cd
| Cg
| CZf
| CZd
| CZg

type kind =
| KChar
| KInt
| KUInt
| KReal
| KComplex

val code_kind : tcode -> kind

val code_nsize : tcode -> z

val code_ssize : tcode -> z

val code_align : tcode -> z

val code_chars : tcode -> z list

type mode =
| MNative
| MStd
| MUnaligned
| MBig

val mode_char : mode -> bool -> z

type tok =
| TWs of z
| TMode of mode * bool
| TName of z list
| TItem of z list * tcode
| TPad of z list

val dval : z -> z list -> z

val count_of : z list -> z

val render_tok : tok -> z list

val render_body : tok list -> z list

type fmt =
| FPlain of tok list
| FRec of tok list * tok list * tok list

val render : fmt -> z list

val fmt_toks : fmt -> tok list

type item = (kind * z) * z

val msize : mode -> tcode -> z

val malign : mode -> tcode -> z -> z

val items_at : kind -> z -> z -> z -> item list

val layout : tok list -> mode -> z -> (item list * z) option

val group_kind : z -> kind option

val kind_compat : kind -> kind -> bool

val item_matches : item -> (leaf * z) -> bool

val layout_matches : item list -> (leaf * z) list -> bool

val spec_accept : fmt -> tinfo -> z -> bool

val consume :
  z -> kind -> z -> z -> (leaf * z) list -> ((leaf * z) list * z) option

val smatch :
  tok list -> mode -> z -> (leaf * z) list -> ((leaf * z) list * z) option

type ttype =
| TLeaf of leaf
| TStruct of z * (ttype * z) list

type frame = (ttype * z) list * z

type stack = frame list

val init_push : ttype -> stack -> stack res

val s_init : ttype -> stack res

val push_sub : bool -> ttype -> z -> stack -> stack

val next_in :
  bool -> bool -> (ttype * z) list -> z -> z -> stack -> stack option

val s_advance : bool -> bool -> stack -> stack

val s_cur : stack -> (leaf * z) option

val walk_from : nat -> bool -> bool -> stack -> (leaf * z) list res

val tnodes : ttype -> nat

val walk : bool -> bool -> ttype -> (leaf * z) list res

val t_size : ttype -> z

val check_tree : fixes -> bool -> bool -> z list -> ttype -> z -> unit res

val flatten : ttype -> z -> (leaf * z) list

val flat_ti : ttype -> tinfo

type cinfo =
| CInfo of z * z * z * z list * z * (cinfo * z) list option

val zlist_eqb : z list -> z list -> bool

val arr_prefix_eqb : z list -> z list -> bool

val is_none : 'a1 option -> bool

val ticmp : bool -> cinfo -> cinfo -> bool

type cleaf = (((z * z) * z) * z list) * z

val cflat : cinfo -> z -> cleaf list

val cleaf_compat : cleaf -> cleaf -> bool

val forall2b : ('a1 -> 'a1 -> bool) -> 'a1 list -> 'a1 list -> bool

val cinfo_compat : cinfo -> cinfo -> bool

type axis =
| AStrided
| AContig
| AFollow

type cflag =
| FNone
| FC
| FF

val check_stride : z -> axis -> z -> z -> bool

val vc_loop : z -> z -> (z * z) list -> bool

val verify_contig : cflag -> z -> z list -> z list -> bool

val check_axes : z -> axis list -> z list -> z list -> bool

val prodz : z list -> z

val validate_axes : axis list -> cflag -> z -> z list -> z list -> bool
