
(** val negb : bool -> bool **)

let negb = function
| true -> false
| false -> true

type nat =
| O
| S of nat

(** val option_map : ('a1 -> 'a2) -> 'a1 option -> 'a2 option **)

let option_map f = function
| Some a -> Some (f a)
| None -> None

(** val snd : ('a1 * 'a2) -> 'a2 **)

let snd = function
| (_, y) -> y

(** val length : 'a1 list -> nat **)

let rec length = function
| [] -> O
| _ :: l' -> S (length l')

(** val app : 'a1 list -> 'a1 list -> 'a1 list **)

let rec app l m =
  match l with
  | [] -> m
  | a :: l1 -> a :: (app l1 m)

(** val sub : nat -> nat -> nat **)

let rec sub n0 m =
  match n0 with
  | O -> n0
  | S k -> (match m with
            | O -> n0
            | S l -> sub k l)

(** val eqb : nat -> nat -> bool **)

let rec eqb n0 m =
  match n0 with
  | O -> (match m with
          | O -> true
          | S _ -> false)
  | S n' -> (match m with
             | O -> false
             | S m' -> eqb n' m')

(** val leb : nat -> nat -> bool **)

let rec leb n0 m =
  match n0 with
  | O -> true
  | S n' -> (match m with
             | O -> false
             | S m' -> leb n' m')

(** val ltb : nat -> nat -> bool **)

let ltb n0 m =
  leb (S n0) m

(** val even : nat -> bool **)

let rec even = function
| O -> true
| S n1 -> (match n1 with
           | O -> false
           | S n' -> even n')

(** val divmod : nat -> nat -> nat -> nat -> nat * nat **)

let rec divmod x y q u =
  match x with
  | O -> (q, u)
  | S x' -> (match u with
             | O -> divmod x' y (S q) y
             | S u' -> divmod x' y q u')

(** val modulo : nat -> nat -> nat **)

let modulo x = function
| O -> x
| S y' -> sub y' (snd (divmod x y' O y'))

type positive =
| XI of positive
| XO of positive
| XH

type n =
| N0
| Npos of positive

type z =
| Z0
| Zpos of positive
| Zneg of positive

module Pos =
 struct
  (** val succ : positive -> positive **)

  let rec succ = function
  | XI p -> XO (succ p)
  | XO p -> XI p
  | XH -> XO XH

  (** val eqb : positive -> positive -> bool **)

  let rec eqb p q =
    match p with
    | XI p0 -> (match q with
                | XI q0 -> eqb p0 q0
                | _ -> false)
    | XO p0 -> (match q with
                | XO q0 -> eqb p0 q0
                | _ -> false)
    | XH -> (match q with
             | XH -> true
             | _ -> false)
 end

module N =
 struct
  (** val succ : n -> n **)

  let succ = function
  | N0 -> Npos XH
  | Npos p -> Npos (Pos.succ p)

  (** val eqb : n -> n -> bool **)

  let eqb n0 m =
    match n0 with
    | N0 -> (match m with
             | N0 -> true
             | Npos _ -> false)
    | Npos p -> (match m with
                 | N0 -> false
                 | Npos q -> Pos.eqb p q)
 end

(** val removelast : 'a1 list -> 'a1 list **)

let rec removelast = function
| [] -> []
| a :: l0 -> (match l0 with
              | [] -> []
              | _ :: _ -> a :: (removelast l0))

(** val rev : 'a1 list -> 'a1 list **)

let rec rev = function
| [] -> []
| x :: l' -> app (rev l') (x :: [])

(** val rev_append : 'a1 list -> 'a1 list -> 'a1 list **)

let rec rev_append l l' =
  match l with
  | [] -> l'
  | a :: l0 -> rev_append l0 (a :: l')

(** val map : ('a1 -> 'a2) -> 'a1 list -> 'a2 list **)

let rec map f = function
| [] -> []
| a :: t -> (f a) :: (map f t)

(** val firstn : nat -> 'a1 list -> 'a1 list **)

let rec firstn n0 l =
  match n0 with
  | O -> []
  | S n1 -> (match l with
             | [] -> []
             | a :: l0 -> a :: (firstn n1 l0))

(** val skipn : nat -> 'a1 list -> 'a1 list **)

let rec skipn n0 l =
  match n0 with
  | O -> l
  | S n1 -> (match l with
             | [] -> []
             | _ :: l0 -> skipn n1 l0)

(** val ex_keep :
    (((((nat * n) * z) * z list) * z option) * positive) * bool **)

let ex_keep =
  ((((((O, N0), Z0), []), None), XH), true)

type ch = n

(** val c_sq : ch **)

let c_sq =
  Npos (XI (XI (XI (XO (XO XH)))))

(** val c_dq : ch **)

let c_dq =
  Npos (XO (XI (XO (XO (XO XH)))))

(** val c_bs : ch **)

let c_bs =
  Npos (XO (XO (XI (XI (XI (XO XH))))))

(** val c_hash : ch **)

let c_hash =
  Npos (XI (XI (XO (XO (XO XH)))))

(** val c_f : ch **)

let c_f =
  Npos (XO (XI (XI (XO (XO (XI XH))))))

(** val c_F : ch **)

let c_F =
  Npos (XO (XI (XI (XO (XO (XO XH))))))

(** val c_r : ch **)

let c_r =
  Npos (XO (XI (XO (XO (XI (XI XH))))))

(** val c_R : ch **)

let c_R =
  Npos (XO (XI (XO (XO (XI (XO XH))))))

(** val c_lb : ch **)

let c_lb =
  Npos (XI (XI (XO (XI (XI (XI XH))))))

(** val c_rb : ch **)

let c_rb =
  Npos (XI (XO (XI (XI (XI (XI XH))))))

(** val c_nl : ch **)

let c_nl =
  Npos (XO (XI (XO XH)))

(** val is_quote : ch -> bool **)

let is_quote c =
  (||) (N.eqb c c_sq) (N.eqb c c_dq)

(** val is_brace : ch -> bool **)

let is_brace c =
  (||) (N.eqb c c_lb) (N.eqb c c_rb)

(** val is_f : bool -> ch -> bool **)

let is_f fixp c =
  (||) (N.eqb c c_f) ((&&) fixp (N.eqb c c_F))

(** val is_r : ch -> bool **)

let is_r c =
  (||) (N.eqb c c_r) (N.eqb c c_R)

(** val span_eq : ch -> ch list -> ch list * ch list **)

let rec span_eq c l = match l with
| [] -> ([], [])
| x :: t ->
  if N.eqb x c
  then let (run0, r) = span_eq c t in ((x :: run0), r)
  else ([], l)

(** val span_nl : ch list -> ch list * ch list **)

let rec span_nl l = match l with
| [] -> ([], [])
| x :: t ->
  if N.eqb x c_nl then ([], l) else let (b, r) = span_nl t in ((x :: b), r)

type token =
| TComment
| TBrace of ch
| TBraces of ch * ch list
| TEscape of ch list * ch
| TQuote of ch list * ch * ch list

type rx =
| RxCode
| RxStr
| RxFStr

(** val match_quote : bool -> ch list -> (token * ch list) option **)

let match_quote fixp l = match l with
| [] -> None
| c :: t ->
  if is_quote c
  then let (run0, r) = span_eq c l in Some ((TQuote ([], c, run0)), r)
  else if is_f fixp c
       then (match t with
             | [] -> None
             | q :: _ ->
               if is_quote q
               then let (run0, r) = span_eq q t in
                    Some ((TQuote ((c :: []), q, run0)), r)
               else if (&&) fixp (is_r q)
                    then (match t with
                          | [] -> None
                          | _ :: t2 ->
                            (match t2 with
                             | [] -> None
                             | q2 :: _ ->
                               if is_quote q2
                               then let (run0, r) = span_eq q2 t2 in
                                    Some ((TQuote ((c :: (q :: [])), q2,
                                    run0)), r)
                               else None))
                    else None)
       else None

(** val match_escape : ch list -> (token * ch list) option **)

let match_escape l =
  let (bs, r) = span_eq c_bs l in
  (match r with
   | [] -> None
   | q :: r' -> if is_quote q then Some ((TEscape (bs, q)), r') else None)

(** val try_at : rx -> bool -> ch list -> (token * ch list) option **)

let try_at r fixp l = match l with
| [] -> None
| c :: t ->
  (match r with
   | RxCode ->
     if N.eqb c c_hash
     then Some (TComment, t)
     else if is_brace c then Some ((TBrace c), t) else match_quote fixp l
   | RxStr -> if N.eqb c c_bs then match_escape l else match_quote false l
   | RxFStr ->
     if is_brace c
     then let (run0, r') = span_eq c l in Some ((TBraces (c, run0)), r')
     else if N.eqb c c_bs then match_escape l else match_quote false l)

(** val find :
    rx -> bool -> ch list -> ((ch list * token) * ch list) option **)

let rec find r fixp l = match l with
| [] -> None
| c :: t ->
  (match try_at r fixp l with
   | Some p -> let (tok, rest) = p in Some (([], tok), rest)
   | None ->
     (match find r fixp t with
      | Some p ->
        let (p0, rest) = p in
        let (sk, tok) = p0 in Some (((c :: sk), tok), rest)
      | None -> None))

type item =
| Ch of ch
| Lab of n

type state = { s_out : item list; s_lits : ch list list; s_cnt : n }

(** val emit : ch list -> state -> state **)

let emit cs s =
  { s_out = (rev_append (map (fun x -> Ch x) cs) s.s_out); s_lits = s.s_lits;
    s_cnt = s.s_cnt }

(** val emit_label : ch list -> state -> state **)

let emit_label lit s =
  let k = N.succ s.s_cnt in
  { s_out = ((Lab k) :: s.s_out); s_lits = (lit :: s.s_lits); s_cnt = k }

(** val emit_label_ne : ch list -> state -> state **)

let emit_label_ne lit s =
  match lit with
  | [] -> s
  | _ :: _ -> emit_label lit s

type cctx =
| CTop
| CFromStr of ch * bool * cctx
| CFromCode of cctx

type mode =
| MCode of cctx
| MStr of ch * bool * bool * cctx * ch list

type result =
| Done of item list * ch list list
| OutOfFuel
| Stuck

(** val finish : state -> result **)

let finish s =
  Done ((rev s.s_out), (rev s.s_lits))

(** val nonempty : ch list -> bool **)

let nonempty = function
| [] -> false
| _ :: _ -> true

(** val qlen : bool -> nat **)

let qlen = function
| true -> S (S (S O))
| false -> S O

(** val run : nat -> bool -> bool -> mode -> ch list -> state -> result **)

let rec run fuel fixp fixe m rest s =
  match fuel with
  | O -> OutOfFuel
  | S fuel0 ->
    (match m with
     | MCode c ->
       (match find RxCode fixp rest with
        | Some p ->
          let (p0, rest') = p in
          let (sk, tok) = p0 in
          (match tok with
           | TComment ->
             let (body0, after) = span_nl rest' in
             let s2 = emit_label body0 (emit (app sk (c_hash :: [])) s) in
             (match after with
              | [] -> finish s2
              | _ :: _ -> run fuel0 fixp fixe (MCode c) after s2)
           | TBrace b ->
             let s1 = emit (app sk (b :: [])) s in
             (match c with
              | CTop -> run fuel0 fixp fixe (MCode c) rest' s1
              | CFromStr (q, triple, p1) ->
                if N.eqb b c_rb
                then run fuel0 fixp fixe (MStr (q, triple, true, p1, []))
                       rest' s1
                else run fuel0 fixp fixe (MCode (CFromCode c)) rest' s1
              | CFromCode p1 ->
                if N.eqb b c_rb
                then run fuel0 fixp fixe (MCode p1) rest' s1
                else run fuel0 fixp fixe (MCode (CFromCode c)) rest' s1)
           | TQuote (pre, q, qrun) ->
             let n0 = length qrun in
             let n' =
               if ltb n0 (S (S (S (S (S (S O))))))
               then n0
               else modulo n0 (S (S (S (S (S (S O))))))
             in
             if (||) (eqb n' O) (eqb n' (S (S O)))
             then run fuel0 fixp fixe (MCode c) rest'
                    (emit (app sk (app pre qrun)) s)
             else let extra =
                    sub n' (if eqb n' (S O) then S O else S (S (S O)))
                  in
                  let keep = sub n0 extra in
                  run fuel0 fixp fixe (MStr (q, (negb (eqb n' (S O))),
                    ((&&) (nonempty pre)
                      (negb ((&&) fixe (leb (S (S (S (S (S (S O)))))) n0)))),
                    c, (rev (skipn keep qrun)))) rest'
                    (emit (app sk (app pre (firstn keep qrun))) s)
           | _ -> Stuck)
        | None -> finish (emit rest s))
     | MStr (q, triple, isf, p, rpend) ->
       (match find (if isf then RxFStr else RxStr) false rest with
        | Some p0 ->
          let (p1, rest') = p0 in
          let (sk, tok) = p1 in
          (match tok with
           | TBraces (b, brun) ->
             if negb isf
             then Stuck
             else if (||) (even (length brun)) (negb (N.eqb b c_lb))
                  then run fuel0 fixp fixe (MStr (q, triple, isf, p,
                         (rev_append (app sk brun) rpend))) rest' s
                  else let s1 =
                         emit_label_ne
                           (rev_append rpend (app sk (removelast brun))) s
                       in
                       run fuel0 fixp fixe (MCode (CFromStr (q, triple, p)))
                         rest' (emit (c_lb :: []) s1)
           | TEscape (bs, c) ->
             if (&&) (even (length bs)) (N.eqb c q)
             then run fuel0 fixp fixe (MStr (q, triple, isf, p,
                    (rev_append (app sk bs) rpend))) (c :: rest') s
             else run fuel0 fixp fixe (MStr (q, triple, isf, p,
                    (rev_append (app sk (app bs (c :: []))) rpend))) rest' s
           | TQuote (pre, c, qrun) ->
             if (&&) (N.eqb c q) (leb (qlen triple) (length qrun))
             then let s1 = emit_label_ne (rev_append rpend (app sk pre)) s in
                  run fuel0 fixp fixe (MCode p)
                    (app (skipn (qlen triple) qrun) rest')
                    (emit (firstn (qlen triple) qrun) s1)
             else run fuel0 fixp fixe (MStr (q, triple, isf, p,
                    (rev_append (app sk (app pre qrun)) rpend))) rest' s
           | _ -> Stuck)
        | None -> finish (emit_label (rev_append rpend rest) s)))

(** val init_state : state **)

let init_state =
  { s_out = []; s_lits = []; s_cnt = N0 }

(** val strip : bool -> bool -> ch list -> result **)

let strip fixp fixe code =
  run (S (length code)) fixp fixe (MCode CTop) code init_state

type rstate =
| RCode of nat
| RStr of ch * bool * bool
| RComment

(** val next_pf : nat -> ch -> nat **)

let next_pf pf c =
  if (||) (N.eqb c c_f) (N.eqb c c_F)
  then S O
  else if (&&) (is_r c) (eqb pf (S O)) then S (S O) else O

(** val kept : ch -> ch * bool **)

let kept c =
  (c, false)

(** val body : ch -> ch * bool **)

let body c =
  (c, true)

(** val refc : rstate -> ch list -> (ch * bool) list option **)

let rec refc st = function
| [] -> Some []
| c :: t ->
  (match st with
   | RCode pf ->
     if N.eqb c c_hash
     then option_map (fun x -> (kept c) :: x) (refc RComment t)
     else if is_quote c
          then if negb (eqb pf O)
               then None
               else (match t with
                     | [] ->
                       option_map (fun x -> (kept c) :: x)
                         (refc (RStr (c, false, false)) t)
                     | c2 :: l0 ->
                       (match l0 with
                        | [] ->
                          option_map (fun x -> (kept c) :: x)
                            (refc (RStr (c, false, false)) t)
                        | c3 :: t3 ->
                          if (&&) (N.eqb c2 c) (N.eqb c3 c)
                          then option_map (fun r ->
                                 (kept c) :: ((kept c2) :: ((kept c3) :: r)))
                                 (refc (RStr (c, true, false)) t3)
                          else option_map (fun x -> (kept c) :: x)
                                 (refc (RStr (c, false, false)) t)))
          else option_map (fun x -> (kept c) :: x)
                 (refc (RCode (next_pf pf c)) t)
   | RStr (q, triple, esc) ->
     if esc
     then option_map (fun x -> (body c) :: x)
            (refc (RStr (q, triple, false)) t)
     else if N.eqb c c_bs
          then option_map (fun x -> (body c) :: x)
                 (refc (RStr (q, triple, true)) t)
          else if N.eqb c q
               then if triple
                    then (match t with
                          | [] ->
                            option_map (fun x -> (body c) :: x) (refc st t)
                          | c2 :: l0 ->
                            (match l0 with
                             | [] ->
                               option_map (fun x -> (body c) :: x) (refc st t)
                             | c3 :: t3 ->
                               if (&&) (N.eqb c2 q) (N.eqb c3 q)
                               then option_map (fun r ->
                                      (kept c) :: ((kept c2) :: ((kept c3) :: r)))
                                      (refc (RCode O) t3)
                               else option_map (fun x -> (body c) :: x)
                                      (refc st t)))
                    else option_map (fun x -> (kept c) :: x)
                           (refc (RCode O) t)
               else option_map (fun x -> (body c) :: x) (refc st t)
   | RComment ->
     if N.eqb c c_nl
     then option_map (fun x -> (kept c) :: x) (refc (RCode O) t)
     else option_map (fun x -> (body c) :: x) (refc RComment t))

(** val ref_classify : ch list -> (ch * bool) list option **)

let ref_classify code =
  refc (RCode O) code
